#!/bin/sh
cd "$(dirname "$0")/lean" && lake build
