import Model.Percent
import Model.Base64
/-
  C15 — what the client half emits (authlib/oauth2/rfc6749/parameters.py, oauth2/auth.py,
  rfc6750/parameters.py) and how the server half reads it back
  (rfc6749/requests.py, rfc6749/util.py: extract_basic_authorization). Octet level (UTF-8 text).
-/
namespace Model.ClientEmit
open Model Model.Percent

abbrev Params := List (Bytes × Bytes)

def s (x : String) : Bytes := x.toUTF8.toList

/-- `prepare_token_request(grant_type, body, redirect_uri, **kwargs)`:
    kwargs are (name, value) in call order; falsy values are dropped. `scope` already joined. -/
def prepareTokenRequest (grantType body : Bytes) (redirectUri : Option Bytes) (kwargs : Params) : Bytes :=
  addParamsToQs body
    ([(s "grant_type", grantType)] ++
     (match redirectUri with | some r => if r.isEmpty then [] else [(s "redirect_uri", r)] | none => []) ++
     kwargs.filter (fun p => !p.2.isEmpty))

/-- parameter list of `prepare_grant_uri` (before `add_params_to_uri`) -/
def grantParams (clientId responseType : Bytes) (redirectUri scope state : Option Bytes) (kwargs : Params) : Params :=
  let opt (k : String) (v : Option Bytes) : Params :=
    match v with | some x => if x.isEmpty then [] else [(s k, x)] | none => []
  [(s "response_type", responseType), (s "client_id", clientId)] ++
    opt "redirect_uri" redirectUri ++ opt "scope" scope ++ opt "state" state ++ kwargs

/-- the query component of `prepare_grant_uri(uri, …)` given the uri's existing query -/
def prepareGrantQuery (existingQuery clientId responseType : Bytes) (redirectUri scope state : Option Bytes)
    (kwargs : Params) : Bytes :=
  addParamsToQs existingQuery (grantParams clientId responseType redirectUri scope state kwargs)

/-- `encode_client_secret_post` body -/
def encodeSecretPost (body clientId clientSecret : Bytes) : Bytes :=
  addParamsToQs body [(s "client_id", clientId), (s "client_secret", clientSecret)]

/-- `encode_none` body (POST) or query (GET) -/
def encodeNone (bodyOrQuery clientId : Bytes) : Bytes :=
  addParamsToQs bodyOrQuery [(s "client_id", clientId)]

/-- `encode_client_secret_basic`: the Authorization header value (latin-1 octets) -/
def encodeSecretBasic (clientId clientSecret : Bytes) : Bytes :=
  s "Basic " ++ Base64.stdEncode (clientId ++ 58 :: clientSecret)

/-- `add_bearer_token` for the three placements -/
def bearerHeader (token : Bytes) : Bytes := s "Bearer " ++ token
def bearerQueryOrBody (existing token : Bytes) : Bytes := addParamsToQs existing [(s "access_token", token)]

/-! ### server side -/

/-- Python `str.isspace` restricted to latin-1 code points -/
def isWs (c : UInt8) : Bool := (9 ≤ c && c ≤ 13) || (28 ≤ c && c ≤ 32) || c = 0x85 || c = 0xa0

def dropWs : Bytes → Bytes
  | [] => []
  | c :: r => if isWs c then dropWs r else c :: r

def takeWord : Bytes → Bytes × Bytes
  | [] => ([], [])
  | c :: r => if isWs c then ([], c :: r) else let (w, t) := takeWord r; (c :: w, t)

/-- `auth.split(None, 1)` when it yields exactly two parts -/
def splitNone1 (a : Bytes) : Option (Bytes × Bytes) :=
  let (w, t) := takeWord (dropWs a)
  let rest := dropWs t
  if w.isEmpty || rest.isEmpty then none else some (w, rest)

def lowerB (c : UInt8) : UInt8 := if 65 ≤ c ∧ c ≤ 90 then c + 32 else c

def utf8Valid (b : Bytes) : Bool := (String.fromUTF8? ⟨b.toArray⟩).isSome

/-- `extract_basic_authorization(headers)` on the header value (after the fix: a header without
    two parts, or credentials that are not UTF-8, count as "no credentials").
    Result: (client_id, client_secret) — `none` components as Python `None`. -/
def extractBasic (auth : Option Bytes) : Option Bytes × Option Bytes :=
  match auth with
  | none => (none, none)
  | some a =>
    if a.isEmpty || !(a.contains 32) then (none, none)
    else match splitNone1 a with
      | none => (none, none)
      | some (ty, tok) =>
        if ty.map lowerB != s "basic" then (none, none)
        else match Base64.stdDecode tok with
          | none => (none, none)
          | some q =>
            if !utf8Valid q then (none, none) else
            match split1 58 q with
            | (u, some p) => (some (unquote u), some (unquote p))
            | (u, none) => (some u, none)

/-- `dict(parse_qsl(query))` lookups: last occurrence wins; blank values dropped unless `keepBlank` -/
def dictGet (keepBlank : Bool) (query : Bytes) (k : Bytes) : Option Bytes :=
  let ps := (parseQsl query).filter (fun p => keepBlank || !p.2.isEmpty)
  (ps.reverse.lookup k)

inductive ParseErr | missingCode | missingToken | missingTokenType | mismatchingState
  deriving DecidableEq, Repr

/-- `parse_authorization_code_response(uri, state)` on the query component -/
def parseCodeResponse (query : Bytes) (state : Option Bytes) : Except ParseErr (Bytes × Option Bytes) :=
  match dictGet false query (s "code") with
  | none => .error .missingCode
  | some code =>
    let ps := dictGet false query (s "state")
    match state with
    | some st => if !st.isEmpty && ps != some st then .error .mismatchingState else .ok (code, ps)
    | none => .ok (code, ps)

/-- `parse_implicit_response(uri, state)` on the fragment component -/
def parseImplicitResponse (fragment : Bytes) (state : Option Bytes) :
    Except ParseErr (Bytes × Bytes × Option Bytes) :=
  match dictGet true fragment (s "access_token") with
  | none => .error .missingToken
  | some tok =>
    match dictGet true fragment (s "token_type") with
    | none => .error .missingTokenType
    | some tt =>
      let ps := dictGet true fragment (s "state")
      match state with
      | some st => if !st.isEmpty && ps != some st then .error .mismatchingState else .ok (tok, tt, ps)
      | none => .ok (tok, tt, ps)

end Model.ClientEmit
