/-
  Python `str` helpers on `List Char`: `str.split()` (whitespace runs), `" ".join`.
-/
namespace Model.Text

abbrev Str := List Char

/-- `c.isspace()` for a Python `str` character -/
def isPySpace (c : Char) : Bool :=
  let n := c.toNat
  (9 ≤ n && n ≤ 13) || (28 ≤ n && n ≤ 32) || n = 0x85 || n = 0xa0 || n = 0x1680 ||
  (0x2000 ≤ n && n ≤ 0x200a) || n = 0x2028 || n = 0x2029 || n = 0x202f || n = 0x205f || n = 0x3000

/-- `s.split()` with the word being collected in `cur` (in order) -/
def splitWsAux : Str → Str → List Str
  | [], cur => if cur.isEmpty then [] else [cur]
  | c :: rest, cur =>
    if isPySpace c then
      (if cur.isEmpty then splitWsAux rest [] else cur :: splitWsAux rest [])
    else splitWsAux rest (cur ++ [c])

/-- `s.split()` -/
def splitWs (s : Str) : List Str := splitWsAux s []

/-- `" ".join(ws)` -/
def joinSp : List Str → Str
  | [] => []
  | [w] => w
  | w :: v :: rest => w ++ ' ' :: joinSp (v :: rest)

/-- a word as `split()` produces them: non-empty, no whitespace -/
def IsWord (w : Str) : Prop := w ≠ [] ∧ ∀ c ∈ w, isPySpace c = false

end Model.Text
