import Model.Url
import Generated.Metadata
/-
  C18 — authorization-server / OpenID-provider metadata validation
  (authlib/oauth2/rfc8414/models.py, authlib/oidc/discovery/models.py): one validator per member,
  run in REGISTRY_KEYS order (the key lists are regenerated from the classes on every run).
  JSON values as Python sees them; a validator ends in ok, ValueError(message) or an escaping
  exception of another class (`crash`).
-/
namespace Model.Metadata
open Model.Url

/-- a JSON value as an element of an array -/
inductive A
  | null
  | bool (b : Bool)
  | num (n : Int)
  | str (s : String)
  | obj (keys : List String)
  | lst (empty : Bool)
  deriving Repr, DecidableEq

/-- a member value: a scalar / object, or an array of elements -/
inductive V
  | a (x : A)
  | l (xs : List A)
  deriving Repr, DecidableEq

abbrev Doc := List (String × V)

inductive R
  | ok
  | err (msg : String)          -- ValueError(msg)
  | crash (exc : String)        -- any other exception class escaping validate()
  deriving Repr, DecidableEq

def A.truthy : A → Bool
  | .null => false | .bool b => b | .num n => n != 0 | .str s => s != "" | .obj ks => !ks.isEmpty | .lst e => !e

def V.truthy : V → Bool
  | .a x => x.truthy
  | .l xs => !xs.isEmpty

def V.isList : V → Bool
  | .l _ => true
  | .a _ => false

def V.isNull : V → Bool
  | .a .null => true
  | _ => false

def A.hashable : A → Bool
  | .obj _ => false | .lst _ => false | _ => true

/-- Python `==` between JSON scalars (True == 1) -/
def A.pyEq : A → A → Bool
  | .null, .null => true
  | .str s, .str t => s == t
  | .bool b, .bool c => b == c
  | .num n, .num m => n == m
  | .bool b, .num n => (if b then 1 else 0) == n
  | .num n, .bool b => n == (if b then 1 else 0)
  | _, _ => false

def mem (x : A) (xs : List A) : Bool := xs.any fun y => y.pyEq x

/-- `self.get(key)` -/
def mget (d : Doc) (k : String) : V := (d.lookup k).getD (.a .null)
/-- `self.get(key, default)` — a member that is present with value null stays null -/
def getD (d : Doc) (k : String) (dflt : V) : V := (d.lookup k).getD dflt
def has (d : Doc) (k : String) : Bool := (d.lookup k).isSome

/-- `set(x)`: the elements, or none = TypeError (not iterable / unhashable element) -/
def pySet : V → Option (List A)
  | .l xs => if xs.all A.hashable then some xs else none
  | .a (.str s) => some (s.toList.map fun c => A.str (String.singleton c))
  | .a (.obj ks) => some (ks.map A.str)
  | .a _ => none

def pyLen : V → Option Nat
  | .l xs => some xs.length
  | .a (.str s) => some s.length
  | .a (.obj ks) => some ks.length
  | .a _ => none

def strs (l : List String) : V := .l (l.map A.str)

def secureStr (v : V) (okIf : List Char → Bool) (msg : String) : R :=
  match v with
  | .a (.str s) => if okIf s.toList then .ok else .err msg
  | _ => .crash "AttributeError"

/-- `url = self.get(key); if url and not is_secure_transport(url): raise` -/
def optionalHttps (d : Doc) (k : String) : R :=
  let v := mget d k
  if v.truthy then secureStr v isSecureTransport s!"\"{k}\" MUST use \"https\" scheme" else .ok

def optionalUrl (d : Doc) (k : String) : R :=
  let v := mget d k
  if v.truthy then secureStr v (fun s => isValidUrl s true) s!"\"{k}\" MUST be a URL" else .ok

def arrayValue (d : Doc) (k : String) : R :=
  let v := mget d k
  if !v.isNull && !v.isList then .err s!"\"{k}\" MUST be JSON array" else .ok

def jwtMethods (xs : List A) : Bool := mem (.str "private_key_jwt") xs || mem (.str "client_secret_jwt") xs

/-- `_validate_alg_values(data, key, auth_methods_supported)` -/
def algValues (d : Doc) (k methodsKey : String) : R :=
  let v := mget d k
  if !v.isNull && !v.isList then .err s!"\"{k}\" MUST be JSON array"
  else match pySet (getD d methodsKey (strs ["client_secret_basic"])) with
    | none => .crash "TypeError"
    | some ms =>
      if jwtMethods ms && !v.truthy then .err s!"\"{k}\" is required"
      else match v with
        | .l xs => if v.truthy && mem (.str "none") xs then .err s!"the value \"none\" MUST NOT be used in \"{k}\"" else .ok
        | _ => .ok

def subsetOf (allowed : List String) (xs : List A) : Bool := xs.all fun x => mem x (allowed.map A.str)

/-- optional enumerated array (display_values_supported, claim_types_supported) -/
def enumArray (d : Doc) (k : String) (allowed : List String) : R :=
  let v := mget d k
  if v.isNull then .ok
  else match v with
    | .l xs => if !xs.all A.hashable then .crash "TypeError"
               else if subsetOf allowed xs then .ok else .err s!"\"{k}\" contains invalid values"
    | _ => .err s!"\"{k}\" MUST be JSON array"

/-- `_validate_boolean_value` -/
def booleanValue (d : Doc) (k : String) : R :=
  match d.lookup k with
  | none => .ok
  | some (.a x) => if x.pyEq (.bool true) || x.pyEq (.bool false) then .ok else .err s!"\"{k}\" MUST be boolean"
  | some (.l _) => .err s!"\"{k}\" MUST be boolean"

def validateIssuer (d : Doc) : R :=
  let v := mget d "issuer"
  if !v.truthy then .err "\"issuer\" is required"
  else match v with
    | .a (.str s) =>
      let sp := urlsplit s.toList
      if !isSecureTransport s.toList then .err "\"issuer\" MUST use \"https\" scheme"
      else if !sp.query.isEmpty || !sp.fragment.isEmpty then .err "\"issuer\" has no query or fragment"
      else .ok
    | _ => .crash "AttributeError"

def validateAuthorizationEndpoint (d : Doc) : R :=
  let v := mget d "authorization_endpoint"
  if v.truthy then secureStr v isSecureTransport "\"authorization_endpoint\" MUST use \"https\" scheme"
  else match pySet (getD d "grant_types_supported" (strs ["authorization_code", "implicit"])) with
    | none => .crash "TypeError"
    | some gs => if mem (.str "authorization_code") gs || mem (.str "implicit") gs then .err "\"authorization_endpoint\" is required" else .ok

def tokenEndpointUrl (d : Doc) : R :=
  let v := mget d "token_endpoint"
  if !v.truthy then .err "\"token_endpoint\" is required"
  else secureStr v isSecureTransport "\"token_endpoint\" MUST use \"https\" scheme"

def validateTokenEndpoint (d : Doc) : R :=
  let g := mget d "grant_types_supported"
  if !g.truthy then tokenEndpointUrl d
  else match pyLen g with
    | none => .crash "TypeError"
    | some n =>
      if n != 1 then tokenEndpointUrl d
      else match g with
        | .l (x :: _) => if x.pyEq (.str "implicit") then .ok else tokenEndpointUrl d
        | .a (.str _) => tokenEndpointUrl d          -- a one-character string never equals "implicit"
        | _ => .crash "KeyError"

def validateResponseTypes (d : Doc) : R :=
  let v := mget d "response_types_supported"
  if !v.truthy then .err "\"response_types_supported\" is required"
  else if !v.isList then .err "\"response_types_supported\" MUST be JSON array" else .ok

/-- the OpenID overrides -/
def validateJwksUriOP (d : Doc) : R :=
  if !(mget d "jwks_uri").truthy then .err "\"jwks_uri\" is required" else optionalHttps d "jwks_uri"

def validateSubjectTypes (d : Doc) : R :=
  let v := mget d "subject_types_supported"
  if v.isNull then .err "\"subject_types_supported\" is required"
  else match v with
    | .l xs => if !xs.all A.hashable then .crash "TypeError"
               else if subsetOf ["pairwise", "public"] xs then .ok else .err "\"subject_types_supported\" contains invalid values"
    | _ => .err "\"subject_types_supported\" MUST be JSON array"

def validateIdTokenAlgs (d : Doc) : R :=
  let v := mget d "id_token_signing_alg_values_supported"
  if v.isNull then .err "\"id_token_signing_alg_values_supported\" is required"
  else match v with
    | .l xs => if mem (.str "RS256") xs then .ok else .err "\"RS256\" MUST be included in \"id_token_signing_alg_values_supported\""
    | _ => .err "\"id_token_signing_alg_values_supported\" MUST be JSON array"

def arrayKeys : List String :=
  ["scopes_supported", "response_modes_supported", "grant_types_supported", "token_endpoint_auth_methods_supported",
   "ui_locales_supported", "revocation_endpoint_auth_methods_supported", "introspection_endpoint_auth_methods_supported",
   "code_challenge_methods_supported", "acr_values_supported", "id_token_encryption_alg_values_supported",
   "id_token_encryption_enc_values_supported", "userinfo_signing_alg_values_supported",
   "userinfo_encryption_alg_values_supported", "userinfo_encryption_enc_values_supported",
   "request_object_signing_alg_values_supported", "request_object_encryption_alg_values_supported",
   "request_object_encryption_enc_values_supported", "claims_supported", "claims_locales_supported"]

def httpsKeys : List String := ["jwks_uri", "registration_endpoint", "revocation_endpoint", "introspection_endpoint"]
def urlKeys : List String := ["service_documentation", "op_policy_uri", "op_tos_uri"]
def boolKeys : List String :=
  ["claims_parameter_supported", "request_parameter_supported", "request_uri_parameter_supported", "require_request_uri_registration"]
def algKeys : List (String × String) :=
  [("token_endpoint_auth_signing_alg_values_supported", "token_endpoint_auth_methods_supported"),
   ("revocation_endpoint_auth_signing_alg_values_supported", "revocation_endpoint_auth_methods_supported"),
   ("introspection_endpoint_auth_signing_alg_values_supported", "introspection_endpoint_auth_methods_supported")]

/-- `validate_<key>` of the class (`op` = OpenIDProviderMetadata) -/
def validator (op : Bool) (k : String) (d : Doc) : R :=
  if k == "issuer" then validateIssuer d
  else if k == "authorization_endpoint" then validateAuthorizationEndpoint d
  else if k == "token_endpoint" then validateTokenEndpoint d
  else if k == "jwks_uri" then (if op then validateJwksUriOP d else optionalHttps d k)
  else if k == "response_types_supported" then validateResponseTypes d
  else if k == "subject_types_supported" then validateSubjectTypes d
  else if k == "id_token_signing_alg_values_supported" then validateIdTokenAlgs d
  else if k == "display_values_supported" then enumArray d k ["page", "popup", "touch", "wap"]
  else if k == "claim_types_supported" then enumArray d k ["normal", "aggregated", "distributed"]
  else if httpsKeys.contains k then optionalHttps d k
  else if urlKeys.contains k then optionalUrl d k
  else if boolKeys.contains k then booleanValue d k
  else match algKeys.lookup k with
    | some mk => algValues d k mk
    | none => if arrayKeys.contains k then arrayValue d k else .crash "no-validator"

/-- `validate()`: the validators in registry order, first failure wins -/
def runValidators (op : Bool) (d : Doc) : List String → R
  | [] => .ok
  | k :: r => match validator op k d with
    | .ok => runValidators op d r
    | e => e

def validateAS (d : Doc) : R := runValidators false d Generated.Metadata.asRegistryKeys
def validateOP (d : Doc) : R := runValidators true d Generated.Metadata.opRegistryKeys

/-- every string value occurring in the document is within the URL model's supported alphabet -/
def docSupported (d : Doc) : Bool :=
  d.all fun (_, v) => match v with
    | .a (.str s) => supported s.toList || s.isEmpty
    | _ => true

end Model.Metadata
