import Model.Scope
import Model.Regex
import Model.Base64
import Model.Sha
import Generated.Grants
/-
  C06 / C09 — the OAuth 2 provider as a state machine over the reference integrator
  (harness/memserver.py = sqla_oauth2 semantics): authorization codes, device codes, tokens,
  refresh, revocation, introspection, resource access, clock.
  Mirrors grants/authorization_code.py (validate_token_request, create_token_response),
  rfc7636/challenge.py (validate_code_verifier), rfc8628 (device flow), grants/refresh_token.py,
  rfc7009/revocation.py, rfc7662/introspection.py, rfc6750/validator.py.
  Credentials are numbered: code n ↔ "code{n}", access token ↔ "at{n}", refresh ↔ "rt{n}",
  device code ↔ "dc{n}", user code ↔ "uc{n}" (the integrator's deterministic generators).
-/
namespace Model.Provider
open Model Model.Text

structure Client where
  id : String
  uris : List String
  scope : Str                      -- registered scope string
  method : String                  -- token_endpoint_auth_method
  deriving Repr, DecidableEq

inductive Prov
  | code (n : Nat) | refresh (oldAccess : Nat) | device (dc : Nat) | password | clientCredentials | seeded
  deriving Repr, DecidableEq

structure CodeRec where
  n : Nat
  client : String
  redirect : Option String
  scope : Option Str
  user : Nat
  challenge : Option String
  method : Option String
  authTime : Int
  deriving Repr, DecidableEq

structure TokRec where
  access : Nat
  refresh : Option Nat
  client : String
  user : Option Nat
  scope : Option Str
  issuedAt : Int
  expiresIn : Int
  accessRevoked : Bool
  refreshRevoked : Bool
  prov : Prov
  deriving Repr, DecidableEq

structure DevRec where
  dc : Nat
  uc : Nat
  client : String
  scope : Option Str
  expiresAt : Int
  deriving Repr, DecidableEq

structure Store where
  clients : List Client
  codes : List CodeRec
  tokens : List TokRec
  devices : List DevRec
  grants : List (Nat × Nat × Bool)      -- user code ↦ (user, approved); latest decision first
  lastPoll : List (Nat × Int)           -- device code ↦ time of the previous pending poll
  now : Int
  fresh : Nat
  pkceRequired : Bool
  supported : Option (List Str)
  strictHint : Bool := false          -- integrator variant: query_token looks only where the hint says (RFC 7009 docstring example)
  deriving Repr

/-- how a request refers to a credential: the parsed form of the presented string -/
inductive Ref
  | code (n : Nat) | at (n : Nat) | rt (n : Nat) | dc (n : Nat) | other
  deriving Repr, DecidableEq

/-- result of client authentication (C07 owns the details): the client and the method used -/
abbrev Auth := Option (String × String)

inductive Op
  | authorize (client : String) (redirect : Option String) (scope : Option Str) (challenge method : Option String)
      (user : Nat) (approve : Bool)
  | redeem (auth : Auth) (code : Option Ref) (redirect : Option String) (verifier : Option String)
  | deviceAuthorize (auth : Auth) (clientIdParam : Option String) (scope : Option Str)
  | userDecide (uc : Nat) (user : Nat) (approve : Bool)
  | poll (auth : Auth) (dc : Option Ref)
  | issuePassword (auth : Auth) (user : Option Nat) (scope : Option Str)
  | issueClientCredentials (auth : Auth) (scope : Option Str)
  | refresh (auth : Auth) (token : Option Ref) (scope : Option Str)
  | revoke (auth : Auth) (token : Option Ref) (hint : Option String)
  | introspect (auth : Auth) (token : Option Ref) (hint : Option String)
  | access (token : Option Ref) (required : Option (List Str))
  | advance (dt : Nat)
  deriving Repr

/-- what the provider answered -/
structure Out where
  status : Nat
  error : Option String := none
  code : Option Nat := none
  access : Option Nat := none
  refresh : Option Nat := none
  scope : Option Str := none
  deviceCode : Option Nat := none
  userCode : Option Nat := none
  active : Option Bool := none
  deriving Repr, DecidableEq

def err (status : Nat) (e : String) : Out := { status := status, error := some e }

def findClient (s : Store) (id : String) : Option Client := s.clients.find? fun c => c.id == id

def truthyS (o : Option String) : Bool := match o with | some x => !x.isEmpty | none => false

/-- PKCE verifier syntax (pattern regenerated from challenge.py) -/
def verifierWellFormed (v : String) : Bool :=
  Regex.matchClassRepeat Generated.Grants.codeVerifierRanges Generated.Grants.codeVerifierMin
    Generated.Grants.codeVerifierMax Generated.Grants.codeVerifierEndIsDollar v.toList

def challengeWellFormed (v : String) : Bool :=
  Regex.matchClassRepeat Generated.Grants.codeChallengeRanges Generated.Grants.codeChallengeMin
    Generated.Grants.codeChallengeMax Generated.Grants.codeChallengeEndIsDollar v.toList

/-- `create_s256_code_challenge(verifier)` -/
def s256 (v : String) : String :=
  String.ofList ((Base64.urlEncode (Sha.sha256 (strBytes v))).map fun b => Char.ofNat b.toNat)

/-- the PKCE comparison of `validate_code_verifier`, `none` = unknown method (RuntimeError) -/
def pkceMatches (method : Option String) (verifier challenge : String) : Option Bool :=
  match method.getD Generated.Grants.defaultChallengeMethod with
  | "plain" => some (verifier == challenge)
  | "S256" => some (s256 verifier == challenge)
  | _ => none

def scopeSupported (s : Store) (scope : Option Str) : Bool := Scope.validateRequested s.supported scope

/-- token the bearer generator builds for a client (scope filtered through the client's allowance) -/
def mkToken (s : Store) (c : Client) (user : Option Nat) (scope : Option Str) (refresh : Bool) (prov : Prov)
    (expiresIn : Int) : TokRec × Nat :=
  let sc := Scope.getAllowedScope c.scope scope
  let sc' := if Scope.truthy sc then sc else none
  let a := s.fresh + 1
  if refresh then
    ({ access := a, refresh := some (a + 1), client := c.id, user := user, scope := sc', issuedAt := s.now,
       expiresIn := expiresIn, accessRevoked := false, refreshRevoked := false, prov := prov }, a + 1)
  else
    ({ access := a, refresh := none, client := c.id, user := user, scope := sc', issuedAt := s.now,
       expiresIn := expiresIn, accessRevoked := false, refreshRevoked := false, prov := prov }, a)

def tokenOut (t : TokRec) : Out :=
  { status := 200, access := some t.access, refresh := t.refresh, scope := t.scope }

def isExpired (s : Store) (t : TokRec) : Bool := t.expiresIn != 0 && t.issuedAt + t.expiresIn < s.now
def isRevoked (t : TokRec) : Bool := t.accessRevoked || t.refreshRevoked

/-- `query_token(token_string, token_type_hint)`: the sqla_oauth2 function extends the search across
    token types (RFC 7009 §2.1); the strict variant is the example in RevocationEndpoint.query_token's docstring -/
def queryToken (s : Store) (r : Ref) (hint : Option String) : Option TokRec :=
  let byRef : Option TokRec := match r with
    | .at n => s.tokens.find? fun (t : TokRec) => t.access == n
    | .rt n => s.tokens.find? fun (t : TokRec) => t.refresh == some n
    | _ => none
  if s.strictHint then
    match hint, r with
    | some "access_token", .at _ => byRef
    | some "access_token", _ => none
    | some "refresh_token", .rt _ => byRef
    | some "refresh_token", _ => none
    | _, _ => byRef
  else byRef

def authClient (s : Store) (a : Auth) (methods : List String) : Option (Client × String) :=
  match a with
  | none => none
  | some (id, m) => if methods.contains m then (findClient s id).map fun c => (c, m) else none

def allMethods : List String := ["client_secret_basic", "client_secret_post", "none"]
def secretMethods : List String := ["client_secret_basic", "client_secret_post"]

/-- set revocation flags on the token(s) with access number `n` (the integrator mutates the record in place) -/
def revokeTok (ts : List TokRec) (n : Nat) (acc ref : Bool) : List TokRec :=
  ts.map fun t => if t.access == n then { t with accessRevoked := t.accessRevoked || acc, refreshRevoked := t.refreshRevoked || ref } else t

/-- the PKCE part of `validate_token_request` (CodeChallenge.validate_code_verifier); `none` = passes -/
def pkceCheck (s : Store) (m : String) (rec : CodeRec) (verifier : Option String) : Option Out :=
  if s.pkceRequired && m == "none" && !truthyS verifier then some (err 400 "invalid_request")
  else if !truthyS rec.challenge && !truthyS verifier then none
  else if !truthyS verifier then some (err 400 "invalid_request")
  else if !verifierWellFormed (verifier.getD "") then some (err 400 "invalid_request")
  else match pkceMatches rec.method (verifier.getD "") (rec.challenge.getD "") with
    | none => some (err 500 "runtime_error")
    | some true => none
    | some false => some (err 400 "invalid_grant")

/-- `AuthorizationCodeGrant.validate_token_request`: the authenticated client, its method and the code record -/
def redeemCheck (s : Store) (auth : Auth) (code : Option Ref) (redirect : Option String) (verifier : Option String) :
    Except Out (Client × String × CodeRec) :=
  match authClient s auth allMethods with
  | none => .error (err 401 "invalid_client")
  | some (c, m) =>
    match code with
    | none => .error (err 400 "invalid_request")
    | some ref =>
      let found : Option CodeRec := match ref with
        | .code n => s.codes.find? fun (r : CodeRec) => r.n == n && r.client == c.id && !(r.authTime + 300 < s.now)
        | _ => none
      match found with
      | none => .error (err 400 "invalid_grant")
      | some rec =>
        if truthyS rec.redirect && redirect != rec.redirect then .error (err 400 "invalid_grant")
        else match pkceCheck s m rec verifier with
          | some e => .error e
          | none => .ok (c, m, rec)

/-- one request against the provider -/
def step (s : Store) : Op → Store × Out
  | .authorize cid redirect scope challenge method user approve =>
    match findClient s cid with
    | none => (s, err 400 "invalid_client")
    | some c =>
      let ru : Option String :=
        if truthyS redirect then (if c.uris.contains (redirect.getD "") then redirect else none) else c.uris.head?
      match ru with
      | none => (s, err 400 "invalid_request")
      | some _ =>
        if !scopeSupported s scope then (s, err 302 "invalid_scope")
        else if (truthyS challenge || truthyS method) &&
            !(truthyS challenge && challengeWellFormed (challenge.getD "") &&
              (!truthyS method || Generated.Grants.supportedChallengeMethods.contains (method.getD ""))) then
          (s, err 302 "invalid_request")
        else if !approve then (s, err 302 "access_denied")
        else
          let n := s.fresh + 1
          let rec' : CodeRec := ⟨n, cid, redirect, scope, user, challenge, method, s.now⟩
          ({ s with fresh := n, codes := s.codes ++ [rec'] }, { status := 302, code := some n })
  | .redeem auth code redirect verifier =>
    match redeemCheck s auth code redirect verifier with
    | .error e => (s, e)
    | .ok (c, _, rec) =>
      let tf := mkToken s c (some rec.user) rec.scope true (.code rec.n) 864000
      ({ s with fresh := tf.2, tokens := s.tokens ++ [tf.1], codes := s.codes.filter fun r => r.n != rec.n }, tokenOut tf.1)
  | .deviceAuthorize auth cidParam scope =>
    match authClient s auth allMethods with
    | none => (s, err 401 "invalid_client")
    | some _ =>
      if !scopeSupported s scope then (s, err 400 "invalid_scope")
      else
        let dc := s.fresh + 1
        let uc := s.fresh + 2
        let d : DevRec := ⟨dc, uc, cidParam.getD "", scope, s.now + 1800⟩
        ({ s with fresh := uc, devices := s.devices ++ [d] }, { status := 200, deviceCode := some dc, userCode := some uc })
  | .userDecide uc user approve =>
    ({ s with grants := (uc, user, approve) :: s.grants }, { status := 200 })
  | .poll auth dc =>
    match dc with
    | none => (s, err 400 "invalid_request")
    | some ref =>
      match authClient s auth allMethods with
      | none => (s, err 401 "invalid_client")
      | some (c, _) =>
        let dev : Option DevRec := match ref with | .dc n => s.devices.find? fun (d : DevRec) => d.dc == n | _ => none
        match dev with
        | none => (s, err 400 "invalid_request")
        | some d =>
          if d.client != c.id then (s, err 400 "unauthorized_client")
          else if d.expiresAt < s.now then (s, err 400 "expired_token")
          else match s.grants.find? fun (g : Nat × Nat × Bool) => g.1 == d.uc with
            | some (_, u, true) =>
              let tf := mkToken s c (some u) d.scope true (.device d.dc) 3600
              ({ s with fresh := tf.2, tokens := s.tokens ++ [tf.1] }, tokenOut tf.1)
            | some (_, _, false) => (s, err 400 "access_denied")
            | none =>
              let last := s.lastPoll.find? fun (p : Nat × Int) => p.1 == d.dc
              let s' := { s with lastPoll := (d.dc, s.now) :: s.lastPoll.filter fun (p : Nat × Int) => p.1 != d.dc }
              match last with
              | some (_, t0) => if s.now - t0 < 5 then (s', err 400 "slow_down") else (s', err 400 "authorization_pending")
              | none => (s', err 400 "authorization_pending")
  | .issuePassword auth user scope =>
    match authClient s auth allMethods with
    | none => (s, err 401 "invalid_client")
    | some (c, _) =>
      match user with
      | none => (s, err 400 "invalid_request")
      | some u =>
        if !scopeSupported s scope then (s, err 400 "invalid_scope")
        else
          let tf := mkToken s c (some u) scope true .password 864000
          ({ s with fresh := tf.2, tokens := s.tokens ++ [tf.1] }, tokenOut tf.1)
  | .issueClientCredentials auth scope =>
    match authClient s auth secretMethods with
    | none => (s, err 401 "invalid_client")
    | some (c, _) =>
      if !scopeSupported s scope then (s, err 400 "invalid_scope")
      else
        let tf := mkToken s c none scope false .clientCredentials 864000
        ({ s with fresh := tf.2, tokens := s.tokens ++ [tf.1] }, tokenOut tf.1)
  | .refresh auth token scope =>
    match authClient s auth allMethods with
    | none => (s, err 401 "invalid_client")
    | some (c, _) =>
      match token with
      | none => (s, err 400 "invalid_request")
      | some ref =>
        let found : Option TokRec := match ref with
          | .rt n => s.tokens.find? fun (t : TokRec) => t.refresh == some n && !t.refreshRevoked
          | _ => none
        match found with
        | none => (s, err 400 "invalid_grant")
        | some old =>
          if old.client != c.id then (s, err 400 "invalid_grant")
          else if !Scope.validateTokenScope scope old.scope then (s, err 400 "invalid_scope")
          else match old.user with
            | none => (s, err 400 "invalid_request")
            | some u =>
              let tf := mkToken s c (some u) (if Scope.truthy scope then scope else old.scope) true (.refresh old.access) 3600
              ({ s with fresh := tf.2, tokens := revokeTok s.tokens old.access true true ++ [tf.1] }, tokenOut tf.1)
  | .revoke auth token hint =>
    match authClient s auth secretMethods with
    | none => (s, err 401 "invalid_client")
    | some (c, _) =>
      match token with
      | none => (s, err 400 "invalid_request")
      | some ref =>
        if truthyS hint && !(["access_token", "refresh_token"].contains (hint.getD "")) then (s, err 401 "unsupported_token_type")
        else match queryToken s ref hint with
          | none => (s, { status := 200 })
          | some t =>
            if t.client != c.id then (s, err 400 "invalid_grant")
            else
              ({ s with tokens := revokeTok s.tokens t.access true (hint != some "access_token") }, { status := 200 })
  | .introspect auth token hint =>
    match authClient s auth secretMethods with
    | none => (s, err 401 "invalid_client")
    | some (c, _) =>
      match token with
      | none => (s, err 400 "invalid_request")
      | some ref =>
        if truthyS hint && !(["access_token", "refresh_token"].contains (hint.getD "")) then (s, err 401 "unsupported_token_type")
        else match queryToken s ref hint with
          | none => (s, { status := 200, active := some false })
          | some t =>
            if t.client != c.id then (s, { status := 200, active := some false })
            else if isExpired s t || isRevoked t then (s, { status := 200, active := some false })
            else (s, { status := 200, active := some true, scope := t.scope })
  | .access token required =>
    match token with
    | none => (s, err 401 "missing_authorization")
    | some ref =>
      let found : Option TokRec := match ref with | .at n => s.tokens.find? fun (t : TokRec) => t.access == n | _ => none
      match found with
      | none => (s, err 401 "invalid_token")
      | some t =>
        if isExpired s t then (s, err 401 "invalid_token")
        else if isRevoked t then (s, err 401 "invalid_token")
        else
          let insufficient : Bool :=
            match required with
            | none => false
            | some [] => false
            | some alts =>
              match t.scope with
              | none => true
              | some ts => (splitWs ts).isEmpty || !(alts.any fun alt => (splitWs alt).all fun w => (splitWs ts).contains w)
          if insufficient then (s, err 403 "insufficient_scope") else (s, { status := 200, access := some t.access })
  | .advance dt => ({ s with now := s.now + dt }, { status := 200 })

def run (s : Store) (ops : List Op) : Store := ops.foldl (fun st op => (step st op).1) s

end Model.Provider
