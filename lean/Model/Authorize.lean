import Model.Text
import Model.Regex
import Generated.Grants
/-
  C05 — the authorization endpoint (rfc6749/authorization_server.py: get_consent_grant /
  create_authorization_response; grants/authorization_code.py, grants/implicit.py;
  oidc/core/grants/{implicit,hybrid,code,util}.py; rfc7636/challenge.py; oauth2/base.py:
  OAuth2Error.__call__). The reference client is sqla_oauth2.OAuth2ClientMixin.
-/
namespace Model.Authorize
open Model.Text

structure Client where
  id : String
  uris : List String
  responseTypes : List String
  authMethod : String
  deriving Repr, DecidableEq

inductive GrantKind | code | implicit | oidcImplicit | hybrid
  deriving Repr, DecidableEq

structure Config where
  grants : List GrantKind                 -- in registration order
  clients : List Client
  scopesSupported : Option (List String)
  oidcCodeExt : Bool                      -- OpenIDCode registered on the code grant
  requireNonce : Bool                     -- OpenIDCode(require_nonce=…)
  usedNonces : List (String × String)     -- what `exists_nonce` would find: (client_id, nonce)
  deriving Repr

structure Req where
  responseType : Option String
  clientId : Option String
  clientSecretPresent : Bool := false     -- `request.data.get("client_secret")` truthy
  redirectUri : Option String
  scope : Option String
  state : Option String
  nonce : Option String := none
  prompt : Option String := none
  responseMode : Option String := none
  codeChallenge : Option String := none
  codeChallengeMethod : Option String := none
  multiple : List String := []            -- parameter names that occur more than once (query + form)
  deriving Repr

inductive Mode | query | fragment | formPost
  deriving Repr, DecidableEq

inductive Resp
  | redirect (target : String) (mode : Mode) (params : List (String × String))
  | localError (status : Nat) (error : String)
  | consentPage                                         -- GET consent step succeeded
  deriving Repr, DecidableEq

def truthy (o : Option String) : Bool := match o with | some s => !s.isEmpty | none => false

/-- `OAuth2Request.response_type`: multiple values are sorted -/
def insertSorted (x : Str) : List Str → List Str
  | [] => [x]
  | y :: ys => if x ≤ y then x :: y :: ys else y :: insertSorted x ys
def sortStrs : List Str → List Str
  | [] => []
  | x :: xs => insertSorted x (sortStrs xs)

def normRt (rt : Option String) : Option String :=
  match rt with
  | none => none
  | some s =>
    if s.isEmpty then some s
    else if s.toList.contains ' ' then some (String.ofList (joinSp (sortStrs (splitWs s.toList))))
    else some s

def responseTypesOf : GrantKind → List String
  | .code => Generated.Grants.codeResponseTypes
  | .implicit => Generated.Grants.implicitResponseTypes
  | .oidcImplicit => Generated.Grants.oidcImplicitResponseTypes
  | .hybrid => Generated.Grants.hybridResponseTypes

/-- `get_authorization_grant` -/
def findGrant (cfg : Config) (rt : Option String) : Option GrantKind :=
  match rt with
  | none => none
  | some r => cfg.grants.find? fun g => (responseTypesOf g).contains r

def findClient (cfg : Config) (id : String) : Option Client := cfg.clients.find? fun c => c.id == id

/-- how the grant identifies the client; `none` = a local invalid_client error -/
def identifyClient (cfg : Config) (g : GrantKind) (r : Req) : Option Client :=
  match g with
  | .code | .hybrid =>                       -- validate_code_authorization_request: query_client(client_id)
    match r.clientId with
    | none => none
    | some id => findClient cfg id
  | .implicit | .oidcImplicit =>             -- authenticate_token_endpoint_client with method "none"
    match r.clientId with
    | none => none
    | some id =>
      if id.isEmpty || r.clientSecretPresent then none
      else match findClient cfg id with
        | none => none
        | some c => if c.authMethod == "none" then some c else none

/-- `validate_authorization_redirect_uri`: the only place a redirect target comes from -/
def validateRedirect (r : Req) (c : Client) : Option String :=
  if truthy r.redirectUri then
    match r.redirectUri with
    | some u => if c.uris.contains u then some u else none
    | none => none
  else c.uris.head?

/-- `OAuth2Error.get_body()` as far as the property looks: error code and state -/
def errorParams (error : String) (state : Option String) : List (String × String) :=
  [("error", error)] ++ (match state with | some s => if s.isEmpty then [] else [("state", s)] | none => [])

def scopeOk (cfg : Config) (scope : Option String) : Bool :=
  match scope, cfg.scopesSupported with
  | some s, some sup =>
    if !s.isEmpty && !sup.isEmpty then (splitWs s.toList).all (fun w => sup.contains (String.ofList w)) else true
  | _, _ => true

def isOpenid (scope : Option String) : Bool :=
  match scope with
  | some s => (splitWs s.toList).contains "openid".toList
  | none => false

/-- `CodeChallenge.validate_code_challenge`: `true` = passes -/
def challengeOk (r : Req) : Bool :=
  if !truthy r.codeChallenge && !truthy r.codeChallengeMethod then true
  else if !truthy r.codeChallenge then false
  else if r.multiple.contains "code_challenge" then false
  else if !(Regex.matchClassRepeat Generated.Grants.codeChallengeRanges Generated.Grants.codeChallengeMin
      Generated.Grants.codeChallengeMax Generated.Grants.codeChallengeEndIsDollar ((r.codeChallenge.getD "").toList)) then false
  else if truthy r.codeChallengeMethod && !(Generated.Grants.supportedChallengeMethods.contains (r.codeChallengeMethod.getD "")) then false
  else if r.multiple.contains "code_challenge_method" then false
  else true

/-- `validate_nonce(request, exists_nonce, required)`: `true` = passes -/
def nonceOk (cfg : Config) (r : Req) (required : Bool) : Bool :=
  if !truthy r.nonce then !required
  else !(cfg.usedNonces.contains ((r.clientId.getD ""), (r.nonce.getD "")))

def errFragment : GrantKind → Bool
  | .code => false
  | _ => true

def errMode (g : GrantKind) : Mode := if errFragment g then .fragment else .query

/-- everything `validate_authorization_request` does once the redirect target `ru` is known.
    `none` = validation passed -/
def validateAfterRedirect (cfg : Config) (g : GrantKind) (r : Req) (c : Client) (ru : String) : Option Resp :=
  let rt := (normRt r.responseType).getD ""
  match g with
  | .code =>
    if !c.responseTypes.contains rt then some (.redirect ru .query (errorParams "unauthorized_client" r.state))
    else if !scopeOk cfg r.scope then some (.redirect ru .query (errorParams "invalid_scope" r.state))
    else if !challengeOk r then some (.redirect ru .query (errorParams "invalid_request" r.state))
    else if cfg.oidcCodeExt && isOpenid r.scope && !nonceOk cfg r cfg.requireNonce then
      some (.redirect ru .query (errorParams "invalid_request" r.state))
    else none
  | .implicit =>
    if !c.responseTypes.contains rt then some (.redirect ru .fragment (errorParams "unauthorized_client" r.state))
    else if !scopeOk cfg r.scope then some (.redirect ru .fragment (errorParams "invalid_scope" r.state))
    else none
  | .oidcImplicit =>
    if !c.responseTypes.contains rt then some (.redirect ru .fragment (errorParams "unauthorized_client" r.state))
    else if !scopeOk cfg r.scope then some (.redirect ru .fragment (errorParams "invalid_scope" r.state))
    else if !isOpenid r.scope then some (.redirect ru .fragment (errorParams "invalid_scope" r.state))
    else if !nonceOk cfg r true then some (.redirect ru .fragment (errorParams "invalid_request" r.state))
    else none
  | .hybrid =>
    -- validate_code_authorization_request (errors in the query: redirect_fragment is not set there), then openid
    if !c.responseTypes.contains rt then some (.redirect ru .query (errorParams "unauthorized_client" r.state))
    else if !scopeOk cfg r.scope then some (.redirect ru .query (errorParams "invalid_scope" r.state))
    else if !nonceOk cfg r true then some (.redirect ru .query (errorParams "invalid_request" r.state))
    else if !isOpenid r.scope then some (.redirect ru .fragment (errorParams "invalid_scope" r.state))
    else none

/-- the common front part: grant, client, redirect target -/
def front (cfg : Config) (r : Req) : Except Resp (GrantKind × Client × String) :=
  match findGrant cfg (normRt r.responseType) with
  | none => .error (.localError 400 "unsupported_response_type")
  | some g =>
    match identifyClient cfg g r with
    | none => .error (.localError 400 "invalid_client")
    | some c =>
      match validateRedirect r c with
      | none => .error (.localError 400 "invalid_request")
      | some ru =>
        match validateAfterRedirect cfg g r c ru with
        | some resp => .error resp
        | none => .ok (g, c, ru)

/-- `create_response_mode_response` -/
def deliver (ru : String) (params : List (String × String)) (mode : Option String) (dflt : String) : Resp :=
  match mode.getD dflt with
  | "form_post" => .redirect ru .formPost params
  | "query" => .redirect ru .query params
  | "fragment" => .redirect ru .fragment params
  | _ => .localError 400 "invalid_request"

def stateParam (state : Option String) : List (String × String) :=
  match state with | some s => if s.isEmpty then [] else [("state", s)] | none => []

/-- credentials each grant hands out on approval (values are provenance labels) -/
def grantedParams (g : GrantKind) (rt : String) : List (String × String) :=
  match g with
  | .code => [("code", "<code>")]
  | .implicit => [("token_type", "Bearer"), ("access_token", "<token>")]
  | .oidcImplicit =>
    if rt == "id_token" then [("id_token", "<id_token>")]
    else [("token_type", "Bearer"), ("access_token", "<token>"), ("id_token", "<id_token>")]
  | .hybrid =>
    [("code", "<code>")] ++
    (if (splitWs rt.toList).contains "token".toList then
        [("token_type", "Bearer"), ("access_token", "<token>")] ++
        (if (splitWs rt.toList).contains "id_token".toList then [("id_token", "<id_token>")] else [])
     else [("id_token", "<id_token>")])

/-- RFC 9207 `IssuerParameter` registered on the grant (hook `after_authorization_response`): every answer of the decision
    step that carries a Location gets `iss` appended to the URL's query; the auto-submitting form_post page has no Location -/
def withIssuer (issuer : Option String) : Resp → Resp
  | .redirect t m ps => if truthy issuer && m != .formPost then .redirect t m (ps ++ [("iss", issuer.getD "")]) else .redirect t m ps
  | r => r

/-- `AuthorizationServer.create_authorization_response(request, grant_user)` -/
def respond (cfg : Config) (r : Req) (approve : Bool) : Resp :=
  match front cfg r with
  | .error resp => resp
  | .ok (g, _, ru) =>
    let rt := (normRt r.responseType).getD ""
    match g with
    | .code =>
      if approve then .redirect ru .query (grantedParams g rt ++ stateParam r.state)
      else .redirect ru .query (errorParams "access_denied" r.state)
    | .implicit =>
      if approve then .redirect ru .fragment (grantedParams g rt ++ stateParam r.state)
      else .redirect ru .fragment (errorParams "access_denied" r.state)
    | .oidcImplicit | .hybrid =>
      let params := if approve then grantedParams g rt ++ stateParam r.state else errorParams "access_denied" r.state
      deliver ru params r.responseMode "fragment"

/-- the decision step of a server whose grants carry the RFC 9207 extension -/
def respondIss (cfg : Config) (issuer : Option String) (r : Req) (approve : Bool) : Resp :=
  withIssuer issuer (respond cfg r approve)

/-- `validate_request_prompt` outcome for the GET consent step: `none` = no error -/
def promptCheck (r : Req) (userPresent : Bool) (ru : String) (mode : Mode) : Option Resp :=
  match r.prompt with
  | none => none
  | some p =>
    if p.isEmpty then none
    else if p == "none" && !userPresent then some (.redirect ru mode (errorParams "login_required" r.state))
    else
      let ps := splitWs p.toList
      if ps.contains "none".toList && ps.length > 1 then some (.redirect ru mode (errorParams "invalid_request" r.state))
      else none

/-- `AuthorizationServer.get_consent_grant(request, end_user)` followed by the framework's error handler -/
def consent (cfg : Config) (r : Req) (userPresent : Bool) : Resp :=
  match findGrant cfg (normRt r.responseType) with
  | none => .localError 400 "unsupported_response_type"
  | some g0 =>
    if ["response_type", "client_id", "redirect_uri", "scope", "state"].any (fun p => r.multiple.contains p) then
      .localError 400 "invalid_request"
    else
      match front cfg r with
      | .error resp => resp
      | .ok (g, _, ru) =>
        let _ := g0
        let check : Option Resp :=
          match g with
          | .code => if cfg.oidcCodeExt && isOpenid r.scope then promptCheck r userPresent ru .query else none
          | .implicit => none
          | .oidcImplicit | .hybrid => promptCheck r userPresent ru .fragment
        match check with
        | some resp => resp
        | none => .consentPage

end Model.Authorize
