import Model.Claims
import Model.Base64
import Model.Sha
/-
  C13 — OpenID Connect ID Token: what the provider puts in (oidc/core/grants/util.py:
  generate_id_token, oidc/core/util.py: create_half_hash) and what the relying party checks
  (oidc/core/claims.py: IDToken / CodeIDToken / ImplicitIDToken / HybridIDToken).
-/
namespace Model.IdToken
open Model Model.Claims

/-- `create_half_hash(s, alg)` for a hash `H`: left half of the digest, base64url -/
def halfHashWith (H : Bytes → Bytes) (s : Bytes) : Bytes :=
  let d := H s
  Base64.urlEncode (d.take (d.length / 2))

/-- `hashlib.sha{alg[2:]}`: `none` when no such hash (e.g. `ES256K`, `EdDSA`) -/
def hashFor (alg : String) : Option (Bytes → Bytes) :=
  match (alg.drop 2).toString with
  | "256" => some Sha.sha256
  | "384" => some Sha.sha384
  | "512" => some Sha.sha512
  | "1" => some Sha.sha1
  | _ => none

def createHalfHash (alg : String) (s : Bytes) : Option Bytes :=
  (hashFor alg).map fun H => halfHashWith H s

/-- `_verify_hash(signature, s, alg)` -/
def verifyHash (hh : String → Bytes → Option Bytes) (alg : String) (claim : Bytes) (s : Bytes) : Bool :=
  match hh alg s with
  | none => true
  | some h => h == claim

inductive Cls | code | implicit | hybrid
  deriving DecidableEq, Repr

structure Params where
  nonce : Option String := none
  clientId : Option String := none
  accessToken : Option String := none
  code : Option String := none
  maxAge : Bool := false
  deriving Repr

def essentialClaims : Cls → List String
  | .code => ["iss", "sub", "aud", "exp", "iat"]
  | _ => ["iss", "sub", "aud", "exp", "iat", "nonce"]

def firstMissing (c : Claims) : List String → Option Err
  | [] => none
  | k :: ks => if (c.lookup k).isSome then firstMissing c ks else some (.missing k)

def strOf : Val → Option String
  | .atom (.str s) => some s
  | _ => none

def truthyStr (o : Option String) : Option String :=
  match o with | some s => if s.isEmpty then none else some s | none => none

def isNumber : Val → Bool
  | .atom (.int _) => true | .atom (.flt _) => true | .atom (.bool _) => true | _ => false

def checkAuthTime (c : Claims) (p : Params) : Option Err :=
  let atv := getD c "auth_time"
  if p.maxAge && !atv.truthy then some (.missing "auth_time")
  else if atv.truthy && !isNumber atv then some (.invalid "auth_time") else none

def checkNonce (c : Claims) (p : Params) : Option Err :=
  match truthyStr p.nonce with
  | none => none
  | some n =>
    match c.lookup "nonce" with
    | none => some (.missing "nonce")
    | some v => if (Val.atom (.str n)).pyEq v then none else some (.invalid "nonce")

def checkAmr (c : Claims) : Option Err :=
  match getD c "amr" with
  | .list _ => none
  | v => if v.truthy then some (.invalid "amr") else none

def checkAzp (c : Claims) (p : Params) : Option Err :=
  let aud := getD c "aud"
  let cid := truthyStr p.clientId
  let required : Bool :=
    match cid with
    | none => false
    | some id =>
      if !aud.truthy then false
      else
        let aud1 := match aud with | .list [a] => Val.atom a | v => v
        !(aud1.pyEq (.atom (.str id)))
  let azp := getD c "azp"
  if required && !azp.truthy then some (.missing "azp")
  else match cid with
    | some id => if azp.truthy && !(azp.pyEq (.atom (.str id))) then some (.invalid "azp") else none
    | none => none

def checkAtHash (hh : String → Bytes → Option Bytes) (cls : Cls) (c : Claims) (p : Params) (alg : String) : Option Err :=
  let tokn := truthyStr p.accessToken
  if (cls != .code) && tokn.isSome && (c.lookup "at_hash").isNone then some (.missing "at_hash")
  else
    let ah := getD c "at_hash"
    match tokn with
    | some tok =>
      if ah.truthy then
        match strOf ah with
        | some h => if verifyHash hh alg (strBytes h) (strBytes tok) then none else some (.invalid "at_hash")
        | none => some (.invalid "at_hash")
      else none
    | none => none

def checkCHash (hh : String → Bytes → Option Bytes) (c : Claims) (p : Params) (alg : String) : Option Err :=
  match truthyStr p.code with
  | none => none
  | some code =>
    let ch := getD c "c_hash"
    if !ch.truthy then some (.missing "c_hash")
    else match strOf ch with
      | some h => if verifyHash hh alg (strBytes h) (strBytes code) then none else some (.invalid "c_hash")
      | none => some (.invalid "c_hash")

/-- `IDToken.validate(now, leeway)` of the three claims classes -/
def validate (hh : String → Bytes → Option Bytes) (cls : Cls) (c : Claims) (o : Options) (p : Params)
    (alg : String) (now lw : Int) : Option Err :=
  orElse' (firstMissing c (essentialClaims cls)) fun _ =>
  orElse' (essentialLoop c o (o.map (·.1))) fun _ =>
  orElse' (claimValue c o "iss") fun _ =>
  orElse' (claimValue c o "sub") fun _ =>
  orElse' (checkAud c o) fun _ =>
  orElse' (checkExp c now lw) fun _ =>
  orElse' (checkNbf c now lw) fun _ =>
  orElse' (checkIat c now lw) fun _ =>
  orElse' (checkAuthTime c p) fun _ =>
  orElse' (checkNonce c p) fun _ =>
  orElse' (claimValue c o "acr") fun _ =>
  orElse' (checkAmr c) fun _ =>
  orElse' (checkAzp c p) fun _ =>
  orElse' (checkAtHash hh cls c p alg) fun _ =>
  if cls == .hybrid then checkCHash hh c p alg else none

/-- the claims `generate_id_token` writes (times in seconds; `user_info` = {sub}) -/
def generate (hh : String → Bytes → Option Bytes) (alg iss aud sub : String) (now exp : Int)
    (nonce code accessToken : Option String) : Claims :=
  [("iss", .atom (.str iss)), ("aud", .list [.str aud]), ("iat", .atom (.int now)), ("exp", .atom (.int (now + exp))),
   ("auth_time", .atom (.int now))] ++
  (match truthyStr nonce with | some n => [("nonce", Val.atom (.str n))] | none => []) ++
  (match truthyStr code with
    | some cd => (match hh alg (strBytes cd) with
        | some h => [("c_hash", Val.atom (.str (String.ofList (h.map fun b => Char.ofNat b.toNat))))]
        | none => [("c_hash", Val.atom .none)])
    | none => []) ++
  (match truthyStr accessToken with
    | some t => (match hh alg (strBytes t) with
        | some h => [("at_hash", Val.atom (.str (String.ofList (h.map fun b => Char.ofNat b.toNat))))]
        | none => [("at_hash", Val.atom .none)])
    | none => []) ++
  [("sub", .atom (.str sub))]

end Model.IdToken
