import Model.Scope
/-
  C08 over histories — one provider, any sequence of token requests: tokens issued by a direct grant
  and refresh requests against any token issued so far, while the server's supported scopes, the
  client's allowed scope and the token generator may change between requests.
  Mirrors: the token endpoint with the password grant and RefreshTokenGrant (authenticate_refresh_token
  finds a live token, _validate_token_scope, issue_token, save_token stores the response's scope,
  revoke_old_credential revokes the token that was refreshed) on the reference integrator.
-/
namespace Model.ScopeHistory
open Model.Text Model.Scope

structure Tok where
  scope : Option Str        -- what save_token stored: the scope member of the token response
  root : Option Str         -- scope of the first token of this token's chain (the one a direct grant issued)
  parent : Option Str       -- scope of the token it was refreshed from (a root token: its own scope)
  live : Bool               -- refresh token not revoked
  deriving DecidableEq, Repr

structure Cfg where
  gen : Gen
  supported : Option (List Str)
  allowed : Str

inductive Op
  | issue (cfg : Cfg) (requested : Option Str)
  | refresh (cfg : Cfg) (idx : Nat) (requested : Option Str)

inductive Out
  | invalidScope
  | invalidGrant
  | issued (i : Issued)
  deriving DecidableEq, Repr

def revokeAt : List Tok → Nat → List Tok
  | [], _ => []
  | t :: ts, 0 => { t with live := false } :: ts
  | t :: ts, n + 1 => t :: revokeAt ts n

def step (ts : List Tok) : Op → List Tok × Out
  | .issue cfg requested =>
    match tokenRequest .direct cfg.gen cfg.supported cfg.allowed requested none with
    | .invalidScope => (ts, .invalidScope)
    | .issued i => (ts ++ [{ scope := i.response, root := i.response, parent := i.response, live := true }], .issued i)
  | .refresh cfg idx requested =>
    match ts[idx]? with
    | none => (ts, .invalidGrant)
    | some t =>
      if !t.live then (ts, .invalidGrant)
      else match tokenRequest .refresh cfg.gen cfg.supported cfg.allowed requested t.scope with
        | .invalidScope => (ts, .invalidScope)
        | .issued i => (revokeAt ts idx ++ [{ scope := i.response, root := t.root, parent := t.scope, live := true }], .issued i)

def run (ts : List Tok) : List Op → List Tok × List Out
  | [] => (ts, [])
  | op :: ops =>
    let (ts', o) := step ts op
    let (ts'', os) := run ts' ops
    (ts'', o :: os)

end Model.ScopeHistory
