import Model.Text
/-
  `re.match` for the one pattern shape the PKCE checks use: `^[class]{min,max}` followed by `$`
  or `\Z`. Python's `$` (without MULTILINE) matches at the very end and also just before a
  trailing newline.
-/
namespace Model.Regex
open Model.Text

def inRanges (rs : List (Nat × Nat)) (c : Char) : Bool := rs.any fun (a, b) => a ≤ c.toNat && c.toNat ≤ b

/-- greedy `{min,max}` then the end anchor; backtracking can only help `$` by giving back nothing
    (a newline is not in the class for the extracted patterns; if it were, the longest match is
    still the right witness because the class run is maximal) -/
def matchClassRepeat (rs : List (Nat × Nat)) (lo hi : Nat) (endIsDollar : Bool) (s : Str) : Bool :=
  let run := s.takeWhile (inRanges rs)
  let n := min run.length hi
  if n < lo then false
  else
    -- try every length k in [lo, n] (backtracking), longest first is irrelevant for a boolean
    (List.range (n - lo + 1)).any fun i =>
      let k := lo + i
      let rest := s.drop k
      rest.isEmpty || (endIsDollar && rest == ['\n'])

end Model.Regex
