/-
  C14 — the per-flow state kept by the Flask / Django / Starlette client integrations
  (base_client/framework_integration.py, starlette_client/integration.py and the three
  `authorize_redirect` / `authorize_access_token` pairs).

  A user session is the framework's session dict; `cache` is the optional shared cache the
  integrator passes to `OAuth(...)`.  Keys are the strings the code builds:
  `f"_state_{name}_{state}"` (a missing state parameter formats as "None").
-/
namespace Model.ClientState

/-- what `save_authorize_data` stores next to the state (the `url` member is not used again) -/
structure Data where
  redirect : Option String
  verifier : Option String
  nonce : Option String
  deriving Repr, DecidableEq

structure Entry where
  key : String
  data : Data
  exp : Int
  deriving Repr, DecidableEq

structure World where
  sessions : Nat → List Entry          -- session id ↦ its `_state_…` entries (dict: at most one per key)
  cache : List (String × Data)         -- shared cache (cache mode only)
  cacheMode : Bool
  starlette : Bool                     -- StarletteIntegration.set_state_data drops the provider's older entries
  oauth1 : Bool := false               -- the OAuth 1 apps raise on an unknown request token BEFORE calling clear_state_data
  now : Int

inductive Op
  | begin (sess : Nat) (name : String) (state : String) (data : Data)
  | callback (sess : Nat) (name : String) (state : Option String)
  | advance (dt : Nat)
  deriving Repr

inductive Out
  | saved
  | mismatch                            -- MismatchingStateError, raised before any request to the provider
  | proceeds (data : Data)              -- the token request is sent with exactly this saved data
  | ticked
  deriving Repr, DecidableEq

def keyOf (name : String) (state : Option String) : String := "_state_" ++ name ++ "_" ++ state.getD "None"

def expiresIn : Int := 3600

def setSession (w : World) (i : Nat) (l : List Entry) : World :=
  { w with sessions := fun j => if j = i then l else w.sessions j }

/-- `_clear_session_state`: drop the `_state_` entries whose expiry has passed -/
def purge (now : Int) (l : List Entry) : List Entry := l.filter fun e => !(e.exp < now)

def step (w : World) : Op → World × Out
  | .begin i name state data =>
    let key := keyOf name (some state)
    if w.cacheMode then
      ({ w with cache := (key, data) :: w.cache.filter fun p => p.1 != key }, .saved)
    else
      let old := w.sessions i
      let kept := if w.starlette then old.filter fun e => !e.key.startsWith ("_state_" ++ name ++ "_")
                  else old.filter fun e => e.key != key
      (setSession w i (kept ++ [⟨key, data, w.now + expiresIn⟩]), .saved)
  | .callback i name state =>
    let key := keyOf name state
    if w.cacheMode then
      match w.cache.find? fun p => p.1 == key with
      | some (_, d) => ({ w with cache := w.cache.filter fun p => p.1 != key }, .proceeds d)
      | none => (w, .mismatch)
    else
      let old := w.sessions i
      let w' := setSession w i (purge w.now (old.filter fun e => e.key != key))
      match old.find? fun e => e.key == key with
      | some e => (w', .proceeds e.data)
      | none => (if w.oauth1 then w else w', .mismatch)
  | .advance dt => ({ w with now := w.now + dt }, .ticked)

/-- the redirect_uri the token request carries (`_format_state_params` + `fetch_access_token`): the one saved for the
    state; only when none was saved, the provider's registered default -/
def sentRedirect (defaults : List (String × String)) (name : String) (d : Data) : Option String :=
  match d.redirect with
  | some r => some r
  | none => defaults.lookup name

/-- a history: the ops so far, newest last, with the worlds they produced -/
def run (w : World) (ops : List Op) : World := ops.foldl (fun st op => (step st op).1) w

def init (cacheMode starlette : Bool) (now : Int) (oauth1 : Bool := false) : World :=
  { sessions := fun _ => [], cache := [], cacheMode := cacheMode, starlette := starlette, oauth1 := oauth1, now := now }

end Model.ClientState
