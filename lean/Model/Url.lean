/-
  The subset of CPython's urllib.parse.urlsplit / SplitResult.hostname the library relies on
  (authlib/common/urls.py:is_valid_url, rfc8414 validate_issuer) and
  authlib/common/security.py:is_secure_transport.
  Supported inputs: printable ASCII without '[' ']' (no IPv6 literals, no whitespace / control
  characters, which urlsplit strips or rejects); everything else is reported `unsupported` by the
  callers and skipped by the correspondence check.
-/
namespace Model.Url

structure Split where
  scheme : List Char
  netloc : List Char
  path : List Char
  query : List Char
  fragment : List Char
  deriving Repr, DecidableEq

def supported (s : List Char) : Bool := s.all fun c => 0x21 ≤ c.toNat && c.toNat ≤ 0x7e && c != '[' && c != ']'

def isAsciiAlpha (c : Char) : Bool := ('a' ≤ c && c ≤ 'z') || ('A' ≤ c && c ≤ 'Z')
def schemeChar (c : Char) : Bool := isAsciiAlpha c || ('0' ≤ c && c ≤ '9') || c == '+' || c == '-' || c == '.'
def lowerC (c : Char) : Char := if 'A' ≤ c && c ≤ 'Z' then Char.ofNat (c.toNat + 32) else c
def lower (s : List Char) : List Char := s.map lowerC

/-- split at the first character satisfying `p`: (before, the rest including the separator) -/
def breakAt (p : Char → Bool) : List Char → List Char × List Char
  | [] => ([], [])
  | c :: r => if p c then ([], c :: r) else let (a, b) := breakAt p r; (c :: a, b)

def urlsplit (u : List Char) : Split :=
  let (pre, post) := breakAt (· == ':') u
  let (scheme, rest) :=
    match post with
    | ':' :: after =>
      if !pre.isEmpty && (pre.head?.map isAsciiAlpha).getD false && pre.all schemeChar then (lower pre, after) else ([], u)
    | _ => ([], u)
  let (netloc, rest) :=
    match rest with
    | '/' :: '/' :: r => breakAt (fun c => c == '/' || c == '?' || c == '#') r
    | _ => ([], rest)
  let (rest, fragment) :=
    match breakAt (· == '#') rest with
    | (a, '#' :: f) => (a, f)
    | (a, _) => (a, [])
  let (path, query) :=
    match breakAt (· == '?') rest with
    | (a, '?' :: q) => (a, q)
    | (a, _) => (a, [])
  ⟨scheme, netloc, path, query, fragment⟩

/-- the part after the last '@' (`netloc.rpartition('@')[2]`) -/
def afterLastAt (s : List Char) : List Char := (breakAt (· == '@') s.reverse).1.reverse

def hostname (sp : Split) : Option (List Char) :=
  let hostinfo := afterLastAt sp.netloc
  let h := lower (breakAt (· == ':') hostinfo).1
  if h.isEmpty then none else some h

/-- `is_valid_url(url, fragments_allowed)` (truthiness of the expression) -/
def isValidUrl (u : List Char) (fragmentsAllowed : Bool) : Bool :=
  let sp := urlsplit u
  !sp.scheme.isEmpty && (hostname sp).isSome && (fragmentsAllowed || sp.fragment.isEmpty)

def startsWith (p s : List Char) : Bool := p.isPrefixOf s

/-- `is_secure_transport` with AUTHLIB_INSECURE_TRANSPORT unset -/
def isSecureTransport (u : List Char) : Bool :=
  startsWith "https://".toList (lower u) || startsWith "http://localhost:".toList (lower u)

def isHttps (u : List Char) : Bool := startsWith "https://".toList (lower u)

end Model.Url
