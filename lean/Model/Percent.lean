import Model.Bytes
/-
  Percent-encoding as authlib uses it (authlib/common/urls.py → urllib.parse):
  quote / quote_plus / urlencode / unquote / parse_qsl(keep_blank_values=True).
  Text is handled as UTF-8 octets (`to_bytes`), as the library does before quoting.
-/
namespace Model.Percent
open Model

/-- `urllib.parse._ALWAYS_SAFE`: letters, digits, `_.-~` -/
def alwaysSafe (c : UInt8) : Bool :=
  (65 ≤ c && c ≤ 90) || (97 ≤ c && c ≤ 122) || (48 ≤ c && c ≤ 57) ||
  c = 95 || c = 46 || c = 45 || c = 126

def hexUp (n : Nat) : UInt8 := if n < 10 then UInt8.ofNat (48 + n) else UInt8.ofNat (55 + n)

def hexValB (c : UInt8) : Option Nat :=
  if 48 ≤ c ∧ c ≤ 57 then some (c.toNat - 48)
  else if 65 ≤ c ∧ c ≤ 70 then some (c.toNat - 55)
  else if 97 ≤ c ∧ c ≤ 102 then some (c.toNat - 87)
  else none

/-- `urllib.parse.quote(bytes, safe)`; `safe` is the extra safe set. -/
def quote (safe : UInt8 → Bool) : Bytes → Bytes
  | [] => []
  | c :: rest =>
    if alwaysSafe c || safe c then c :: quote safe rest
    else 37 :: hexUp (c.toNat / 16) :: hexUp (c.toNat % 16) :: quote safe rest

/-- `urllib.parse.unquote_to_bytes` -/
def unquote : Bytes → Bytes
  | [] => []
  | [a] => [a]
  | [a, b] => [a, b]
  | c :: h :: l :: rest =>
    if c = 37 then
      match hexValB h, hexValB l with
      | some x, some y => UInt8.ofNat (x * 16 + y) :: unquote rest
      | _, _ => c :: unquote (h :: l :: rest)
    else c :: unquote (h :: l :: rest)

def noSafe : UInt8 → Bool := fun _ => false
def safeSlash : UInt8 → Bool := fun c => c = 47
def safeTilde : UInt8 → Bool := fun c => c = 126

/-- `quote_plus(bytes)` with the default safe="" as `urlencode` calls it:
    space becomes `+`, everything else as `quote(safe="")` -/
def quotePlus : Bytes → Bytes
  | [] => []
  | c :: rest =>
    if c = 32 then 43 :: quotePlus rest
    else if alwaysSafe c then c :: quotePlus rest
    else 37 :: hexUp (c.toNat / 16) :: hexUp (c.toNat % 16) :: quotePlus rest

/-- `s.replace('+', ' ')` then `unquote` (what `parse_qsl` does to names and values) -/
def unquotePlus (b : Bytes) : Bytes := unquote (b.map fun c => if c = 43 then 32 else c)

/-- split on a separator byte (`bytes.split(sep)`) -/
def splitOn (sep : UInt8) : Bytes → List Bytes
  | [] => [[]]
  | c :: rest =>
    if c = sep then [] :: splitOn sep rest
    else match splitOn sep rest with
      | [] => [[c]]
      | p :: ps => (c :: p) :: ps

/-- `name_value.split('=', 1)` -/
def split1 (sep : UInt8) : Bytes → Bytes × Option Bytes
  | [] => ([], none)
  | c :: rest =>
    if c = sep then ([], some rest)
    else let (a, b) := split1 sep rest; (c :: a, b)

def join (sep : UInt8) : List Bytes → Bytes
  | [] => []
  | [x] => x
  | x :: y :: rest => x ++ sep :: join sep (y :: rest)

/-- `urllib.parse.urlencode(list of (bytes, bytes))` -/
def urlencode (ps : List (Bytes × Bytes)) : Bytes :=
  join 38 (ps.map fun (k, v) => quotePlus k ++ 61 :: quotePlus v)

/-- `urllib.parse.parse_qsl(qs, keep_blank_values=True)` (octet level) -/
def parseQsl (qs : Bytes) : List (Bytes × Bytes) :=
  (splitOn 38 qs).filterMap fun nv =>
    if nv.isEmpty then none
    else
      let (n, v) := split1 61 nv
      some (unquotePlus n, unquotePlus (v.getD []))

/-- `authlib.common.urls.add_params_to_qs` -/
def addParamsToQs (query : Bytes) (params : List (Bytes × Bytes)) : Bytes :=
  urlencode (parseQsl query ++ params)

end Model.Percent
