import Model.Percent
import Model.Base64
import Model.Sha
/-
  C11 — OAuth 1.0 signature base string and signatures
  (authlib/oauth1/rfc5849/signature.py, util.py). Octet level: text is UTF-8.
-/
namespace Model.OAuth1Sig
open Model Model.Percent

/-- `escape(s) = quote(s, safe=b"~")` -/
def escape (b : Bytes) : Bytes := quote safeTilde b
/-- `unescape(s) = unquote(s)` (octets; the UTF-8 decode is outside the model) -/
def unescape (b : Bytes) : Bytes := unquote b

/-- lexicographic `<` / `≤` on octet strings (Python `str` comparison on ASCII text) -/
def ltB : Bytes → Bytes → Bool
  | [], [] => false
  | [], _ :: _ => true
  | _ :: _, [] => false
  | a :: as, b :: bs => a < b || (a == b && ltB as bs)

/-- Python tuple comparison `(k1, v1) <= (k2, v2)` -/
def lePair (a b : Bytes × Bytes) : Bool :=
  ltB a.1 b.1 || (a.1 == b.1 && (ltB a.2 b.2 || a.2 == b.2))

/-- sorted escaped pairs -/
def sortedEscaped (ps : List (Bytes × Bytes)) : List (Bytes × Bytes) :=
  (ps.map fun (k, v) => (escape k, escape v)).mergeSort lePair

/-- `normalize_parameters` -/
def normalizeParameters (ps : List (Bytes × Bytes)) : Bytes :=
  join 38 ((sortedEscaped ps).map fun (k, v) => k ++ 61 :: v)

def oauthPrefix : Bytes := [111, 97, 117, 116, 104, 95]           -- "oauth_"
def kSignature : Bytes := oauthPrefix ++ [115, 105, 103, 110, 97, 116, 117, 114, 101]  -- "oauth_signature"
def kRealm : Bytes := [114, 101, 97, 108, 109]                    -- "realm"

def startsWith (p : Bytes) (s : Bytes) : Bool := s.take p.length == p

def upperB (c : UInt8) : UInt8 := if 97 ≤ c ∧ c ≤ 122 then c - 32 else c
def lowerB (c : UInt8) : UInt8 := if 65 ≤ c ∧ c ≤ 90 then c + 32 else c

/-- the parameter filter of `construct_base_string` -/
def collect (params : List (Bytes × Bytes)) : List (Bytes × Bytes) :=
  params.filterMap fun p =>
    if p.1 == kSignature || p.1 == kRealm then none
    else some (p.1, if startsWith oauthPrefix p.1 then unescape p.2 else p.2)

/-- `"&".join([escape(method.upper()), escape(base_string_uri), escape(normalized_params)])` -/
def baseStringOf (method uri normParams : Bytes) : Bytes :=
  join 38 [escape (method.map upperB), escape uri, escape normParams]

/-- `construct_base_string(method, uri, params)` with the URI already normalised -/
def constructBaseString (method normUri : Bytes) (params : List (Bytes × Bytes)) : Bytes :=
  baseStringOf method normUri (normalizeParameters (collect params))

/-- URL components as `urllib.parse.urlparse` returns them -/
structure UrlParts where
  scheme : Bytes
  netloc : Bytes
  path : Bytes
  params : Bytes

/-- `normalize_base_string_uri` on parsed components; `none` = ValueError -/
def normalizeUri (u : UrlParts) (hostHeader : Option Bytes) : Option Bytes :=
  if u.scheme.isEmpty || u.netloc.isEmpty then none
  else
    let path := if u.path.isEmpty then [47] else u.path
    let scheme := u.scheme.map lowerB
    let netloc := match hostHeader with
      | some h => h.map lowerB
      | none => u.netloc.map lowerB
    let netloc :=
      match split1 58 netloc with
      | (host, some port) =>
        if (scheme == [104,116,116,112] && port == [56,48]) ||
           (scheme == [104,116,116,112,115] && port == [52,52,51]) then host else netloc
      | _ => netloc
    -- urlunparse((scheme, netloc, path, params, "", ""))
    let url := if u.params.isEmpty then path else path ++ 59 :: u.params
    some (scheme ++ [58, 47, 47] ++ netloc ++ url)

/-- the HMAC / PLAINTEXT key `escape(client_secret) & escape(token_secret)` -/
def sigKey (clientSecret tokenSecret : Bytes) : Bytes :=
  escape clientSecret ++ 38 :: escape tokenSecret

/-- `hmac_sha1_signature` for an arbitrary MAC `H key text` -/
def hmacSignature (H : Bytes → Bytes → Bytes) (baseString cs ts : Bytes) : Bytes :=
  Base64.stdEncode (H (sigKey cs ts) baseString)

def verifyHmac (H : Bytes → Bytes → Bytes) (baseString cs ts sig : Bytes) : Bool :=
  hmacSignature H baseString cs ts == sig

end Model.OAuth1Sig
