import Model.Bytes
import Model.Sha
import Model.Base64
/-
  C03 — JWE (authlib/jose/rfc7516/jwe.py, rfc7518/jwe_encs.py, rfc7518/jwe_algs.py).
  Concrete: the AES_CBC_HMAC_SHA2 composition around an abstract AES-CBC (`CBCHS2EncAlgorithm`),
  the Concat KDF other-info and derivation of ECDH-ES (`compute_fixed_info`, ConcatKDFHash/SHA-256),
  the compact serialization's structure and its AAD.  Abstract (parameters): AES-CBC, AES-GCM, the
  key-management unwrap of the recipient's key, DEFLATE, JSON parsing of the header.
-/
namespace Model.Jwe
open Model

/-! ### AES_CBC_HMAC_SHA2 (RFC 7518 §5.2) -/

structure CbcHs where
  keyLen : Nat                               -- ENC_KEY_LEN = MAC_KEY_LEN = T_LEN (octets)
  mac : Bytes → Bytes → Bytes                -- HMAC with the enc's hash

def cbcHs (enc : String) : Option CbcHs :=
  match enc with
  | "A128CBC-HS256" => some ⟨16, Sha.hmacSha256⟩
  | "A192CBC-HS384" => some ⟨24, Sha.hmacSha384⟩
  | "A256CBC-HS512" => some ⟨32, Sha.hmacSha512⟩
  | _ => none

/-- AL: the number of bits of the AAD as a 64-bit big-endian integer -/
def al64 (aad : Bytes) : Bytes := natBE 8 (aad.length * 8)

/-- `_hmac(ciphertext, aad, iv, key)` -/
def cbcTag (c : CbcHs) (macKey aad iv ct : Bytes) : Bytes :=
  (c.mac macKey (aad ++ iv ++ ct ++ al64 aad)).take c.keyLen

/-- `CBCHS2EncAlgorithm.decrypt`: IV size, then the tag comparison, and only then AES-CBC + PKCS#7
    (`aesCbcDec`, abstract: none = bad padding) -/
def cbcDecrypt (c : CbcHs) (aesCbcDec : Bytes → Bytes → Bytes → Option Bytes) (cek aad iv ct tag : Bytes) : Option Bytes :=
  if iv.length != 16 then none
  else if cbcTag c (cek.take c.keyLen) aad iv ct != tag then none
  else aesCbcDec (cek.drop c.keyLen) iv ct

def cbcEncrypt (c : CbcHs) (aesCbcEnc : Bytes → Bytes → Bytes → Bytes) (cek aad iv pt : Bytes) : Bytes × Bytes :=
  let ct := aesCbcEnc (cek.drop c.keyLen) iv pt
  (ct, cbcTag c (cek.take c.keyLen) aad iv ct)

/-! ### ECDH-ES Concat KDF (RFC 7518 §4.6.2) -/

def u32 (n : Nat) : Bytes := natBE 4 n
/-- `u32be_len_input` -/
def lenPrefixed (b : Bytes) : Bytes := u32 b.length ++ b

/-- `compute_fixed_info`: AlgorithmID ‖ PartyUInfo ‖ PartyVInfo ‖ SuppPubInfo(keydatalen) -/
def fixedInfo (algId apu apv : Bytes) (bits : Nat) : Bytes :=
  lenPrefixed algId ++ lenPrefixed apu ++ lenPrefixed apv ++ u32 bits

/-- ConcatKDFHash with SHA-256: H(counter ‖ Z ‖ OtherInfo) for counter = 1, 2, … -/
def concatKdfRounds (z info : Bytes) : Nat → Nat → Bytes
  | 0, _ => []
  | n + 1, counter => Sha.sha256 (u32 counter ++ z ++ info) ++ concatKdfRounds z info n (counter + 1)

def concatKdf (z info : Bytes) (bits : Nat) : Bytes :=
  (concatKdfRounds z info ((bits + 255) / 256) 1).take (bits / 8)

/-! ### compact serialization -/

/-- the header members the structure depends on (JSON parsing is outside the model) -/
structure Header where
  alg : String
  enc : String
  zip : Option String
  deriving Repr, DecidableEq

structure Prims where
  parseHeader : Bytes → Option Header                     -- extract_header + get_header_alg/enc/zip on the decoded octets
  unwrap : Header → Bytes → Option Bytes                  -- alg.unwrap with the recipient's key: the CEK
  dec : Header → (cek aad iv ct tag : Bytes) → Option Bytes  -- enc.decrypt
  inflate : Bytes → Option Bytes

inductive Err | segments | encoding | header | unwrap | decrypt | zip
  deriving Repr, DecidableEq

def ascii (s : List UInt8) : Bytes := s

/-- `deserialize_compact` on the five received segments (as octets of the ASCII text) -/
def deserializeCompact (P : Prims) (segs : List (List UInt8)) : Except Err (Header × Bytes) :=
  match segs with
  | [ps, eks, ivs, cts, tags] =>
    match Base64.urlDecode ps, Base64.urlDecode eks, Base64.urlDecode ivs, Base64.urlDecode cts, Base64.urlDecode tags with
    | some hb, some ek, some iv, some ct, some tag =>
      match P.parseHeader hb with
      | none => .error .header
      | some h =>
        match P.unwrap h ek with
        | none => .error .unwrap
        | some cek =>
          -- the AAD is the received protected segment itself
          match P.dec h cek (ascii ps) iv ct tag with
          | none => .error .decrypt
          | some msg =>
            match h.zip with
            | none => .ok (h, msg)
            | some _ => match P.inflate msg with
              | some p => .ok (h, p)
              | none => .error .zip
    | _, _, _, _, _ => .error .encoding
  | _ => .error .segments

/-- the sender side, for the round-trip theorem: header octets, CEK, encrypted key, IV and the two
    primitive results are given -/
def serializeCompact (headerOctets ek iv ct tag : Bytes) : List (List UInt8) :=
  [Base64.urlEncode headerOctets, Base64.urlEncode ek, Base64.urlEncode iv, Base64.urlEncode ct, Base64.urlEncode tag]

/-! ### general JSON serialization (`deserialize_json`), after base64 / JSON decoding of the members -/

structure Recipient where
  kid : Option String          -- `kid` of the per-recipient header
  ek : Bytes
  deriving Repr, DecidableEq

structure JsonJwe where
  protectedSeg : List UInt8            -- the received "protected" text ("" when absent)
  aadSeg : Option (List UInt8)         -- the received "aad" text
  recipients : List Recipient

/-- the primitives as the recipient sees them: unwrapping an entry's encrypted key with its key (the
    merged header of that entry is part of the entry), and the content decryption of the received
    iv / ciphertext / tag under a CEK and an AAD -/
structure JPrims where
  unwrap : Recipient → Option Bytes
  dec : (cek aad : Bytes) → Option Bytes

/-- `aad = protected [+ "." + aad]` -/
def jsonAad (j : JsonJwe) : Bytes :=
  match j.aadSeg with
  | none => j.protectedSeg
  | some a => j.protectedSeg ++ [46] ++ a

/-- the fallback loop of `_unwrap_for_matching_recipient`: the first entry that unwraps AND whose
    key authenticates the content -/
def firstAuthentic (P : JPrims) (aad : Bytes) : List Recipient → Option Bytes
  | [] => none
  | r :: rest =>
    match P.unwrap r with
    | some cek => if (P.dec cek aad).isSome then some cek else firstAuthentic P aad rest
    | none => firstAuthentic P aad rest

/-- choice of the CEK: an entry whose kid equals the key's kid is used unconditionally; otherwise the loop -/
def chooseCek (P : JPrims) (j : JsonJwe) (keyKid : Option String) : Option Bytes :=
  let direct : Option Recipient := match keyKid with
    | some k => j.recipients.find? fun r => r.kid == some k
    | none => none
  match direct with
  | some r => P.unwrap r
  | none => firstAuthentic P (jsonAad j) j.recipients

def deserializeJson (P : JPrims) (j : JsonJwe) (keyKid : Option String) : Option Bytes :=
  match chooseCek P j keyKid with
  | some cek => P.dec cek (jsonAad j)
  | none => none

end Model.Jwe
