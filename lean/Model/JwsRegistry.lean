import Generated.Jose
import Model.Jws
/- The JWS algorithm registry as regenerated from the code, turned into the model's `Alg`. -/
namespace Model.Jws
open Generated.Jose

def algOf : String × String × Nat × String × Nat → Option Alg
  | (_, "NoneAlgorithm", _, _, _) => some .none
  | (_, "HMACAlgorithm", bits, _, _) => some (.hs bits)
  | (_, "RSAAlgorithm", bits, _, _) => some (.rs bits)
  | (_, "RSAPSSAlgorithm", bits, _, _) => some (.ps bits)
  | (_, "ECAlgorithm", _, crv, coord) => some (.es crv coord)
  | (_, "EdDSAAlgorithm", _, _, _) => some .eddsa
  | _ => none

/-- `ALGORITHMS_REGISTRY.get(name)` -/
def generatedRegistry (name : String) : Option Alg :=
  (jwsRegistry.find? (fun e => e.1 == name)).bind algOf

end Model.Jws
