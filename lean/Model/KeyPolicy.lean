import Model.JwsRegistry
/-
  C02 — algorithm allow-list, key-family matching, key selection (kid), use / key_ops, crit,
  and the HMAC-secret guard against asymmetric key text.
  Mirrors JsonWebSignature._prepare_algorithm_key / _validate_crit_headers, the prepare_key of each
  algorithm class, Key.check_key_op, KeySet.find_by_kid, jwt.create_load_key, OctKey.import_key.
-/
namespace Model.KeyPolicy
open Model Model.Jws

inductive Kty
  | oct | rsa | ec (crv : String) | okp (crv : String)
  deriving DecidableEq, Repr

/-- what the library knows about one key after import -/
structure KeyDesc where
  kty : Kty
  isPrivate : Bool := false
  use : Option String := none
  keyOps : Option (List String) := none
  kid : Option String := none
  ident : Nat := 0                  -- which key material (for the statements about selection)
  deriving DecidableEq, Repr

inductive Err
  | missingAlg | unsupportedAlg | keyValue   -- ValueError from prepare_key / find_by_kid / check_key_op
  | invalidUse | invalidHeaderName | badSignature | decode
  deriving DecidableEq, Repr

/-- `bytes.startswith(p)` -/
def isPrefix (p s : Bytes) : Bool := s.take p.length == p

/-- `marker in raw` -/
def isInfix (m : Bytes) : Bytes → Bool
  | [] => m.isEmpty
  | c :: rest => isPrefix m (c :: rest) || isInfix m rest

/-- `OctKey.import_key(raw bytes)`: `false` = ValueError("This key may not be safe to import") -/
def octImportOk (unsafePrefixes unsafeMarkers : List Bytes) (raw : Bytes) : Bool :=
  !(unsafePrefixes.any (fun p => isPrefix p raw) || unsafeMarkers.any (fun m => isInfix m raw))

/-- family check of `algorithm.prepare_key` -/
def familyOk : Alg → Kty → Bool
  | .none, _ => true
  | .hs _, .oct => true
  | .rs _, .rsa => true
  | .ps _, .rsa => true
  | .es crv _, .ec c => crv == c
  | .eddsa, .okp c => c == "Ed25519" || c == "Ed448"
  | _, _ => false

def keyOpsAllow (k : KeyDesc) (op : String) : Bool :=
  match k.keyOps with | some ops => ops.contains op | none => true

def privOpOnPublic (privateOps : List String) (op : String) (k : KeyDesc) : Bool :=
  privateOps.contains op && !k.isPrivate && k.kty != .oct

/-- `if use:` … for the signature operations -/
def useOk (k : KeyDesc) : Bool :=
  match k.use with | some u => u.isEmpty || u == "sig" | none => true

/-- `Key.check_key_op("verify")` / ("sign") -/
def checkKeyOp (privateOps : List String) (op : String) (k : KeyDesc) : Except Err Unit :=
  if !keyOpsAllow k op then .error .keyValue
  else if privOpOnPublic privateOps op k then .error .keyValue
  else if useOk k then .ok () else .error .invalidUse

/-- the key argument of `jwt.decode` / `deserialize_compact` -/
inductive KeyArg
  | single (k : KeyDesc)                         -- one imported key (any single form)
  | keySet (ks : List KeyDesc)                   -- `KeySet` object
  | dictSet (ks : List KeyDesc)                  -- `{"keys": [...]}` dict / JSON text / list
  | resolver (answer : Option KeyDesc)           -- a callable `key(header, payload)`; `none` = it has no key for this token
  | absent                                       -- the caller passes no key at all (`None`)
  deriving Repr

/-- `KeySet.find_by_kid` / `create_load_key`, and `_prepare_algorithm_key`: a callable is asked, and ONLY when the caller passed no key
    at all is the token's own `jwk` header used (`embedded`); no key at the end = ValueError -/
def selectKey (arg : KeyArg) (kid : Option String) (embedded : Option KeyDesc := none) : Except Err KeyDesc :=
  match arg with
  | .single k => .ok k
  | .resolver (some k) => .ok k
  | .resolver none => .error .keyValue
  | .absent => (match embedded with | some k => .ok k | none => .error .keyValue)
  | .keySet ks =>
    match kid with
    | none => (match ks with | [k] => .ok k | _ => .error .keyValue)
    | some id => match ks.find? (fun k => k.kid == some id) with
      | some k => .ok k
      | none => .error .keyValue
  | .dictSet ks =>
    match kid with
    | none => (match ks with | [k] => .ok k | _ => .error .keyValue)
    | some id => match ks.find? (fun k => k.kid == some id) with
      | some k => .ok k
      | none => .error .keyValue

/-- the protected-header facts the policy looks at -/
structure Hdr where
  alg : Option String
  kid : Option String := none
  crit : Option (List String) := none      -- `none` = absent; the list as given
  critWellFormed : Bool := true            -- a non-empty JSON array of strings
  members : List String := []              -- names present in the protected header
  jwk : Option KeyDesc := none             -- the key the token carries in its own `jwk` header, if any
  deriving Repr

/-- `_validate_crit_headers` -/
def critOk (privateHeaders : List String) (h : Hdr) : Bool :=
  match h.crit with
  | none => true
  | some names =>
    h.critWellFormed && !names.isEmpty &&
      names.all (fun n => privateHeaders.contains n && h.members.contains n)

/-- the whole verification-side policy: which key (if any) the signature is checked with -/
def policy (registry : String → Option Alg) (privateOps : List String) (allowed : Option (List String))
    (privateHeaders : List String) (h : Hdr) (arg : KeyArg) : Except Err (Alg × KeyDesc) :=
  if !critOk privateHeaders h then .error .invalidHeaderName else
  match h.alg with
  | none => .error .missingAlg
  | some name =>
    if !allowedOk allowed name then .error .unsupportedAlg else
    match registry name with
    | none => .error .unsupportedAlg
    | some a =>
      match selectKey arg h.kid h.jwk with
      | .error e => .error e
      | .ok k =>
        if !familyOk a k.kty then .error .keyValue else
        match a with
        | .none => .error .badSignature          -- prepare_key returns None, verify is False
        | _ => match checkKeyOp privateOps "verify" k with
          | .error e => .error e
          | .ok () => .ok (a, k)

end Model.KeyPolicy
