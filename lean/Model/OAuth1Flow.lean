/-
  C12 — the OAuth 1.0 provider as a state machine (rfc5849/authorization_server.py,
  base_server.py, resource_protector.py) over the reference hooks (flask_oauth1.cache semantics,
  harness/mem1.py). Credentials are numbered by the integrator's deterministic generators:
  temporary credential "tmp{n}" with secret "tsec{n+1}", verifier "ver{n}", token credential
  "tok{n}" with secret "sec{n+1}". Signatures are abstract: a request records which
  (client secret, token secret) pair the signer used; verification compares with the stored pair.
-/
namespace Model.OAuth1Flow

/-- how a request names a credential / secret / verifier: the parsed form of the presented text -/
inductive Ref
  | tmp (n : Nat) | tsec (n : Nat) | ver (n : Nat) | tok (n : Nat) | sec (n : Nat) | empty | other (s : String)
  deriving Repr, DecidableEq

structure TempRec where
  n : Nat                       -- token "tmp{n}", secret "tsec{n+1}"
  client : String
  callback : Option String
  verifier : Option Nat         -- "ver{k}"
  user : Option Nat
  deriving Repr, DecidableEq

structure CredRec where
  n : Nat                       -- token "tok{n}", secret "sec{n+1}"
  client : String
  user : Option Nat
  fromTemp : Nat
  deriving Repr, DecidableEq

abbrev NonceKey := String × String × String × Option Ref     -- nonce, timestamp, client, token

structure Store where
  clients : List (String × String)        -- client id, client secret
  temps : List TempRec
  creds : List CredRec
  nonces : List NonceKey
  now : Int
  fresh : Nat
  methods : List String                   -- SUPPORTED_SIGNATURE_METHODS
  deriving Repr

/-- the OAuth protocol parameters of a request, with the signature abstracted -/
structure Sig where
  method : Option String                  -- oauth_signature_method
  signedWith : Option (String × Ref)      -- (client secret, token secret) the signer used; none = no oauth_signature
  timestamp : Option String
  nonce : Option String
  deriving Repr

inductive Op
  | initiate (client : Option String) (callback : Option String) (callbackValid : Bool) (sg : Sig)
  | authorize (token : Option Ref) (user : Option Nat)
  | exchange (client : Option String) (token : Option Ref) (verifier : Option Ref) (sg : Sig)
  | access (client : Option String) (token : Option Ref) (sg : Sig)
  | advance (dt : Nat)
  deriving Repr

structure Out where
  status : Nat
  error : Option String := none
  token : Option Ref := none
  secret : Option Ref := none
  verifier : Option Ref := none
  deriving Repr, DecidableEq

def err (st : Nat) (e : String) : Out := { status := st, error := some e }

def truthy (o : Option String) : Bool := match o with | some s => !s.isEmpty | none => false

/-- Python `int(s)` for the timestamp strings in play: optional sign, decimal digits -/
def parseInt (s : String) : Option Int :=
  let cs := s.toList
  let (neg, ds) := match cs with
    | '-' :: r => (true, r)
    | '+' :: r => (false, r)
    | r => (false, r)
  if ds.isEmpty || !ds.all Char.isDigit then none
  else
    let n : Nat := ds.foldl (fun acc c => acc * 10 + (c.toNat - 48)) 0
    some (if neg then -(n : Int) else n)

/-- Python truthiness of the presented text -/
def truthyR (o : Option Ref) : Bool := match o with | some .empty => false | some _ => true | none => false

/-- `validate_timestamp_and_nonce`: error, or the nonce list after the set-on-check -/
def checkTsNonce (s : Store) (sg : Sig) (client : String) (token : Option Ref) : Except Out (List NonceKey) :=
  if sg.method == some "PLAINTEXT" && !truthy sg.timestamp && !truthy sg.nonce then .ok s.nonces
  else if !truthy sg.timestamp then .error (err 400 "missing_required_parameter")
  else match parseInt (sg.timestamp.getD "") with
    | none => .error (err 400 "invalid_request")
    | some ts =>
      if ts < 0 then .error (err 400 "invalid_request")
      else if s.now - ts > 300 then .error (err 400 "invalid_request")
      else if !truthy sg.nonce then .error (err 400 "missing_required_parameter")
      else
        let key : NonceKey := (sg.nonce.getD "", sg.timestamp.getD "", client, token)
        if s.nonces.contains key then .error (err 401 "invalid_nonce") else .ok (key :: s.nonces)

/-- `validate_oauth_signature` against the stored secrets -/
def checkSig (s : Store) (sg : Sig) (clientSecret : String) (tokenSecret : Ref) : Option Out :=
  if !truthy sg.method then some (err 400 "missing_required_parameter")
  else if !s.methods.contains (sg.method.getD "") then some (err 400 "unsupported_signature_method")
  else match sg.signedWith with
    | none => some (err 400 "missing_required_parameter")
    | some used => if used == (clientSecret, tokenSecret) then none else some (err 401 "invalid_signature")

/-- the validation of the token request: the temporary credential, the nonce list afterwards; or the error
    together with the nonce list as far as it got (the nonce is recorded before the signature is checked) -/
def exchangeCheck (s : Store) (client : Option String) (token verifier : Option Ref) (sg : Sig) :
    Except (Out × List NonceKey) (TempRec × List NonceKey) :=
  if !truthy client then .error (err 400 "missing_required_parameter", s.nonces)
  else match s.clients.lookup (client.getD "") with
    | none => .error (err 401 "invalid_client", s.nonces)
    | some csecret =>
      if !truthyR token then .error (err 400 "missing_required_parameter", s.nonces)
      else match (match token with | some (.tmp n) => s.temps.find? (fun (t : TempRec) => t.n == n) | _ => none) with
        | none => .error (err 401 "invalid_token", s.nonces)
        | some t =>
          if t.client != client.getD "" then .error (err 401 "invalid_token", s.nonces)
          else if !truthyR verifier then .error (err 400 "missing_required_parameter", s.nonces)
          else if t.verifier.map Ref.ver != verifier then .error (err 400 "invalid_request", s.nonces)
          else match checkTsNonce s sg (client.getD "") token with
            | .error e => .error (e, s.nonces)
            | .ok nonces =>
              match checkSig s sg csecret (.tsec (t.n + 1)) with
              | some e => .error (e, nonces)
              | none => .ok (t, nonces)

def step (s : Store) : Op → Store × Out
  | .initiate client callback callbackValid sg =>
    if !truthy client then (s, err 400 "missing_required_parameter")
    else if !truthy callback then (s, err 400 "missing_required_parameter")
    else if callback != some "oob" && !callbackValid then (s, err 400 "invalid_request")
    else match s.clients.lookup (client.getD "") with
      | none => (s, err 401 "invalid_client")
      | some csecret =>
        match checkTsNonce s sg (client.getD "") none with
        | .error e => (s, e)
        | .ok nonces =>
          match checkSig s sg csecret .empty with
          | some e => ({ s with nonces := nonces }, e)
          | none =>
            let t : TempRec := ⟨s.fresh + 1, client.getD "", callback, none, none⟩
            ({ s with nonces := nonces, fresh := s.fresh + 2, temps := s.temps ++ [t] },
             { status := 200, token := some (.tmp t.n), secret := some (.tsec (t.n + 1)) })
  | .authorize token user =>
    if !truthyR token then (s, err 400 "missing_required_parameter")
    else match (match token with | some (.tmp n) => s.temps.find? (fun (t : TempRec) => t.n == n) | _ => none) with
      | none => (s, err 401 "invalid_token")
      | some t =>
        match user with
        | none => (s, { status := 302, error := some "access_denied" })
        | some u =>
          let v := s.fresh + 1
          ({ s with fresh := s.fresh + 1,
                    temps := s.temps.map fun (x : TempRec) => if x.n == t.n then { x with verifier := some v, user := some u } else x },
           { status := 302, token := some (.tmp t.n), verifier := some (.ver v) })
  | .exchange client token verifier sg =>
    match exchangeCheck s client token verifier sg with
    | .error (e, nonces) =>
      -- create_token_response deletes the temporary credential on every validation error
      ({ s with nonces := nonces, temps := match token with
          | some (.tmp n) => s.temps.filter (fun (t : TempRec) => t.n != n)
          | _ => s.temps }, e)
    | .ok (t, nonces) =>
      let c : CredRec := ⟨s.fresh + 1, client.getD "", t.user, t.n⟩
      ({ s with nonces := nonces, fresh := s.fresh + 2, creds := s.creds ++ [c],
                temps := s.temps.filter (fun (x : TempRec) => x.n != t.n) },
       { status := 200, token := some (.tok c.n), secret := some (.sec (c.n + 1)) })
  | .access client token sg =>
    if !truthy client then (s, err 400 "missing_required_parameter")
    else match s.clients.lookup (client.getD "") with
      | none => (s, err 401 "invalid_client")
      | some csecret =>
        if !truthyR token then (s, err 400 "missing_required_parameter")
        -- the token credential is looked up for THIS client (django_oauth1: objects.get(client_id=…, oauth_token=…); Flask: query_token(client_id, oauth_token))
        else match (match token with | some (.tok n) => s.creds.find? (fun (c : CredRec) => c.n == n && c.client == client.getD "") | _ => none) with
          | none => (s, err 401 "invalid_token")
          | some c =>
            match checkTsNonce s sg (client.getD "") token with
            | .error e => (s, e)
            | .ok nonces =>
              match checkSig s sg csecret (.sec (c.n + 1)) with
              | some e => ({ s with nonces := nonces }, e)
              | none => ({ s with nonces := nonces }, { status := 200, token := some (.tok c.n) })
  | .advance dt => ({ s with now := s.now + dt }, { status := 200 })

def run (s : Store) (ops : List Op) : Store := ops.foldl (fun st op => (step st op).1) s

end Model.OAuth1Flow
