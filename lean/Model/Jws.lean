import Model.Base64
import Model.Percent
/-
  C01 — JWS compact / flattened-JSON / general-JSON (authlib/jose/rfc7515/jws.py,
  rfc7518/jws_algs.py). Primitives that stay abstract are fields of `Prims`; HMAC is a field too
  (instantiated with the native Lean HMAC in the driver) so that theorems hold for any MAC.
-/
namespace Model.Jws
open Model

inductive Alg
  | none
  | hs (bits : Nat)            -- HS256/384/512
  | rs (bits : Nat)            -- RS*
  | ps (bits : Nat)            -- PS*
  | es (crv : String) (coordBytes : Nat)    -- ES256 (P-256, 32), ES384 (48), ES512 (66), ES256K (32)
  | eddsa
  deriving DecidableEq, Repr

inductive Key
  | oct (k : Bytes)
  | rsa (id : Nat)
  | ec (id : Nat) (crv : String)
  | okp (id : Nat)
  deriving DecidableEq, Repr

inductive JErr
  | decode                 -- DecodeError
  | missingAlg             -- MissingAlgorithmError
  | unsupportedAlg         -- UnsupportedAlgorithmError
  | badSignature           -- BadSignatureError
  | key                    -- prepare_key refused the key (ValueError family)
  deriving DecidableEq, Repr

structure Prims where
  /-- JSON-decode a protected header: `none` = not valid UTF-8 JSON object;
      `some none` = object without `alg`; `some (some a)` = the `alg` member rendered as text -/
  header : Bytes → Option (Option String)
  /-- registry lookup `ALGORITHMS_REGISTRY[alg]` -/
  registry : String → Option Alg
  mac : Nat → Bytes → Bytes → Bytes                 -- HMAC-SHA-bits key msg
  asymVerify : Alg → Key → Bytes → Bytes → Bool     -- RSA / PSS / ECDSA(after the length guard) / EdDSA
  asymSign : Alg → Key → Bytes → Bytes

/-- `algorithm.prepare_key(key)` reduced to the family check (details are C02) -/
def keyFits : Alg → Key → Bool
  | .none, _ => true
  | .hs _, .oct _ => true
  | .rs _, .rsa _ => true
  | .ps _, .rsa _ => true
  | .es c _, .ec _ crv => c == crv
  | .eddsa, .okp _ => true
  | _, _ => false

/-- `algorithm.verify(msg, sig, key)` -/
def verifyAlg (P : Prims) (a : Alg) (k : Key) (msg sig : Bytes) : Bool :=
  match a, k with
  | .none, _ => false
  | .hs bits, .oct key => sig == P.mac bits key msg          -- hmac.compare_digest
  | .es n len, k => if sig.length != 2 * len then false else P.asymVerify (.es n len) k msg sig
  | a, k => P.asymVerify a k msg sig

/-- `algorithm.sign(msg, key)` -/
def signAlg (P : Prims) (a : Alg) (k : Key) (msg : Bytes) : Bytes :=
  match a, k with
  | .none, _ => []
  | .hs bits, .oct key => P.mac bits key msg
  | a, k => P.asymSign a k msg

/-- split at the LAST separator: `s.rsplit(sep, 1)` when it yields two parts -/
def rsplit1 (sep : UInt8) : Bytes → Option (Bytes × Bytes)
  | [] => none
  | c :: rest =>
    match rsplit1 sep rest with
    | some (a, g) => some (c :: a, g)
    | none => if c = sep then some ([], rest) else none

/-- `self._algorithms is not None and alg not in self._algorithms` negated -/
def allowedOk : Option (List String) → String → Bool
  | none, _ => true
  | some l, n => l.contains n

/-- `_prepare_algorithm_key` (allow-list `allowed`, `none` = no restriction) -/
def prepareAlg (P : Prims) (allowed : Option (List String)) (hdr : Option String) (k : Key) :
    Except JErr Alg :=
  match hdr with
  | none => .error .missingAlg
  | some name =>
    if !allowedOk allowed name then .error .unsupportedAlg
    else match P.registry name with
      | none => .error .unsupportedAlg
      | some a => if keyFits a k then .ok a else .error .key

structure Verified where
  headerOctets : Bytes      -- the decoded JWS Protected Header
  payload : Bytes
  deriving DecidableEq, Repr

/-- `JsonWebSignature.deserialize_compact(s, key)` -/
def deserializeCompact (P : Prims) (allowed : Option (List String)) (s : Bytes) (k : Key) :
    Except JErr Verified :=
  match rsplit1 46 s with
  | none => .error .decode
  | some (signingInput, sigSeg) =>
    match Percent.split1 46 signingInput with
    | (_, none) => .error .decode
    | (protSeg, some paySeg) =>
      match Base64.urlDecode protSeg with
      | none => .error .decode
      | some h =>
        match P.header h with
        | none => .error .decode
        | some algName =>
          match Base64.urlDecode paySeg with
          | none => .error .decode
          | some payload =>
            match Base64.urlDecode sigSeg with
            | none => .error .decode
            | some sig =>
              match prepareAlg P allowed algName k with
              | .error e => .error e
              | .ok a =>
                if verifyAlg P a k signingInput sig then .ok ⟨h, payload⟩ else .error .badSignature

/-- `JsonWebSignature.serialize_compact(protected, payload, key)`; `hjson` = `json_dumps(protected)` octets -/
def serializeCompact (P : Prims) (a : Alg) (hjson payload : Bytes) (k : Key) : Bytes :=
  let protSeg := Base64.urlEncode hjson
  let paySeg := Base64.urlEncode payload
  let signingInput := protSeg ++ 46 :: paySeg
  signingInput ++ 46 :: Base64.urlEncode (signAlg P a k signingInput)

/-! ### JSON serializations (the JSON container itself is parsed by the harness / CPython) -/

/-- one signature entry as `_validate_json_jws` sees it (`protected` / `signature` members as text) -/
structure Entry where
  protectedSeg : Option Bytes
  signatureSeg : Option Bytes
  deriving DecidableEq, Repr

/-- `_validate_json_jws`: `ok true/false` = (header, valid) ; errors are raised -/
def validateEntry (P : Prims) (allowed : Option (List String)) (paySeg : Bytes) (e : Entry) (k : Key) :
    Except JErr (Bytes × Bool) :=
  match e.protectedSeg with
  | none => .error .decode
  | some protSeg =>
    if protSeg.isEmpty then .error .decode else
    match e.signatureSeg with
    | none => .error .decode
    | some sigSeg =>
      if sigSeg.isEmpty then .error .decode else
      match Base64.urlDecode protSeg with
      | none => .error .decode
      | some h =>
        match P.header h with
        | none => .error .decode
        | some algName =>
          match prepareAlg P allowed algName k with
          | .error e => .error e
          | .ok a =>
            match Base64.urlDecode sigSeg with
            | none => .error .decode
            | some sig => .ok (h, verifyAlg P a k (protSeg ++ 46 :: paySeg) sig)

/-- the loop of `deserialize_json` over `obj["signatures"]`: headers and the `is_valid` flag -/
def validateAll (P : Prims) (allowed : Option (List String)) (paySeg : Bytes) (k : Key) :
    List Entry → Except JErr (List Bytes × Bool)
  | [] => .ok ([], true)
  | e :: es =>
    match validateEntry P allowed paySeg e k with
    | .error err => .error err
    | .ok (h, v) =>
      match validateAll P allowed paySeg k es with
      | .error err => .error err
      | .ok (hs, vs) => .ok (h :: hs, v && vs)

inductive JsonJws
  | flat (payloadSeg : Option Bytes) (e : Entry)
  | general (payloadSeg : Option Bytes) (es : List Entry)

structure VerifiedJson where
  headers : List Bytes
  payload : Bytes
  deriving DecidableEq, Repr

/-- `JsonWebSignature.deserialize_json(obj, key)` (after the fix: an empty `signatures` array is
    refused — there is nothing that verifies) -/
def deserializeJson (P : Prims) (allowed : Option (List String)) (o : JsonJws) (k : Key) :
    Except JErr VerifiedJson :=
  match o with
  | .flat none _ | .general none _ => .error .decode
  | .flat (some paySeg) e =>
    match Base64.urlDecode paySeg with
    | none => .error .decode
    | some payload =>
      match validateEntry P allowed paySeg e k with
      | .error err => .error err
      | .ok (h, true) => .ok ⟨[h], payload⟩
      | .ok (_, false) => .error .badSignature
  | .general (some paySeg) es =>
    match Base64.urlDecode paySeg with
    | none => .error .decode
    | some payload =>
      if es.isEmpty then .error .decode else
      match validateAll P allowed paySeg k es with
      | .error err => .error err
      | .ok (hs, true) => .ok ⟨hs, payload⟩
      | .ok (_, false) => .error .badSignature

end Model.Jws
