import Model.Text
/-
  C10 — protected-resource decision.
  Mirrors rfc6749/resource_protector.py (parse_request_authorization, get_token_validator,
  validate_request, TokenValidator.scope_insufficient) and rfc6750/validator.py
  (BearerTokenValidator.validate_token).
-/
namespace Model.Resource
open Model.Text

/-- `s.split(None, 1)` as a pair when it has two parts -/
def dropWs : Str → Str
  | [] => []
  | c :: r => if isPySpace c then dropWs r else c :: r

def takeWord : Str → Str × Str
  | [] => ([], [])
  | c :: r => if isPySpace c then ([], c :: r) else let (w, t) := takeWord r; (c :: w, t)

/-- `auth.split(None, 1)`: `none` when the result does not have exactly two parts -/
def splitNone1 (s : Str) : Option (Str × Str) :=
  let s1 := dropWs s
  let (w, t) := takeWord s1
  let rest := dropWs t
  if w.isEmpty || rest.isEmpty then none else some (w, rest)

/-- ASCII `str.lower()` -/
def lowerC (c : Char) : Char := if 'A' ≤ c ∧ c ≤ 'Z' then Char.ofNat (c.toNat + 32) else c
def lower (s : Str) : Str := s.map lowerC

structure Tok where
  expired : Bool
  revoked : Bool
  scope : Option Str
  deriving Repr, DecidableEq

inductive Decision
  | served
  | missingAuthorization   -- 401
  | unsupportedTokenType   -- 401
  | invalidToken           -- 401
  | insufficientScope      -- 403
  deriving Repr, DecidableEq

/-- `TokenValidator.scope_insufficient(token_scopes, required_scopes)`;
    `required = none` is Python `None`, alternatives are scope strings -/
def scopeInsufficient (tokenScope : Option Str) (required : Option (List Str)) : Bool :=
  match required with
  | none => false
  | some [] => false
  | some alts =>
    match tokenScope with
    | none => true
    | some ts =>
      let tw := splitWs ts
      if tw.isEmpty then true
      else !(alts.any fun alt => (splitWs alt).all fun w => tw.contains w)

/-- `BearerTokenValidator.validate_token` -/
def validateToken (t : Option Tok) (required : Option (List Str)) : Decision :=
  match t with
  | none => .invalidToken
  | some t =>
    if t.expired then .invalidToken
    else if t.revoked then .invalidToken
    else if scopeInsufficient t.scope required then .insufficientScope
    else .served

/-- `ResourceProtector.validate_request` with registered token types `types` (lower-case)
    and the token table `db` (`authenticate_token`) -/
def protect (types : List Str) (db : Str → Option Tok) (auth : Option Str)
    (required : Option (List Str)) : Decision :=
  match auth with
  | none => .missingAuthorization
  | some a =>
    if a.isEmpty then .missingAuthorization
    else match splitNone1 a with
      | none => .unsupportedTokenType
      | some (ty, tok) =>
        if types.contains (lower ty) then validateToken (db tok) required
        else .unsupportedTokenType

def status : Decision → Nat
  | .served => 200
  | .insufficientScope => 403
  | _ => 401

end Model.Resource
