import Model.Base64
import Model.Sha
import Generated.Jose
/-
  C16 — JWK member encodings, export filter, thumbprint
  (authlib/common/encoding.py: int_to_base64 / base64_to_int; rfc7517/asymmetric_key.py: as_dict;
   rfc7517/base_key.py: thumbprint; rfc7518/ec_key.py: _coordinate_to_base64).
-/
namespace Model.Jwk
open Model

/-- `num.to_bytes((num.bit_length() + 7) // 8, "big")` — minimal length, `0 ↦ b""` -/
def minBE (n : Nat) : Bytes :=
  if h : n = 0 then [] else minBE (n / 256) ++ [UInt8.ofNat (n % 256)]
termination_by n
decreasing_by omega

/-- `int_to_base64(num)` for `num ≥ 0` -/
def intToBase64 (n : Nat) : Bytes := Base64.urlEncode (minBE n)

/-- `base64_to_int(s)`: `none` = exception (bad base64, or the empty octet string: `int("", 16)`) -/
def base64ToInt (s : Bytes) : Option Nat :=
  match Base64.urlDecode s with
  | none => none
  | some [] => none
  | some b => some (beNat b)

/-- `_coordinate_to_base64(num, curve_key_size)`: fixed width `len` octets (caller guarantees `num < 256^len`) -/
def coordToBase64 (len n : Nat) : Bytes := Base64.urlEncode (natBE len n)

/-- a JWK as an ordered member list (values are JSON strings here; lists only for key_ops, kept opaque) -/
abbrev Tokens := List (String × String)

/-- `if kid:` -/
def kidTruthy (tokens : Tokens) : Bool :=
  match tokens.lookup "kid" with | some k => !k.isEmpty | none => false

/-- `{k: tokens[k] for k in tokens if k in PUBLIC_KEY_FIELDS}` then `tokens["kty"] = self.kty` -/
def publicPart (publicFields : List String) (kty : String) (tokens : Tokens) : Tokens :=
  (tokens.filter (fun p => publicFields.contains p.1)).filter (fun p => p.1 != "kty") ++ [("kty", kty)]

/-- `AsymmetricKey.as_dict(is_private)` on the key's tokens; `none` = ValueError("This is a public key").
    `thumb` is the thumbprint put under `kid` when the key has none. -/
def asDict (publicFields : List String) (kty : String) (tokens : Tokens) (isPrivate : Bool) (thumb : String) :
    Option Tokens :=
  let hasD := (tokens.lookup "d").isSome
  if isPrivate && !hasD then none
  else
    let t1 : Tokens :=
      if hasD && !isPrivate then
        (if kidTruthy tokens then
          (publicPart publicFields kty tokens).filter (fun p => p.1 != "kid") ++ [("kid", (tokens.lookup "kid").getD "")]
        else publicPart publicFields kty tokens)
      else tokens
    some (if kidTruthy tokens then t1 else t1.filter (fun p => p.1 != "kid") ++ [("kid", thumb)])

/-- compact JSON of an object whose values are plain ASCII strings without escapes
    (`json_dumps` of the thumbprint members: base64url text and curve names) -/
def jsonObj (ms : List (String × String)) : Bytes :=
  let body := ms.map fun (k, v) => strBytes ("\"" ++ k ++ "\":\"" ++ v ++ "\"")
  [123] ++ (match body with
    | [] => []
    | b :: bs => bs.foldl (fun acc x => acc ++ [44] ++ x) b) ++ [125]

def insertSorted (x : String) : List String → List String
  | [] => [x]
  | y :: ys => if x ≤ y then x :: y :: ys else y :: insertSorted x ys

def sortStrings : List String → List String
  | [] => []
  | x :: xs => insertSorted x (sortStrings xs)

/-- `Key.thumbprint()`: required fields + "kty", sorted, compact JSON, SHA-256, base64url -/
def thumbprintInput (required : List String) (tokens : Tokens) : Option Bytes :=
  let fields := sortStrings (required ++ ["kty"])
  (fields.mapM fun f => (tokens.lookup f).map fun v => (f, v)).map jsonObj

def thumbprint (required : List String) (tokens : Tokens) : Option Bytes :=
  (thumbprintInput required tokens).map fun i => Base64.urlEncode (Sha.sha256 i)

end Model.Jwk
