/-
  C02 — `Key.check_key_op(operation)` (authlib/jose/rfc7517/base_key.py) for any operation, and what it means for an
  algorithm to "perform" its work with a key: every operation the algorithm asks the caller's key to permit must pass.
  Which operations an algorithm asks for is data: `Generated/KeyOps.lean`, observed on the current code.
-/
namespace Model.KeyOps

structure Restr where
  use : Option String              -- the JWK "use" member
  keyOps : Option (List String)    -- the JWK "key_ops" member
  publicOnly : Bool := false
  deriving Repr

inductive Verdict | ok | unsupportedKeyOp | privateOpOnPublicKey | invalidUse
  deriving Repr, DecidableEq

def privateOps : List String := ["sign", "decrypt", "unwrapKey"]
def sigOps : List String := ["sign", "verify"]
def encOps : List String := ["decrypt", "encrypt", "wrapKey", "unwrapKey"]

def opsForbid (k : Restr) (op : String) : Bool :=
  match k.keyOps with | some l => !l.contains op | none => false

def useVerdict (k : Restr) (op : String) : Verdict :=
  match k.use with
  | none => .ok
  | some u =>
    if u.isEmpty then .ok
    else if sigOps.contains op then (if u == "sig" then .ok else .invalidUse)
    else if encOps.contains op then (if u == "enc" then .ok else .invalidUse)
    else .ok

def check (k : Restr) (op : String) : Verdict :=
  if opsForbid k op then .unsupportedKeyOp
  else if privateOps.contains op && k.publicOnly then .privateOpOnPublicKey
  else useVerdict k op

/-- the algorithm goes ahead with the key iff every operation it asks about is permitted -/
def performs (requested : List String) (k : Restr) : Bool := requested.all fun op => check k op == .ok

end Model.KeyOps
