/-
  C20 — how the OAuth 2 provider turns a protocol error into a response
  (authlib/common/errors.py: AuthlibBaseError / AuthlibHTTPError; authlib/oauth2/base.py:
  OAuth2Error.__init__ with invalid_error_characters; the servers' handle_error_response).
-/
namespace Model.ErrorResponse

def inRanges (ranges : List (Nat × Nat)) (c : Char) : Bool := ranges.any fun r => r.1 ≤ c.toNat && c.toNat ≤ r.2

def descOk (ranges : List (Nat × Nat)) (s : String) : Bool := s.toList.all (inRanges ranges)

/-- an error class: code, status, class-level description ("" = none) -/
structure ErrClass where
  code : String
  status : Nat
  classDesc : String
  deriving Repr, DecidableEq

/-- `OAuth2Error.__init__(description=…)`: the stored description, or ValueError when the argument
    holds a character outside the ranges; `none` = no argument, the class-level text applies -/
def construct (ranges : List (Nat × Nat)) (c : ErrClass) (arg : Option String) : Except Unit String :=
  match arg with
  | none => .ok c.classDesc
  | some d => if d != "" && !descOk ranges d then .error () else .ok d

structure Resp where
  status : Nat
  error : String
  description : Option String        -- `error_description` is emitted only when truthy
  headers : List (String × String)
  deriving Repr, DecidableEq

/-- `error()` → (status_code, dict(get_body()), get_headers()) -/
def respond (c : ErrClass) (desc : String) (headers : List (String × String)) : Resp :=
  { status := c.status, error := c.code, description := if desc != "" then some desc else none, headers := headers }

/-- what the body of an endpoint raises -/
inductive Raised
  | oauth (c : ErrClass) (arg : Option String)     -- an OAuth2Error subclass being constructed with this description argument
  | other (exc : String)                           -- anything else
  deriving Repr

/-- `try: … except OAuth2Error as error: return self.handle_error_response(request, error)` -/
def endpoint (ranges : List (Nat × Nat)) (headers : List (String × String)) (body : Except Raised Resp) : Except String Resp :=
  match body with
  | .ok r => .ok r
  | .error (.oauth c arg) =>
    match construct ranges c arg with
    | .ok d => .ok (respond c d headers)
    | .error _ => .error "ValueError"           -- raised while the error object is built: nothing catches it
  | .error (.other e) => .error e

end Model.ErrorResponse
