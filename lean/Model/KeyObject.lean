import Model.Jwk
/-
  C16 over histories — one AsymmetricKey object and any sequence of export calls.
  Mirrors authlib/jose/rfc7517/base_key.py (`Key.tokens`, `_dict_data`, `options`, ALLOWED_PARAMS) and
  asymmetric_key.py (`load_dict_key`, `load_raw_key`, `get_private_key`, `get_public_key`, `as_dict`,
  `as_bytes` / `as_pem` / `as_der`): the object caches what it derived (the JWK members in `_dict_data`,
  the cryptography objects in `private_key` / `public_key`); what an export returns must not depend on
  which exports happened before.
-/
namespace Model.KeyObject
open Model Model.Jwk

/-- the key material as the codecs see it: `dumps_public_key()` and `dumps_private_key()` -/
structure Mat where
  pub : Tokens
  priv : Tokens

/-- class constants of the key type -/
structure Kind where
  kty : String
  publicFields : List String
  allowedParams : List String

structure St where
  privObj : Bool            -- `self.private_key` is set
  pubObj : Bool             -- `self.public_key` is set
  dict : Tokens             -- `self._dict_data`
  options : Tokens          -- `self.options`
  deriving DecidableEq, Repr

/-- `d[k] = v` on an insertion-ordered dict -/
def setKey (t : Tokens) (k v : String) : Tokens :=
  if t.any (fun p => p.1 == k) then t.map (fun p => if p.1 == k then (k, v) else p) else t ++ [(k, v)]

/-- `d.update(new)` -/
def update (t new : Tokens) : Tokens := new.foldl (fun acc p => setKey acc p.1 p.2) t

/-- `load_dict_key` guarded by `if not self._dict_data` -/
def loadDict (m : Mat) (s : St) : St :=
  if s.dict.isEmpty then { s with dict := update s.dict (if s.privObj then m.priv else m.pub) } else s

/-- the loop over ALLOWED_PARAMS in `Key.tokens` -/
def addParams (options : Tokens) : List String → Tokens → Tokens
  | [], rv => rv
  | k :: ks, rv =>
    match options.lookup k with
    | some v => addParams options ks (if rv.any (fun p => p.1 == k) then rv else rv ++ [(k, v)])
    | none => addParams options ks rv

/-- `Key.tokens` read on a state whose `_dict_data` is loaded -/
def tokensOf (k : Kind) (s : St) : Tokens :=
  addParams s.options k.allowedParams (setKey s.dict "kty" k.kty)

/-- `load_raw_key` as reached from `get_private_key` (tokens are never empty: they hold `kty`) -/
def loadRaw (k : Kind) (m : Mat) (s : St) : St :=
  let s := loadDict m s
  if ((tokensOf k s).lookup "d").isSome then { s with privObj := true } else { s with pubObj := true }

def getPrivate (k : Kind) (m : Mat) (s : St) : St := if s.privObj then s else loadRaw k m s

def getPublic (k : Kind) (m : Mat) (s : St) : St := if s.pubObj then s else getPrivate k m s

inductive Op
  | asDict (isPrivate : Bool)           -- as_dict / as_json
  | asBytes (isPrivate : Bool)          -- as_pem / as_der / as_bytes
  | thumbprint
  | getPublicKey
  deriving DecidableEq, Repr

inductive Out
  | members (t : Tokens)
  | bytes (isPrivate : Bool)            -- an encoding of the private / the public key
  | valueError
  | done
  deriving DecidableEq, Repr

def step (k : Kind) (m : Mat) (thumb : String) (s : St) : Op → St × Out
  | .asDict isPrivate =>
    let s := loadDict m s
    (s, match Jwk.asDict k.publicFields k.kty (tokensOf k s) isPrivate thumb with
        | some t => .members t
        | none => .valueError)
  | .asBytes true =>
    let s := getPrivate k m s
    (s, if s.privObj then .bytes true else .valueError)
  | .asBytes false => (getPublic k m s, .bytes false)
  | .thumbprint => (loadDict m s, .done)
  | .getPublicKey => (getPublic k m s, .done)

def run (k : Kind) (m : Mat) (thumb : String) (s : St) : List Op → St × List Out
  | [] => (s, [])
  | op :: ops =>
    let (s', o) := step k m thumb s op
    let (s'', os) := run k m thumb s' ops
    (s'', o :: os)

/-- how a key object comes into being -/
def ofPrivateObject (options : Tokens) : St := { privObj := true, pubObj := false, dict := [], options }
def ofPublicObject (options : Tokens) : St := { privObj := false, pubObj := true, dict := [], options }
def ofDict (raw options : Tokens) : St := { privObj := false, pubObj := false, dict := raw, options }

end Model.KeyObject
