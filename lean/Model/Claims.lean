/-
  C04 — JWT claims validation (authlib/jose/rfc7519/claims.py: BaseClaims, JWTClaims).
  Values: JSON atoms and lists of atoms. Numbers are exact quarter-integers (`q4`/4), so the
  mixed int/float comparisons Python performs are exact for every value the generators emit.
-/
namespace Model.Claims

inductive Atom
  | none
  | bool (b : Bool)
  | int (i : Int)
  | flt (q4 : Int)          -- the float q4/4
  | str (s : String)
  deriving DecidableEq, Repr

inductive Val
  | atom (a : Atom)
  | list (xs : List Atom)
  deriving DecidableEq, Repr

/-- numeric value in quarters, Python-style (`True == 1`) — used by `==` only -/
def Atom.num : Atom → Option Int
  | .bool b => some (if b then 4 else 0)
  | .int i => some (4 * i)
  | .flt q => some q
  | _ => Option.none

/-- Python `a == b` on atoms -/
def Atom.pyEq (a b : Atom) : Bool :=
  match a.num, b.num with
  | some x, some y => x == y
  | _, _ => match a, b with
    | .none, .none => true
    | .str s, .str t => s == t
    | _, _ => false

def listEq : List Atom → List Atom → Bool
  | [], [] => true
  | a :: as, b :: bs => a.pyEq b && listEq as bs
  | _, _ => false

/-- Python `a == b` -/
def Val.pyEq : Val → Val → Bool
  | .atom a, .atom b => a.pyEq b
  | .list a, .list b => listEq a b
  | _, _ => false

/-- Python truthiness -/
def Val.truthy : Val → Bool
  | .atom .none => false
  | .atom (.bool b) => b
  | .atom (.int i) => i != 0
  | .atom (.flt q) => q != 0
  | .atom (.str s) => s != ""
  | .list xs => !xs.isEmpty

/-- `isinstance(v, (int, float)) and not isinstance(v, bool)`, value in quarters -/
def Val.numericDate : Val → Option Int
  | .atom (.int i) => some (4 * i)
  | .atom (.flt q) => some q
  | _ => Option.none

/-- Python `x in ys` for a list `ys` -/
def pyIn (x : Val) (ys : List Val) : Bool := ys.any (fun y => x.pyEq y)

/-- the finite family of validator callables the harness uses -/
inductive Validator
  | const (b : Bool)              -- lambda claims, v: b
  | eq (v : Val)                  -- lambda claims, v: v == c
  | eqClaim (name : String)       -- lambda claims, v: v == claims.get(name)
  deriving DecidableEq, Repr

structure Opt where
  essential : Bool := false
  value : Option Val := none
  values : Option (List Val) := none
  validate : Option Validator := none
  deriving Repr

abbrev Claims := List (String × Val)
abbrev Options := List (String × Opt)

inductive Err
  | missing (claim : String)      -- MissingClaimError
  | invalid (claim : String)      -- InvalidClaimError
  | expired                       -- ExpiredTokenError
  | invalidToken                  -- InvalidTokenError
  deriving DecidableEq, Repr

/-- `self.get(k)` (absent → None) -/
def getD (c : Claims) (k : String) : Val := (c.lookup k).getD (.atom .none)

def Validator.run (f : Validator) (c : Claims) (v : Val) : Bool :=
  match f with
  | .const b => b
  | .eq w => v.pyEq w
  | .eqClaim n => v.pyEq (getD c n)

def optTruthy : Option Val → Option Val
  | some v => if v.truthy then some v else Option.none
  | Option.none => Option.none

def optListTruthy : Option (List Val) → Option (List Val)
  | some l => if l.isEmpty then Option.none else some l
  | Option.none => Option.none

/-- `_validate_essential_claims` -/
def essentialLoop (c : Claims) (o : Options) : List String → Option Err
  | [] => Option.none
  | k :: ks =>
    match o.lookup k with
    | some opt =>
      if opt.essential then
        match c.lookup k with
        | Option.none => some (.missing k)
        | some v => if v.truthy then essentialLoop c o ks else some (.invalid k)
      else essentialLoop c o ks
    | Option.none => essentialLoop c o ks

def orElse' (a : Option Err) (b : Unit → Option Err) : Option Err :=
  match a with
  | some e => some e
  | Option.none => b ()

/-- `_validate_claim_value(claim_name)` -/
def claimValue (c : Claims) (o : Options) (k : String) : Option Err :=
  match o.lookup k with
  | Option.none => Option.none
  | some opt =>
    let v := getD c k
    orElse' (match optTruthy opt.value with
      | some ev => if v.pyEq ev then Option.none else some (.invalid k)
      | Option.none => Option.none) fun _ =>
    orElse' (match optListTruthy opt.values with
      | some evs => if pyIn v evs then Option.none else some (.invalid k)
      | Option.none => Option.none) fun _ =>
    (match opt.validate with
      | some f => if f.run c v then Option.none else some (.invalid k)
      | Option.none => Option.none)

/-- expected audiences: `values` if truthy, else `[value]` if truthy -/
def expectedAud (opt : Opt) : List Val :=
  match optListTruthy opt.values with
  | some l => l
  | Option.none => match optTruthy opt.value with
    | some v => [v]
    | Option.none => []

/-- the token's audiences as a list -/
def audList : Val → List Val
  | .list xs => xs.map .atom
  | v => [v]

/-- `validate_aud` -/
def checkAud (c : Claims) (o : Options) : Option Err :=
  match o.lookup "aud" with
  | Option.none => Option.none
  | some opt =>
    let aud := getD c "aud"
    if !aud.truthy then Option.none
    else
      let exp := expectedAud opt
      if exp.isEmpty then Option.none
      else if exp.any (fun v => pyIn v (audList aud)) then Option.none
      else some (.invalid "aud")

/-- `validate_exp` (times in quarters) -/
def checkExp (c : Claims) (now lw : Int) : Option Err :=
  match c.lookup "exp" with
  | Option.none => Option.none
  | some v => match v.numericDate with
    | Option.none => some (.invalid "exp")
    | some q => if q < now - lw then some .expired else Option.none

def checkNbf (c : Claims) (now lw : Int) : Option Err :=
  match c.lookup "nbf" with
  | Option.none => Option.none
  | some v => match v.numericDate with
    | Option.none => some (.invalid "nbf")
    | some q => if q > now + lw then some .invalidToken else Option.none

def checkIat (c : Claims) (now lw : Int) : Option Err :=
  match c.lookup "iat" with
  | Option.none => Option.none
  | some v => match v.numericDate with
    | Option.none => some (.invalid "iat")
    | some q => if q > now + lw then some .invalidToken else Option.none

def registered : List String := ["iss", "sub", "aud", "exp", "nbf", "iat", "jti"]

/-- the loop over custom (non-registered) option keys -/
def customLoop (c : Claims) (o : Options) : List String → Option Err
  | [] => Option.none
  | k :: ks =>
    if registered.contains k then customLoop c o ks
    else match claimValue c o k with
      | some e => some e
      | Option.none => customLoop c o ks

/-- `JWTClaims.validate(now, leeway)`; `none` = no exception -/
def validate (c : Claims) (o : Options) (now lw : Int) : Option Err :=
  orElse' (essentialLoop c o (o.map (·.1))) fun _ =>
  orElse' (claimValue c o "iss") fun _ =>
  orElse' (claimValue c o "sub") fun _ =>
  orElse' (checkAud c o) fun _ =>
  orElse' (checkExp c now lw) fun _ =>
  orElse' (checkNbf c now lw) fun _ =>
  orElse' (checkIat c now lw) fun _ =>
  orElse' (claimValue c o "jti") fun _ =>
  customLoop c o (o.map (·.1))

end Model.Claims
