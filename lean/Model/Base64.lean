import Model.Bytes
/-
  Base64 as authlib uses it (authlib/common/encoding.py):
    urlsafe_b64encode(s) = base64.urlsafe_b64encode(s).rstrip(b"=")
    urlsafe_b64decode(s) = base64.urlsafe_b64decode(s + b"=" * (-len(s) % 4))
  The decoder mirrors CPython 3.12 `binascii.a2b_base64` in NON-strict mode
  (state quad_pos / leftchar / pads; non-alphabet bytes skipped; `=` rules).
-/
namespace Model.Base64
open Model

/-- alphabet character of a 6-bit value; `url = true` uses `-` `_`. -/
def ch (url : Bool) (n : Nat) : UInt8 :=
  if n < 26 then UInt8.ofNat (65 + n)
  else if n < 52 then UInt8.ofNat (97 + (n - 26))
  else if n < 62 then UInt8.ofNat (48 + (n - 52))
  else if n = 62 then (if url then 45 else 43)
  else (if url then 95 else 47)

/-- value of an alphabet character. `url = true` is the table *after* the
    `-_ → +/` translation of `base64.urlsafe_b64decode`, i.e. it accepts both alphabets. -/
def val (url : Bool) (c : UInt8) : Option Nat :=
  let n := c.toNat
  if 65 ≤ n ∧ n ≤ 90 then some (n - 65)
  else if 97 ≤ n ∧ n ≤ 122 then some (n - 97 + 26)
  else if 48 ≤ n ∧ n ≤ 57 then some (n - 48 + 52)
  else if n = 43 then some 62
  else if n = 47 then some 63
  else if url ∧ n = 45 then some 62
  else if url ∧ n = 95 then some 63
  else none

def encode (url : Bool) : Bytes → List UInt8
  | [] => []
  | [a] => [ch url (a.toNat / 4), ch url ((a.toNat % 4) * 16)]
  | [a, b] => [ch url (a.toNat / 4), ch url ((a.toNat % 4) * 16 + b.toNat / 16),
               ch url ((b.toNat % 16) * 4)]
  | a :: b :: c :: rest =>
      ch url (a.toNat / 4) :: ch url ((a.toNat % 4) * 16 + b.toNat / 16) ::
      ch url ((b.toNat % 16) * 4 + c.toNat / 64) :: ch url (c.toNat % 64) :: encode url rest

/-- `binascii.a2b_base64(data)` (strict_mode = False). `none` = binascii.Error. -/
def a2b (url : Bool) : List UInt8 → (quad left pads : Nat) → Option Bytes
  | [], quad, _, _ => if quad = 0 then some [] else none
  | c :: rest, quad, left, pads =>
    if c = 61 then
      if 2 ≤ quad ∧ 4 ≤ quad + (pads + 1) then some []
      else a2b url rest quad left (if 2 ≤ quad then pads + 1 else pads)
    else match val url c with
      | none => a2b url rest quad left pads
      | some v =>
        match quad with
        | 0 => a2b url rest 1 v 0
        | 1 => (a2b url rest 2 (v % 16) 0).map (UInt8.ofNat (left * 4 + v / 16) :: ·)
        | 2 => (a2b url rest 3 (v % 4) 0).map (UInt8.ofNat (left * 16 + v / 4) :: ·)
        | _ => (a2b url rest 0 0 0).map (UInt8.ofNat (left * 64 + v) :: ·)

/-- authlib's padding: `s += b"=" * (-len(s) % 4)` -/
def pad (s : List UInt8) : List UInt8 := s ++ List.replicate ((4 - s.length % 4) % 4) 61

/-- `authlib.common.encoding.urlsafe_b64decode` on bytes -/
def urlDecode (s : List UInt8) : Option Bytes := a2b true (pad s) 0 0 0

/-- `authlib.common.encoding.urlsafe_b64encode` -/
def urlEncode (b : Bytes) : List UInt8 := encode true b

/-- `base64.b64decode(s)` (standard alphabet, non-strict), used for HTTP Basic -/
def stdDecode (s : List UInt8) : Option Bytes := a2b false s 0 0 0

/-- `base64.b64encode(s)` (with padding) -/
def stdEncode (b : Bytes) : List UInt8 :=
  let e := encode false b
  e ++ List.replicate ((4 - e.length % 4) % 4) 61

end Model.Base64
