import Model.Metadata
import Model.Text
/-
  C18 (registration part) — RFC 7591 ClientMetadataClaims.validate with the options derived from
  the server metadata (get_claims_options), and the registration / configuration endpoints
  (rfc7591/endpoint.py, rfc7592/endpoint.py) over a client store.
  `jwks` is abstract: its verdict is a parameter of the request (JsonWebKey.import_key_set).
-/
namespace Model.Registration
open Model.Metadata Model.Url

/-- what the server advertises (None = member absent); well-formed lists of strings -/
structure ServerMeta where
  scopes : Option (List String)
  responseTypes : Option (List String)
  grantTypes : Option (List String)
  authMethods : Option (List String)
  deriving Repr

inductive CR
  | ok (stored : Doc)
  | invalid (claim : String)         -- InvalidClaimError → invalid_client_metadata
  | crash (exc : String)
  deriving Repr, DecidableEq

inductive Err
  | invalid (claim : String)
  | crash (exc : String)
  deriving Repr, DecidableEq

def uriMembers : List String := ["client_uri", "logo_uri", "tos_uri", "policy_uri", "jwks_uri"]

/-- `_validate_uri(key)`: `uri = self.get(key); if uri and not is_valid_url(uri, fragments_allowed=False)` -/
def checkUri (p : Doc) (k : String) : Option Err :=
  let v := mget p k
  if !v.truthy then none
  else match v with
    | .a (.str s) => if isValidUrl s.toList false then none else some (.invalid k)
    | _ => some (.invalid k)

def validUriStr (x : A) : Bool := match x with | .str s => isValidUrl s.toList false | _ => false

/-- `validate_redirect_uris` -/
def checkRedirectUris (p : Doc) : Option Err :=
  let v := mget p "redirect_uris"
  if !v.truthy then none
  else match v with
    | .l xs => if xs.all validUriStr then none else some (.invalid "redirect_uris")
    | _ => some (.invalid "redirect_uris")

/-- `set(value) if value else {default}` then `supported.issuperset(...)`; none = TypeError -/
def subsetCheck (supported : List String) (v : V) (dflt : String) : Option Bool :=
  if !v.truthy then some (supported.contains dflt)
  else (pySet v).map fun xs => xs.all fun x => mem x (supported.map A.str)

/-- Python `str.split()` on the ASCII strings in play -/
def splitScope (s : String) : List String := (Text.splitWs s.toList).map String.ofList

/-- the scope validator: `if not value: True; set(scope_to_list(value)) ⊆ supported`; only str / list-of-str values are modelled -/
def scopeCheck (supported : List String) (v : V) : Option Bool :=
  if !v.truthy then some true
  else match v with
    | .a (.str s) => some ((splitScope s).all supported.contains)
    | .l xs => some (xs.all fun x => match x with | .str s => supported.contains s | _ => false)
    | _ => none

def claimValue (c : Option Bool) (k : String) : Option Err :=
  match c with
  | none => some (.invalid k)          -- TypeError inside the validator counts as "not supported"
  | some true => none
  | some false => some (.invalid k)

def firstSome : List (Option Err) → Option Err
  | [] => none
  | some r :: _ => some r
  | none :: r => firstSome r

/-- `ClientMetadataClaims.validate()` then `get_registered_claims()`.
    `jwks`: none = member absent, some b = import_key_set verdict -/
def validateClaims (sm : ServerMeta) (p : Doc) (jwksOk : Option Bool) : CR :=
  let p' : Doc := if has p "token_endpoint_auth_method" then p else p ++ [("token_endpoint_auth_method", .a (.str "client_secret_basic"))]
  let authCheck : Option Err :=
    match sm.authMethods with
    | some ms => if ms.isEmpty then none
                 else (match mget p' "token_endpoint_auth_method" with
                   | .a x => if mem x (ms.map A.str) then none else some (.invalid "token_endpoint_auth_method")
                   | .l _ => some (.invalid "token_endpoint_auth_method"))
    | none => none
  let grantCheck := match sm.grantTypes with
    | some g => claimValue (subsetCheck g (mget p "grant_types") "authorization_code") "grant_types"
    | none => none
  let respCheck := match sm.responseTypes with
    | some g => claimValue (subsetCheck g (mget p "response_types") "code") "response_types"
    | none => none
  let scopeC := match sm.scopes with
    | some g => (match scopeCheck g (mget p "scope") with
        | none => some (.invalid "scope")
        | some true => none
        | some false => some (.invalid "scope"))
    | none => none
  let contacts : Option Err := if has p "contacts" && !(mget p "contacts").isList then some (.invalid "contacts") else none
  let jwks : Option Err := match jwksOk with
    | none => none
    | some b => if has p "jwks_uri" then some (.invalid "jwks") else if b then none else some (.invalid "jwks")
  match firstSome [checkRedirectUris p, authCheck, grantCheck, respCheck, checkUri p "client_uri", checkUri p "logo_uri", scopeC, contacts,
                   checkUri p "tos_uri", checkUri p "policy_uri", checkUri p "jwks_uri", jwks] with
  | some (.invalid c) => .invalid c
  | some (.crash e) => .crash e
  | none => .ok (p'.filter fun kv => Generated.Metadata.clientRegisteredClaims.contains kv.1 && kv.1 != "jwks")

/-! ### the endpoints over a store -/

structure Client where
  id : String
  secret : String
  metadata : Doc
  deriving Repr, DecidableEq

structure Store where
  clients : List Client
  fresh : Nat
  deriving Repr

inductive Token | none | wrong | initial | ofClient (id : String)
  deriving Repr, DecidableEq

inductive Op
  | register (tok : Token) (payload : Option Doc) (jwksOk : Option Bool)
  | update (tok : Token) (payload : Option Doc) (jwksOk : Option Bool)
  deriving Repr

structure Out where
  status : Nat
  error : Option String := none
  deriving Repr, DecidableEq

def payloadTruthy (p : Option Doc) : Bool := match p with | some d => !d.isEmpty | none => false

/-- new values override the stored ones (`{**old, **new}`) -/
def merge (old new : Doc) : Doc := old.filter (fun kv => !(has new kv.1)) ++ new

def step (sm : ServerMeta) (s : Store) : Op → Store × Out
  | .register tok payload jwksOk =>
    if tok != .initial then (s, ⟨400, some "access_denied"⟩)
    else if !payloadTruthy payload then (s, ⟨400, some "invalid_request"⟩)
    else match validateClaims sm (payload.getD []) jwksOk with
      | .invalid _ => (s, ⟨400, some "invalid_client_metadata"⟩)
      | .crash e => (s, ⟨500, some e⟩)
      | .ok md =>
        let n := s.fresh + 1
        ({ clients := s.clients ++ [⟨s!"client{n}", s!"secret{n}", md⟩], fresh := n }, ⟨201, none⟩)
  | .update tok payload jwksOk =>
    match tok with
    | .ofClient cid =>
      match s.clients.find? (fun c => c.id == cid) with
      | none => (s, ⟨400, some "access_denied"⟩)
      | some c =>
        let p := payload.getD []
        if Generated.Metadata.updateMustNotInclude.any (has p) then (s, ⟨400, some "invalid_request"⟩)
        else if !(mget p "client_id").truthy then (s, ⟨400, some "invalid_request"⟩)
        else if mget p "client_id" != .a (.str c.id) then (s, ⟨400, some "invalid_request"⟩)
        else if has p "client_secret" && mget p "client_secret" != .a (.str c.secret) then (s, ⟨400, some "invalid_request"⟩)
        else match validateClaims sm p jwksOk with
          | .invalid _ => (s, ⟨400, some "invalid_client_metadata"⟩)
          | .crash e => (s, ⟨500, some e⟩)
          | .ok md =>
            ({ s with clients := s.clients.map fun x => if x.id == c.id then { x with metadata := merge x.metadata md } else x }, ⟨200, none⟩)
    | _ => (s, ⟨400, some "access_denied"⟩)

end Model.Registration
