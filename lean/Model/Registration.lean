import Model.Metadata
import Model.Text
/-
  C18 (registration part) — RFC 7591 ClientMetadataClaims.validate with the options derived from
  the server metadata (get_claims_options), and the registration / configuration endpoints
  (rfc7591/endpoint.py, rfc7592/endpoint.py) over a client store.
  `jwks` is abstract: its verdict is a parameter of the request (JsonWebKey.import_key_set).
-/
namespace Model.Registration
open Model.Metadata Model.Url

/-- what the server advertises (None = member absent); well-formed lists of strings -/
structure ServerMeta where
  scopes : Option (List String)
  responseTypes : Option (List String)
  grantTypes : Option (List String)
  authMethods : Option (List String)
  deriving Repr

inductive CR
  | ok (stored : Doc)
  | invalid (claim : String)         -- InvalidClaimError → invalid_client_metadata
  | crash (exc : String)
  deriving Repr, DecidableEq

inductive Err
  | invalid (claim : String)
  | crash (exc : String)
  deriving Repr, DecidableEq

def uriMembers : List String := ["client_uri", "logo_uri", "tos_uri", "policy_uri", "jwks_uri"]

/-- `_validate_uri(key)`: `uri = self.get(key); if uri and not is_valid_url(uri, fragments_allowed=False)` -/
def checkUri (p : Doc) (k : String) : Option Err :=
  let v := mget p k
  if !v.truthy then none
  else match v with
    | .a (.str s) => if isValidUrl s.toList false then none else some (.invalid k)
    | _ => some (.invalid k)

def validUriStr (x : A) : Bool := match x with | .str s => isValidUrl s.toList false | _ => false

/-- `validate_redirect_uris` -/
def checkRedirectUris (p : Doc) : Option Err :=
  let v := mget p "redirect_uris"
  if !v.truthy then none
  else match v with
    | .l xs => if xs.all validUriStr then none else some (.invalid "redirect_uris")
    | _ => some (.invalid "redirect_uris")

/-- `set(value) if value else {default}` then `supported.issuperset(...)`; none = TypeError -/
def subsetCheck (supported : List String) (v : V) (dflt : String) : Option Bool :=
  if !v.truthy then some (supported.contains dflt)
  else (pySet v).map fun xs => xs.all fun x => mem x (supported.map A.str)

/-- Python `str.split()` on the ASCII strings in play -/
def splitScope (s : String) : List String := (Text.splitWs s.toList).map String.ofList

/-- the scope validator: `if not value: True; set(scope_to_list(value)) ⊆ supported`; only str / list-of-str values are modelled -/
def scopeCheck (supported : List String) (v : V) : Option Bool :=
  if !v.truthy then some true
  else match v with
    | .a (.str s) => some ((splitScope s).all supported.contains)
    | .l xs => some (xs.all fun x => match x with | .str s => supported.contains s | _ => false)
    | _ => none

def claimValue (c : Option Bool) (k : String) : Option Err :=
  match c with
  | none => some (.invalid k)          -- TypeError inside the validator counts as "not supported"
  | some true => none
  | some false => some (.invalid k)

def firstSome : List (Option Err) → Option Err
  | [] => none
  | some r :: _ => some r
  | none :: r => firstSome r

/-- `ClientMetadataClaims.validate()` then `get_registered_claims()`.
    `jwks`: none = member absent, some b = import_key_set verdict -/
def validateClaims (sm : ServerMeta) (p : Doc) (jwksOk : Option Bool) : CR :=
  let p' : Doc := if has p "token_endpoint_auth_method" then p else p ++ [("token_endpoint_auth_method", .a (.str "client_secret_basic"))]
  let authCheck : Option Err :=
    match sm.authMethods with
    | some ms => if ms.isEmpty then none
                 else (match mget p' "token_endpoint_auth_method" with
                   | .a x => if mem x (ms.map A.str) then none else some (.invalid "token_endpoint_auth_method")
                   | .l _ => some (.invalid "token_endpoint_auth_method"))
    | none => none
  let grantCheck := match sm.grantTypes with
    | some g => claimValue (subsetCheck g (mget p "grant_types") "authorization_code") "grant_types"
    | none => none
  let respCheck := match sm.responseTypes with
    | some g => claimValue (subsetCheck g (mget p "response_types") "code") "response_types"
    | none => none
  let scopeC := match sm.scopes with
    | some g => (match scopeCheck g (mget p "scope") with
        | none => some (.invalid "scope")
        | some true => none
        | some false => some (.invalid "scope"))
    | none => none
  let contacts : Option Err := if has p "contacts" && !(mget p "contacts").isList then some (.invalid "contacts") else none
  let jwks : Option Err := match jwksOk with
    | none => none
    | some b => if has p "jwks_uri" then some (.invalid "jwks") else if b then none else some (.invalid "jwks")
  match firstSome [checkRedirectUris p, authCheck, grantCheck, respCheck, checkUri p "client_uri", checkUri p "logo_uri", scopeC, contacts,
                   checkUri p "tos_uri", checkUri p "policy_uri", checkUri p "jwks_uri", jwks] with
  | some (.invalid c) => .invalid c
  | some (.crash e) => .crash e
  | none => .ok (p'.filter fun kv => Generated.Metadata.clientRegisteredClaims.contains kv.1 && kv.1 != "jwks")

/-! ### the endpoints over a store -/

structure Client where
  id : String
  secret : String
  metadata : Doc
  deriving Repr, DecidableEq

structure Store where
  clients : List Client
  fresh : Nat
  deriving Repr

inductive Token | none | wrong | initial | ofClient (id : String)
  deriving Repr, DecidableEq

inductive Op
  | register (tok : Token) (payload : Option Doc) (jwksOk : Option Bool)
  | update (tok : Token) (payload : Option Doc) (jwksOk : Option Bool)
  deriving Repr

structure Out where
  status : Nat
  error : Option String := none
  deriving Repr, DecidableEq

def payloadTruthy (p : Option Doc) : Bool := match p with | some d => !d.isEmpty | none => false

/-- new values override the stored ones (`{**old, **new}`) -/
def merge (old new : Doc) : Doc := old.filter (fun kv => !(has new kv.1)) ++ new

def step (sm : ServerMeta) (s : Store) : Op → Store × Out
  | .register tok payload jwksOk =>
    if tok != .initial then (s, ⟨400, some "access_denied"⟩)
    else if !payloadTruthy payload then (s, ⟨400, some "invalid_request"⟩)
    else match validateClaims sm (payload.getD []) jwksOk with
      | .invalid _ => (s, ⟨400, some "invalid_client_metadata"⟩)
      | .crash e => (s, ⟨500, some e⟩)
      | .ok md =>
        let n := s.fresh + 1
        ({ clients := s.clients ++ [⟨s!"client{n}", s!"secret{n}", md⟩], fresh := n }, ⟨201, none⟩)
  | .update tok payload jwksOk =>
    match tok with
    | .ofClient cid =>
      match s.clients.find? (fun c => c.id == cid) with
      | none => (s, ⟨400, some "access_denied"⟩)
      | some c =>
        let p := payload.getD []
        if Generated.Metadata.updateMustNotInclude.any (has p) then (s, ⟨400, some "invalid_request"⟩)
        else if !(mget p "client_id").truthy then (s, ⟨400, some "invalid_request"⟩)
        else if mget p "client_id" != .a (.str c.id) then (s, ⟨400, some "invalid_request"⟩)
        else if has p "client_secret" && mget p "client_secret" != .a (.str c.secret) then (s, ⟨400, some "invalid_request"⟩)
        else match validateClaims sm p jwksOk with
          | .invalid _ => (s, ⟨400, some "invalid_client_metadata"⟩)
          | .crash e => (s, ⟨500, some e⟩)
          | .ok md =>
            ({ s with clients := s.clients.map fun x => if x.id == c.id then { x with metadata := merge x.metadata md } else x }, ⟨200, none⟩)
    | _ => (s, ⟨400, some "access_denied"⟩)

/-! ### OpenID Connect Dynamic Registration claims (authlib/oidc/registration/claims.py) -/

/-- what the provider metadata advertises for the members the OIDC claims class consults (none / empty = no restriction) -/
structure OidcMeta where
  acrValues : List String := []
  /-- metadata member ↦ allowed values, for the eleven `*_values_supported` / `subject_types_supported` mappings, keyed by the REQUEST claim name -/
  allowed : List (String × List String) := []
  deriving Repr

def oidcRegistered : List String :=
  ["token_endpoint_auth_signing_alg", "application_type", "sector_identifier_uri", "subject_type", "id_token_signed_response_alg",
   "id_token_encrypted_response_alg", "id_token_encrypted_response_enc", "userinfo_signed_response_alg", "userinfo_encrypted_response_alg",
   "userinfo_encrypted_response_enc", "default_max_age", "require_auth_time", "default_acr_values", "initiate_login_uri",
   "request_object_signing_alg", "request_object_encryption_alg", "request_object_encryption_enc", "request_uris"]

def setDefault (p : Doc) (k : String) (v : V) : Doc := if has p k then p else p ++ [(k, v)]

/-- `make_validator(values)`: `not value or value in values` -/
def inAllowed (m : OidcMeta) (k : String) (v : V) : Option Err :=
  match m.allowed.lookup k with
  | none => none
  | some vals =>
    if vals.isEmpty || !v.truthy then none
    else match v with
      | .a x => if mem x (vals.map A.str) then none else some (.invalid k)
      | .l _ => some (.invalid k)

/-- one entry of `_validate_uri(key)` of the OIDC class (fragments allowed) -/
def uriEntryErr (k : String) (x : A) : Option Err :=
  if !x.truthy then none
  else match x with
    | .str s => if isValidUrl s.toList true then none else some (.invalid k)
    | _ => some (.invalid k)

/-- `_validate_uri(key)` of the OIDC class: scalar or array -/
def checkUriOrList (p : Doc) (k : String) : Option Err :=
  match mget p k with
  | .l xs => (xs.filterMap (uriEntryErr k)).head?
  | .a x => uriEntryErr k x

def isStrNone (v : V) : Bool := v == .a (.str "none")

/-- enc requires alg; alg present fills the default enc -/
def encPair (p : Doc) (alg enc : String) : Option Err × Doc :=
  if (mget p enc).truthy && !(mget p alg).truthy then (some (.invalid enc), p)
  else (none, if (mget p alg).truthy then setDefault p enc (.a (.str "A128CBC-HS256")) else p)

def isNumber (v : V) : Bool := match v with | .a (.num _) => true | .a (.bool _) => true | _ => false
def isBool (v : V) : Bool := match v with | .a (.bool _) => true | _ => false

/-- `default_acr_values` validator: `not value or set(value) ⊆ set(acr_values_supported)` -/
def acrCheck (m : OidcMeta) (v : V) : Option Err :=
  if m.acrValues.isEmpty || !v.truthy then none
  else match pySet v with
    | none => some (.invalid "default_acr_values")
    | some xs => if xs.all fun x => mem x (m.acrValues.map A.str) then none else some (.invalid "default_acr_values")

/-- one validator of the chain: its error ends the validation -/
def chk (e : Option Err) (k : CR) : CR :=
  match e with
  | some (.invalid c) => .invalid c
  | some (.crash x) => .crash x
  | none => k

/-- `oidc.registration.ClientMetadataClaims.validate()` then `get_registered_claims()` -/
def validateOidcClaims (m : OidcMeta) (p0 : Doc) : CR :=
  chk (if isStrNone (mget p0 "token_endpoint_auth_signing_alg") then some (.invalid "token_endpoint_auth_signing_alg") else none) <|
  chk (inAllowed m "token_endpoint_auth_signing_alg" (mget p0 "token_endpoint_auth_signing_alg")) <|
  let p1 := setDefault p0 "application_type" (.a (.str "web"))
  chk (if mget p1 "application_type" == .a (.str "web") || mget p1 "application_type" == .a (.str "native") then none else some (.invalid "application_type")) <|
  chk (checkUriOrList p1 "sector_identifier_uri") <|
  chk (inAllowed m "subject_type" (mget p1 "subject_type")) <|
  chk (if isStrNone (mget p1 "id_token_signed_response_alg") then some (.invalid "id_token_signed_response_alg") else none) <|
  let p2 := setDefault p1 "id_token_signed_response_alg" (.a (.str "RS256"))
  chk (inAllowed m "id_token_signed_response_alg" (mget p2 "id_token_signed_response_alg")) <|
  chk (inAllowed m "id_token_encrypted_response_alg" (mget p2 "id_token_encrypted_response_alg")) <|
  let r3 := encPair p2 "id_token_encrypted_response_alg" "id_token_encrypted_response_enc"
  chk r3.1 <|
  chk (inAllowed m "id_token_encrypted_response_enc" (mget r3.2 "id_token_encrypted_response_enc")) <|
  chk (inAllowed m "userinfo_signed_response_alg" (mget r3.2 "userinfo_signed_response_alg")) <|
  chk (inAllowed m "userinfo_encrypted_response_alg" (mget r3.2 "userinfo_encrypted_response_alg")) <|
  let r4 := encPair r3.2 "userinfo_encrypted_response_alg" "userinfo_encrypted_response_enc"
  chk r4.1 <|
  chk (inAllowed m "userinfo_encrypted_response_enc" (mget r4.2 "userinfo_encrypted_response_enc")) <|
  chk (if !(mget r4.2 "default_max_age").isNull && !isNumber (mget r4.2 "default_max_age") then some (.invalid "default_max_age") else none) <|
  let p5 := setDefault r4.2 "require_auth_time" (.a (.bool false))
  chk (if !(mget p5 "require_auth_time").isNull && !isBool (mget p5 "require_auth_time") then some (.invalid "require_auth_time") else none) <|
  chk (acrCheck m (mget p5 "default_acr_values")) <|
  chk (checkUriOrList p5 "initiate_login_uri") <|
  chk (inAllowed m "request_object_signing_alg" (mget p5 "request_object_signing_alg")) <|
  chk (inAllowed m "request_object_encryption_alg" (mget p5 "request_object_encryption_alg")) <|
  let r6 := encPair p5 "request_object_encryption_alg" "request_object_encryption_enc"
  chk r6.1 <|
  chk (inAllowed m "request_object_encryption_enc" (mget r6.2 "request_object_encryption_enc")) <|
  chk (checkUriOrList r6.2 "request_uris") <|
  .ok (r6.2.filter fun kv => oidcRegistered.contains kv.1)

end Model.Registration
