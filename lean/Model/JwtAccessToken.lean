import Model.Claims
import Model.Resource
/-
  C10 (second half) — RFC 9068 JWT access tokens at the resource server
  (authlib/oauth2/rfc9068/token_validator.py: authenticate_token / validate_token,
  rfc9068/claims.py: JWTAccessTokenClaims.validate).  The JWS layer (signature, alg allow-list, kid
  lookup) is C01/C02's subject: here it is the verdict `decoded` (none = jwt.decode raised).
-/
namespace Model.JwtAccessToken
open Model Model.Claims

def essential : Opt := { essential := true }

/-- `claims_options` of `authenticate_token` -/
def options (issuer rs : String) : Options :=
  [("iss", { essential := true, validate := some (.eq (.atom (.str issuer))) }),
   ("exp", essential), ("aud", { essential := true, value := some (.atom (.str rs)) }),
   ("sub", essential), ("client_id", essential), ("iat", essential), ("jti", essential),
   ("auth_time", {}), ("acr", {}), ("amr", {}), ("scope", {}), ("groups", {}), ("roles", {}), ("entitlements", {})]

def lowerAscii (s : String) : String := String.ofList (s.toList.map fun c => if 'A' ≤ c && c ≤ 'Z' then Char.ofNat (c.toNat + 32) else c)

/-- `validate_typ` on `header.get("typ")` -/
def typErr (typ : Val) : Option Err :=
  if typ.truthy && !(match typ with
      | .atom (.str s) => ["at+jwt", "application/at+jwt"].contains (lowerAscii s)
      | _ => false) then some (.invalid "typ") else none

def isNumber : Val → Bool       -- isinstance(v, (int, float)) — a bool is an int
  | .atom (.int _) => true | .atom (.flt _) => true | .atom (.bool _) => true | _ => false

def isStrOrList : Val → Bool
  | .atom (.str _) => true | .list _ => true | _ => false

def isNone : Val → Bool
  | .atom .none => true | _ => false

/-- the validators that run after `JWTClaims.validate` -/
def extraChecks (c : Claims) : Option Err :=
  let atm := getD c "auth_time"
  if atm.truthy && !isNumber atm then some (.invalid "auth_time")
  else
    let amr := getD c "amr"
    if amr.truthy && !(match amr with | .list _ => true | _ => false) then some (.invalid "amr")
    else (["scope", "groups", "roles", "entitlements"].filter fun k => !isNone (getD c k) && !isStrOrList (getD c k)).head?.map Err.invalid

/-- `JWTAccessTokenClaims.validate()` (leeway 0) -/
def validate (typ : Val) (c : Claims) (issuer rs : String) (now : Int) : Option Err :=
  orElse' (typErr typ) fun _ =>
  orElse' (Claims.validate c (options issuer rs) now 0) fun _ => extraChecks c

/-- the words of a scope-like claim: `scope_to_list` (strings split on whitespace, arrays as they are) -/
def wordsOf : Val → List Text.Str
  | .atom (.str s) => Text.splitWs s.toList
  | .list xs => xs.filterMap fun a => match a with | .str s => some s.toList | _ => none
  | _ => []

/-- `scope_insufficient(token_value, required)` -/
def insufficient (tokenVal : Val) (required : Option (List Text.Str)) : Bool :=
  match required with
  | none => false
  | some [] => false
  | some alts =>
    let tw := wordsOf tokenVal
    if tw.isEmpty then true
    else !(alts.any fun alt => (Text.splitWs alt).all fun w => tw.contains w)

structure Required where
  scopes : Option (List Text.Str) := none
  groups : Option (List Text.Str) := none
  roles : Option (List Text.Str) := none
  entitlements : Option (List Text.Str) := none

/-- `authenticate_token` + `validate_token`: `decoded = none` when jwt.decode raised (bad signature,
    alg, kid, malformed) -/
def serve (decoded : Option (Val × Claims)) (issuer rs : String) (now : Int) (r : Required) : Resource.Decision :=
  match decoded with
  | none => .invalidToken
  | some (typ, c) =>
    match validate typ c issuer rs now with
    | some _ => .invalidToken
    | none =>
      if insufficient (getD c "scope") r.scopes then .insufficientScope
      else if insufficient (getD c "groups") r.groups then .invalidToken
      else if insufficient (getD c "roles") r.roles then .invalidToken
      else if insufficient (getD c "entitlements") r.entitlements then .invalidToken
      else .served

end Model.JwtAccessToken
