import Model.Bytes
/-
  SHA-1, SHA-256, SHA-384, SHA-512 and HMAC, executable in Lean (FIPS 180-4 / RFC 2104).
  Nothing is proved about their internals; theorems are stated over an arbitrary hash and
  instantiated. Validated against hashlib/hmac on every check run (harness/selftest).
-/
namespace Model.Sha
open Model

def u32be (w : UInt32) : Bytes :=
  [(w >>> 24).toUInt8, (w >>> 16).toUInt8, (w >>> 8).toUInt8, w.toUInt8]

def u64be (w : UInt64) : Bytes :=
  [(w >>> 56).toUInt8, (w >>> 48).toUInt8, (w >>> 40).toUInt8, (w >>> 32).toUInt8,
   (w >>> 24).toUInt8, (w >>> 16).toUInt8, (w >>> 8).toUInt8, w.toUInt8]

def rotr32 (x : UInt32) (n : UInt32) : UInt32 := (x >>> n) ||| (x <<< (32 - n))
def rotl32 (x : UInt32) (n : UInt32) : UInt32 := (x <<< n) ||| (x >>> (32 - n))
def rotr64 (x : UInt64) (n : UInt64) : UInt64 := (x >>> n) ||| (x <<< (64 - n))

/-- message padding: 0x80, zeros, length in bits on `lenBytes` bytes; block size `blk` -/
def padMsg (blk lenBytes : Nat) (m : Bytes) : Bytes :=
  let l := m.length
  let k := (blk - ((l + 1 + lenBytes) % blk)) % blk
  m ++ [0x80] ++ List.replicate k 0 ++ natBE lenBytes (l * 8)

def chunks (n : Nat) (fuel : Nat) (l : Bytes) : List Bytes :=
  match fuel with
  | 0 => []
  | fuel + 1 => if l.isEmpty then [] else l.take n :: chunks n fuel (l.drop n)

def word32 (b : Bytes) : UInt32 :=
  b.foldl (fun acc x => (acc <<< 8) ||| x.toUInt32) 0
def word64 (b : Bytes) : UInt64 :=
  b.foldl (fun acc x => (acc <<< 8) ||| x.toUInt64) 0

def words32 (blk : Bytes) : Array UInt32 := ((chunks 4 16 blk).map word32).toArray
def words64 (blk : Bytes) : Array UInt64 := ((chunks 8 16 blk).map word64).toArray

/-! ### SHA-1 -/
def sha1Block (h : Array UInt32) (blk : Bytes) : Array UInt32 := Id.run do
  let mut w := words32 blk
  for i in [16:80] do
    w := w.push (rotl32 (w[i-3]! ^^^ w[i-8]! ^^^ w[i-14]! ^^^ w[i-16]!) 1)
  let mut a := h[0]!; let mut b := h[1]!; let mut c := h[2]!; let mut d := h[3]!; let mut e := h[4]!
  for i in [0:80] do
    let (f, k) :=
      if i < 20 then ((b &&& c) ||| ((~~~ b) &&& d), (0x5A827999 : UInt32))
      else if i < 40 then (b ^^^ c ^^^ d, 0x6ED9EBA1)
      else if i < 60 then ((b &&& c) ||| (b &&& d) ||| (c &&& d), 0x8F1BBCDC)
      else (b ^^^ c ^^^ d, 0xCA62C1D6)
    let t := rotl32 a 5 + f + e + k + w[i]!
    e := d; d := c; c := rotl32 b 30; b := a; a := t
  return #[h[0]! + a, h[1]! + b, h[2]! + c, h[3]! + d, h[4]! + e]

def sha1 (m : Bytes) : Bytes :=
  let p := padMsg 64 8 m
  let h := (chunks 64 (p.length / 64 + 1) p).foldl sha1Block
    #[0x67452301, 0xEFCDAB89, 0x98BADCFE, 0x10325476, 0xC3D2E1F0]
  h.toList.flatMap u32be

/-! ### SHA-256 -/
def k256 : Array UInt32 := #[
  0x428a2f98,0x71374491,0xb5c0fbcf,0xe9b5dba5,0x3956c25b,0x59f111f1,0x923f82a4,0xab1c5ed5,
  0xd807aa98,0x12835b01,0x243185be,0x550c7dc3,0x72be5d74,0x80deb1fe,0x9bdc06a7,0xc19bf174,
  0xe49b69c1,0xefbe4786,0x0fc19dc6,0x240ca1cc,0x2de92c6f,0x4a7484aa,0x5cb0a9dc,0x76f988da,
  0x983e5152,0xa831c66d,0xb00327c8,0xbf597fc7,0xc6e00bf3,0xd5a79147,0x06ca6351,0x14292967,
  0x27b70a85,0x2e1b2138,0x4d2c6dfc,0x53380d13,0x650a7354,0x766a0abb,0x81c2c92e,0x92722c85,
  0xa2bfe8a1,0xa81a664b,0xc24b8b70,0xc76c51a3,0xd192e819,0xd6990624,0xf40e3585,0x106aa070,
  0x19a4c116,0x1e376c08,0x2748774c,0x34b0bcb5,0x391c0cb3,0x4ed8aa4a,0x5b9cca4f,0x682e6ff3,
  0x748f82ee,0x78a5636f,0x84c87814,0x8cc70208,0x90befffa,0xa4506ceb,0xbef9a3f7,0xc67178f2]

def sha256Block (h : Array UInt32) (blk : Bytes) : Array UInt32 := Id.run do
  let mut w := words32 blk
  for i in [16:64] do
    let x := w[i-15]!; let y := w[i-2]!
    let s0 := rotr32 x 7 ^^^ rotr32 x 18 ^^^ (x >>> 3)
    let s1 := rotr32 y 17 ^^^ rotr32 y 19 ^^^ (y >>> 10)
    w := w.push (w[i-16]! + s0 + w[i-7]! + s1)
  let mut a := h[0]!; let mut b := h[1]!; let mut c := h[2]!; let mut d := h[3]!
  let mut e := h[4]!; let mut f := h[5]!; let mut g := h[6]!; let mut hh := h[7]!
  for i in [0:64] do
    let s1 := rotr32 e 6 ^^^ rotr32 e 11 ^^^ rotr32 e 25
    let ch := (e &&& f) ^^^ ((~~~ e) &&& g)
    let t1 := hh + s1 + ch + k256[i]! + w[i]!
    let s0 := rotr32 a 2 ^^^ rotr32 a 13 ^^^ rotr32 a 22
    let mj := (a &&& b) ^^^ (a &&& c) ^^^ (b &&& c)
    let t2 := s0 + mj
    hh := g; g := f; f := e; e := d + t1; d := c; c := b; b := a; a := t1 + t2
  return #[h[0]! + a, h[1]! + b, h[2]! + c, h[3]! + d, h[4]! + e, h[5]! + f, h[6]! + g, h[7]! + hh]

def sha256 (m : Bytes) : Bytes :=
  let p := padMsg 64 8 m
  let h := (chunks 64 (p.length / 64 + 1) p).foldl sha256Block
    #[0x6a09e667,0xbb67ae85,0x3c6ef372,0xa54ff53a,0x510e527f,0x9b05688c,0x1f83d9ab,0x5be0cd19]
  h.toList.flatMap u32be

/-! ### SHA-512 / SHA-384 -/
def k512 : Array UInt64 := #[
  0x428a2f98d728ae22,0x7137449123ef65cd,0xb5c0fbcfec4d3b2f,0xe9b5dba58189dbbc,0x3956c25bf348b538,
  0x59f111f1b605d019,0x923f82a4af194f9b,0xab1c5ed5da6d8118,0xd807aa98a3030242,0x12835b0145706fbe,
  0x243185be4ee4b28c,0x550c7dc3d5ffb4e2,0x72be5d74f27b896f,0x80deb1fe3b1696b1,0x9bdc06a725c71235,
  0xc19bf174cf692694,0xe49b69c19ef14ad2,0xefbe4786384f25e3,0x0fc19dc68b8cd5b5,0x240ca1cc77ac9c65,
  0x2de92c6f592b0275,0x4a7484aa6ea6e483,0x5cb0a9dcbd41fbd4,0x76f988da831153b5,0x983e5152ee66dfab,
  0xa831c66d2db43210,0xb00327c898fb213f,0xbf597fc7beef0ee4,0xc6e00bf33da88fc2,0xd5a79147930aa725,
  0x06ca6351e003826f,0x142929670a0e6e70,0x27b70a8546d22ffc,0x2e1b21385c26c926,0x4d2c6dfc5ac42aed,
  0x53380d139d95b3df,0x650a73548baf63de,0x766a0abb3c77b2a8,0x81c2c92e47edaee6,0x92722c851482353b,
  0xa2bfe8a14cf10364,0xa81a664bbc423001,0xc24b8b70d0f89791,0xc76c51a30654be30,0xd192e819d6ef5218,
  0xd69906245565a910,0xf40e35855771202a,0x106aa07032bbd1b8,0x19a4c116b8d2d0c8,0x1e376c085141ab53,
  0x2748774cdf8eeb99,0x34b0bcb5e19b48a8,0x391c0cb3c5c95a63,0x4ed8aa4ae3418acb,0x5b9cca4f7763e373,
  0x682e6ff3d6b2b8a3,0x748f82ee5defb2fc,0x78a5636f43172f60,0x84c87814a1f0ab72,0x8cc702081a6439ec,
  0x90befffa23631e28,0xa4506cebde82bde9,0xbef9a3f7b2c67915,0xc67178f2e372532b,0xca273eceea26619c,
  0xd186b8c721c0c207,0xeada7dd6cde0eb1e,0xf57d4f7fee6ed178,0x06f067aa72176fba,0x0a637dc5a2c898a6,
  0x113f9804bef90dae,0x1b710b35131c471b,0x28db77f523047d84,0x32caab7b40c72493,0x3c9ebe0a15c9bebc,
  0x431d67c49c100d4c,0x4cc5d4becb3e42b6,0x597f299cfc657e2a,0x5fcb6fab3ad6faec,0x6c44198c4a475817]

def sha512Block (h : Array UInt64) (blk : Bytes) : Array UInt64 := Id.run do
  let mut w := words64 blk
  for i in [16:80] do
    let x := w[i-15]!; let y := w[i-2]!
    let s0 := rotr64 x 1 ^^^ rotr64 x 8 ^^^ (x >>> 7)
    let s1 := rotr64 y 19 ^^^ rotr64 y 61 ^^^ (y >>> 6)
    w := w.push (w[i-16]! + s0 + w[i-7]! + s1)
  let mut a := h[0]!; let mut b := h[1]!; let mut c := h[2]!; let mut d := h[3]!
  let mut e := h[4]!; let mut f := h[5]!; let mut g := h[6]!; let mut hh := h[7]!
  for i in [0:80] do
    let s1 := rotr64 e 14 ^^^ rotr64 e 18 ^^^ rotr64 e 41
    let ch := (e &&& f) ^^^ ((~~~ e) &&& g)
    let t1 := hh + s1 + ch + k512[i]! + w[i]!
    let s0 := rotr64 a 28 ^^^ rotr64 a 34 ^^^ rotr64 a 39
    let mj := (a &&& b) ^^^ (a &&& c) ^^^ (b &&& c)
    let t2 := s0 + mj
    hh := g; g := f; f := e; e := d + t1; d := c; c := b; b := a; a := t1 + t2
  return #[h[0]! + a, h[1]! + b, h[2]! + c, h[3]! + d, h[4]! + e, h[5]! + f, h[6]! + g, h[7]! + hh]

def sha512With (iv : Array UInt64) (m : Bytes) : Array UInt64 :=
  let p := padMsg 128 16 m
  (chunks 128 (p.length / 128 + 1) p).foldl sha512Block iv

def sha512 (m : Bytes) : Bytes :=
  (sha512With #[0x6a09e667f3bcc908,0xbb67ae8584caa73b,0x3c6ef372fe94f82b,0xa54ff53a5f1d36f1,
    0x510e527fade682d1,0x9b05688c2b3e6c1f,0x1f83d9abfb41bd6b,0x5be0cd19137e2179] m).toList.flatMap u64be

def sha384 (m : Bytes) : Bytes :=
  ((sha512With #[0xcbbb9d5dc1059ed8,0x629a292a367cd507,0x9159015a3070dd17,0x152fecd8f70e5939,
    0x67332667ffc00b31,0x8eb44a8768581511,0xdb0c2e0d64f98fa7,0x47b5481dbefa4fa4] m).toList.flatMap u64be).take 48

/-- HMAC (RFC 2104) over an arbitrary hash `H` with block size `blk` -/
def hmac (H : Bytes → Bytes) (blk : Nat) (key msg : Bytes) : Bytes :=
  let k0 := if key.length > blk then H key else key
  let k := k0 ++ List.replicate (blk - k0.length) 0
  H (k.map (· ^^^ 0x5c) ++ H (k.map (· ^^^ 0x36) ++ msg))

def hmacSha1 := hmac sha1 64
def hmacSha256 := hmac sha256 64
def hmacSha384 := hmac sha384 128
def hmacSha512 := hmac sha512 128

end Model.Sha
