import Model.Claims
/-
  C07 (JWT assertion method) — RFC 7523 client authentication
  (authlib/oauth2/rfc7523/client.py: JWTBearerClientAssertion.__call__, process_assertion_claims,
  create_claims_options, create_resolve_key_func, authenticate_client) over the documented
  integrator's jti store ("jti:{sub}-{jti}" set-on-check).  The JWS layer is abstract: `sigOk` says
  whether the signature verifies under the key of the client the `sub` claim names (C01 / C02).
-/
namespace Model.ClientAssertion
open Model Model.Claims

structure Client where
  id : String
  jwtMethod : Bool            -- check_endpoint_auth_method("client_assertion_jwt", "token")
  deriving Repr, DecidableEq

structure St where
  used : List String          -- keys the integrator recorded
  clients : List Client
  deriving Repr

structure Req where
  typeOk : Bool               -- client_assertion_type is the JWT bearer type and client_assertion is non-empty
  claims : Option Claims      -- the payload, none when the token is not a decodable JWS with an object payload
  sigOk : Bool
  now : Int                   -- quarters of a second
  deriving Repr

inductive Verdict
  | authenticated (id : String)
  | invalidClient
  | notAttempted              -- the method returns None: the request carries no assertion of this type
  deriving Repr, DecidableEq

def leeway : Int := 240        -- 60 s

def strOf : Val → Option String
  | .atom (.str s) => some s
  | _ => none

/-- the integrator's key for (sub, jti) -/
def jtiKey (c : Claims) : Option String :=
  match strOf (getD c "sub"), strOf (getD c "jti") with
  | some s, some j => some ("jti:" ++ s ++ "-" ++ j)
  | _, _ => none

/-- `create_claims_options()` with the jti validator's answer for this request filled in -/
def options (tokenUrl : String) (fresh : Bool) : Options :=
  [("iss", { essential := true, validate := some (.eqClaim "sub") }), ("sub", { essential := true }),
   ("aud", { essential := true, value := some (.atom (.str tokenUrl)) }), ("exp", { essential := true }),
   ("jti", { essential := true, validate := some (.const fresh) })]

def step (tokenUrl : String) (s : St) (r : Req) : St × Verdict :=
  if !r.typeOk then (s, .notAttempted)
  else match r.claims with
    | none => (s, .invalidClient)
    | some c =>
      match strOf (getD c "sub") with
      | none => (s, .invalidClient)
      | some sub =>
        match s.clients.find? fun cl => cl.id == sub with
        | none => (s, .invalidClient)                    -- "The client does not exist on this server."
        | some cl =>
          if !r.sigOk then (s, .invalidClient)
          else match jtiKey c with
            | none =>
              -- no usable jti: validation fails at the essential check (or on its type) before the store is touched
              (s, .invalidClient)
            | some key =>
              match Claims.validate c (options tokenUrl (!s.used.contains key)) r.now leeway with
              | some _ => (s, .invalidClient)
              | none =>
                if cl.jwtMethod then ({ s with used := key :: s.used }, .authenticated cl.id)
                else ({ s with used := key :: s.used }, .invalidClient)

def run (tokenUrl : String) (s : St) (rs : List Req) : St := rs.foldl (fun st r => (step tokenUrl st r).1) s

end Model.ClientAssertion
