import Model.ClientEmit
/-
  C07 — client authentication (rfc6749/authenticate_client.py: ClientAuthentication.authenticate,
  authenticate_client_secret_basic / _post / authenticate_none, _validate_client;
  rfc6749/util.py: extract_basic_authorization; errors.py: InvalidClientError.get_headers).
  Reference client: check_client_secret = equality, check_endpoint_auth_method(m, ep) =
  (ep = "token" → registered method = m).
-/
namespace Model.ClientAuth
open Model Model.ClientEmit

structure Client where
  id : Bytes
  secret : Bytes
  method : String          -- token_endpoint_auth_method
  deriving Repr, DecidableEq

structure Req where
  authorization : Option Bytes      -- Authorization header value (latin-1 octets)
  formClientId : Option Bytes       -- request.form
  formSecret : Option Bytes
  dataClientId : Option Bytes       -- request.data = args updated by form
  dataSecret : Option Bytes
  deriving Repr

inductive Outcome
  | authenticated (clientId : Bytes) (method : String)
  | invalidClient (status : Nat) (wwwAuthenticate : Bool)
  deriving Repr, DecidableEq

def truthyB (o : Option Bytes) : Bool := match o with | some b => !b.isEmpty | none => false

def find (clients : List Client) (id : Bytes) : Option Client := clients.find? fun c => c.id == id

/-- result of one method function: a client, nothing, or a raised InvalidClientError(status) -/
inductive Try
  | client (c : Client)
  | nothing
  | raised (status : Nat)

def tryBasic (clients : List Client) (r : Req) : Try :=
  match extractBasic r.authorization with
  | (some id, some secret) =>
    if id.isEmpty || secret.isEmpty then .nothing
    else match find clients id with
      | none => .raised 401
      | some c => if c.secret == secret then .client c else .nothing
  | _ => .nothing

def tryPost (clients : List Client) (r : Req) : Try :=
  if truthyB r.formClientId && truthyB r.formSecret then
    match find clients (r.formClientId.getD []) with
    | none => .raised 400
    | some c => if c.secret == r.formSecret.getD [] then .client c else .nothing
  else .nothing

def tryNone (clients : List Client) (r : Req) : Try :=
  if truthyB r.dataClientId && !truthyB r.dataSecret then
    match find clients (r.dataClientId.getD []) with
    | none => .raised 400
    | some c => .client c
  else .nothing

def tryMethod (clients : List Client) (r : Req) : String → Try
  | "client_secret_basic" => tryBasic clients r
  | "client_secret_post" => tryPost clients r
  | "none" => tryNone clients r
  | _ => .nothing

/-- reference `client.check_endpoint_auth_method(method, endpoint)` -/
def methodPermitted (c : Client) (m endpoint : String) : Bool :=
  if endpoint == "token" then c.method == m else true

/-- `ClientAuthentication.authenticate(request, methods, endpoint)`; `all` = the endpoint's full list -/
def authLoop (clients : List Client) (r : Req) (endpoint : String) (all : List String) : List String → Outcome
  | [] => if all.contains "client_secret_basic" then .invalidClient 401 true else .invalidClient 400 false
  | m :: ms =>
    match tryMethod clients r m with
    | .raised st => .invalidClient st (st == 401)
    | .client c => if methodPermitted c m endpoint then .authenticated c.id m else authLoop clients r endpoint all ms
    | .nothing => authLoop clients r endpoint all ms

def authenticate (clients : List Client) (r : Req) (methods : List String) (endpoint : String) : Outcome :=
  authLoop clients r endpoint methods methods

end Model.ClientAuth
