/-
  C17 — N coroutines sharing one AsyncOAuth2Client whose access token has expired
  (integrations/httpx_client/oauth2_client.py: request/stream → ensure_active_token under
  `_token_refresh_lock` → refresh_token / fetch_token → parse_response_token → update_token →
  OAuth2Auth.auth_flow reading the current token when the request is sent).

  A transition system.  The scheduler may run any enabled coroutine step at any time; the token
  endpoint's answer to each refresh request is the environment's choice.  Between two `await`s a
  coroutine runs atomically (asyncio), which is the granularity of the actions below.  The lock may
  be handed to ANY waiter (anyio hands off FIFO: the model is more general).
  Token versions: 0 is the expired token; every successful refresh installs the next version, which
  is live (hypothesis FreshTokenLive: the new token is not itself within `leeway` of expiry).
-/
namespace Model.AsyncRefresh

inductive Pc
  | start        -- called request()/stream(), not yet inside the lock
  | inLock       -- holds the lock, about to test is_expired
  | awaitResp    -- holds the lock, refresh request sent, awaiting the token endpoint
  | awaitCb      -- holds the lock, new token installed, awaiting update_token
  | ready        -- left ensure_active_token, about to send the protected request
  | done         -- protected request sent
  | failed       -- the refresh failed; the error went to this caller
  deriving Repr, DecidableEq

inductive Outcome | success | oauthError | serverError
  deriving Repr, DecidableEq

structure St where
  pc : Nat → Pc
  lock : Option Nat
  tokenVer : Nat
  hasCb : Bool                      -- an update_token callback is configured
  refreshSent : Nat
  refreshOk : Nat
  failures : Nat
  callbacks : Nat
  sentBy : Nat → Option Nat         -- the token version carried by coroutine i's protected request

inductive Act
  | acquire (i : Nat)
  | check (i : Nat)
  | respond (i : Nat) (o : Outcome)
  | cbDone (i : Nat)
  | send (i : Nat)
  deriving Repr, DecidableEq

def setPc (s : St) (i : Nat) (p : Pc) : Nat → Pc := fun j => if j = i then p else s.pc j

/-- one scheduler step; `none` = the action is not enabled -/
def step (s : St) : Act → Option St
  | .acquire i =>
    if s.pc i = .start ∧ s.lock = none then some { s with pc := setPc s i .inLock, lock := some i } else none
  | .check i =>
    if s.pc i = .inLock then
      if s.tokenVer = 0 then some { s with pc := setPc s i .awaitResp, refreshSent := s.refreshSent + 1 }
      else some { s with pc := setPc s i .ready, lock := none }
    else none
  | .respond i o =>
    if s.pc i = .awaitResp then
      match o with
      | .success =>
        if s.hasCb then some { s with pc := setPc s i .awaitCb, tokenVer := s.tokenVer + 1, refreshOk := s.refreshOk + 1 }
        else some { s with pc := setPc s i .ready, lock := none, tokenVer := s.tokenVer + 1, refreshOk := s.refreshOk + 1 }
      | _ => some { s with pc := setPc s i .failed, lock := none, failures := s.failures + 1 }
    else none
  | .cbDone i =>
    if s.pc i = .awaitCb then some { s with pc := setPc s i .ready, lock := none, callbacks := s.callbacks + 1 } else none
  | .send i =>
    if s.pc i = .ready then some { s with pc := setPc s i .done, sentBy := fun j => if j = i then some s.tokenVer else s.sentBy j }
    else none

def init (hasCb : Bool) : St :=
  { pc := fun _ => .start, lock := none, tokenVer := 0, hasCb := hasCb, refreshSent := 0, refreshOk := 0, failures := 0,
    callbacks := 0, sentBy := fun _ => none }

/-- a schedule: disabled actions are skipped -/
def run (s : St) (acts : List Act) : St := acts.foldl (fun st a => (step st a).getD st) s

/-! ### replaying an observed event trace of the real client -/

inductive Ev
  | refreshSent (i : Nat)                    -- coroutine i's refresh / re-fetch request reached the transport
  | refreshResp (i : Nat) (o : Outcome)      -- the token endpoint's answer was delivered to it
  | cbEnd (i : Nat)                          -- its update_token callback returned
  | protectedSent (i : Nat) (v : Nat)        -- its protected request reached the transport carrying version v
  deriving Repr

/-- the internal (unobservable) steps coroutine i may need before the observed event, then the event -/
def replayEv (s : St) : Ev → Option St
  | .refreshSent i =>
    let s1 := (step s (.acquire i)).getD s
    if s1.tokenVer = 0 then step s1 (.check i) else none
  | .refreshResp i o => step s (.respond i o)
  | .cbEnd i => step s (.cbDone i)
  | .protectedSent i v =>
    let s1 := (step s (.acquire i)).getD s
    let s2 := if s1.tokenVer = 0 then s1 else (step s1 (.check i)).getD s1
    if s2.tokenVer = v then step s2 (.send i) else none

/-- replay; the index of the first event that is not an enabled continuation, if any -/
def replay (s : St) (evs : List Ev) : St × Option Nat :=
  let rec go (s : St) (k : Nat) : List Ev → St × Option Nat
    | [] => (s, none)
    | e :: r => match replayEv s e with
      | some s' => go s' (k + 1) r
      | none => (s, some k)
  go s 0 evs

end Model.AsyncRefresh
