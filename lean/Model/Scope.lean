import Model.Text
/-
  C08 — scope handling of the token generators and the grants that feed them.
  Mirrors: rfc6749/util.py (scope_to_list, list_to_scope),
  AuthorizationServer.validate_requested_scope, BearerTokenGenerator.generate,
  rfc7523 JWTBearerTokenGenerator.generate/get_token_data, rfc9068 generator,
  RefreshTokenGrant._validate_token_scope / issue_token, and the reference client's
  get_allowed_scope (sqla_oauth2.OAuth2ClientMixin).
-/
namespace Model.Scope
open Model.Text

/-- Python truthiness of an `Optional[str]` -/
def truthy : Option Str → Bool
  | none => false
  | some s => !s.isEmpty

/-- `scope_to_list` on a `str` -/
def scopeToList (s : Str) : List Str := splitWs s

/-- `list_to_scope` on a list -/
def listToScope (l : List Str) : Str := joinSp l

/-- `AuthorizationServer.validate_requested_scope`: `true` = accepted, `false` = invalid_scope.
    `supported = none` or `[]` means "not configured" (falsy). -/
def validateRequested (supported : Option (List Str)) (scope : Option Str) : Bool :=
  match scope, supported with
  | some s, some sup =>
    if !s.isEmpty && !sup.isEmpty then (scopeToList s).all (fun w => sup.contains w) else true
  | _, _ => true

/-- reference `client.get_allowed_scope(scope)`; `allowed` is the client's registered scope string -/
def clientAllowed (allowed : Str) (scope : Str) : Str :=
  if scope.isEmpty then []
  else listToScope ((scopeToList scope).filter (fun w => (splitWs allowed).contains w))

/-- `TokenGenerator.get_allowed_scope(client, scope)` -/
def getAllowedScope (allowed : Str) (scope : Option Str) : Option Str :=
  if truthy scope then scope.map (clientAllowed allowed) else scope

/-- which generator produces the token -/
inductive Gen | bearer | jwt7523 | jwt9068
  deriving DecidableEq, Repr

/-- (scope member of the token response, scope claim embedded in a JWT access token).
    `none` = member absent; embedded `none` = no JWT / claim is null. -/
structure Issued where
  response : Option Str
  embedded : Option Str
  deriving DecidableEq, Repr

def generate (g : Gen) (allowed : Str) (scope : Option Str) : Issued :=
  let sc := getAllowedScope allowed scope
  let resp := if truthy sc then sc else none
  match g with
  | .bearer => { response := resp, embedded := none }
  | .jwt7523 => { response := resp, embedded := getAllowedScope allowed sc }
  | .jwt9068 => { response := resp, embedded := sc }

/-- grants by where their scope comes from -/
inductive Grant
  | direct        -- implicit, password, client_credentials, jwt-bearer: `request.scope`, validated now
  | stored        -- authorization_code, device_code: scope validated and stored at the first step
  | refresh       -- refresh_token
  deriving DecidableEq, Repr

inductive Outcome
  | invalidScope
  | issued (i : Issued)
  deriving DecidableEq, Repr

/-- `RefreshTokenGrant._validate_token_scope`: `true` = passes -/
def validateTokenScope (requested original : Option Str) : Bool :=
  if !truthy requested then true
  else if !truthy original then false
  else match requested, original with
    | some r, some o => (scopeToList r).all (fun w => (scopeToList o).contains w)
    | _, _ => false

/-- the scope part of a token request, end to end -/
def tokenRequest (gr : Grant) (g : Gen) (supported : Option (List Str)) (allowed : Str)
    (requested original : Option Str) : Outcome :=
  match gr with
  | .direct | .stored =>
    if validateRequested supported requested then .issued (generate g allowed requested)
    else .invalidScope
  | .refresh =>
    if validateTokenScope requested original then
      .issued (generate g allowed (if truthy requested then requested else original))
    else .invalidScope

/-- word set of an optional scope string -/
def words : Option Str → List Str
  | none => []
  | some s => scopeToList s

end Model.Scope
