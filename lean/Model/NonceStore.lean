/-
  C12 — the replay guard of the OAuth 1 provider as the Flask / Django integrations ship it:
  `base_server.validate_timestamp_and_nonce` (refuse timestamps older than `window`; nothing bounds the
  future) on top of a nonce store with a finite memory (`flask_oauth1/cache.py:create_exists_nonce_func`,
  `django_oauth1/nonce.py:exists_nonce_in_cache`: the key is remembered for `ttl` seconds, and it is
  (re)written on every check).

  A request is abstracted to (key, ts): key = nonce-timestamp-client[-token] as the hooks build it, ts the
  oauth_timestamp. The signature and the client lookup happen before this step and are C11 / C12's other models.
-/
namespace Model.NonceStore

structure Cfg where
  window : Nat        -- EXPIRY_TIME (300)
  ttl : Nat           -- the hooks' `expires` (86400)
  deriving Repr

structure Entry where
  key : String
  exp : Int           -- the instant at which the cache forgets the key
  deriving Repr, DecidableEq

abbrev Store := List Entry

def live (now : Int) (s : Store) (k : String) : Bool := s.any fun e => e.key == k && now < e.exp

inductive Verdict | accepted | staleTimestamp | replay
  deriving Repr, DecidableEq

/-- one request at clock `now`: the timestamp check comes first and does not touch the store; `exists_nonce`
    reads the key and then writes it again (so a refused replay also renews the memory) -/
def step (c : Cfg) (s : Store) (now ts : Int) (k : String) : Store × Verdict :=
  if now - ts > c.window then (s, .staleTimestamp)
  else if live now s k then (⟨k, now + c.ttl⟩ :: s.filter (fun e => e.key != k), .replay)
  else (⟨k, now + c.ttl⟩ :: s.filter (fun e => e.key != k), .accepted)

structure Req where
  now : Int
  ts : Int
  key : String
  deriving Repr

def run (c : Cfg) : Store → List Req → Store × List Verdict
  | s, [] => (s, [])
  | s, r :: rs =>
    let (s', v) := step c s r.now r.ts r.key
    let (s'', vs) := run c s' rs
    (s'', v :: vs)

end Model.NonceStore
