/-
  Byte strings and small generic helpers. Core Lean only.
-/
namespace Model

abbrev Bytes := List UInt8

/-- Transport lemma: a per-byte fact can be closed by `decide +kernel` over `Fin 256`. -/
theorem forall_u8 {P : UInt8 → Prop} (h : ∀ i : Fin 256, P (UInt8.ofNat i.val)) : ∀ b, P b := by
  intro b
  have := h ⟨b.toNat, UInt8.toNat_lt b⟩
  simpa using this

def hexDigit (n : Nat) : Char :=
  if n < 10 then Char.ofNat (48 + n) else Char.ofNat (87 + n)

def toHex (b : Bytes) : String :=
  String.ofList (b.flatMap fun x => [hexDigit (x.toNat / 16), hexDigit (x.toNat % 16)])

def hexVal (c : Char) : Option Nat :=
  if '0' ≤ c ∧ c ≤ '9' then some (c.toNat - 48)
  else if 'a' ≤ c ∧ c ≤ 'f' then some (c.toNat - 87)
  else if 'A' ≤ c ∧ c ≤ 'F' then some (c.toNat - 55)
  else none

def ofHexAux : List Char → Option Bytes
  | [] => some []
  | [_] => none
  | a :: b :: rest => do
    let x ← hexVal a
    let y ← hexVal b
    let r ← ofHexAux rest
    pure (UInt8.ofNat (x * 16 + y) :: r)

def ofHex (s : String) : Option Bytes := ofHexAux s.toList

def strBytes (s : String) : Bytes := s.toUTF8.toList

/-- big-endian natural number of a byte string (`int.from_bytes(b, "big")`) -/
def beNat (b : Bytes) : Nat := b.foldl (fun acc x => acc * 256 + x.toNat) 0

/-- big-endian encoding on exactly `len` bytes (low `len` bytes of `n`) -/
def natBE : Nat → Nat → Bytes
  | 0, _ => []
  | len + 1, n => natBE len (n / 256) ++ [UInt8.ofNat (n % 256)]

@[simp] theorem natBE_length (len n : Nat) : (natBE len n).length = len := by
  induction len generalizing n with
  | zero => simp [natBE]
  | succ k ih => simp [natBE, ih]

end Model
