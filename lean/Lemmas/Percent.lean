import Model.Percent
namespace Model.Percent
open Model

theorem hexVal_hexUp_fin : ∀ n : Fin 16, hexValB (hexUp n.val) = some n.val := by decide +kernel
theorem hexVal_hexUp {n : Nat} (h : n < 16) : hexValB (hexUp n) = some n := hexVal_hexUp_fin ⟨n, h⟩

theorem unquote_cons_ne {c : UInt8} (h : c ≠ 37) (t : Bytes) : unquote (c :: t) = c :: unquote t := by
  match t with
  | [] => simp [unquote]
  | [a] => simp [unquote]
  | a :: b :: r => simp [unquote, h]

theorem unquote_pct {n m : Nat} (hn : n < 16) (hm : m < 16) (t : Bytes) :
    unquote (37 :: hexUp n :: hexUp m :: t) = UInt8.ofNat (n * 16 + m) :: unquote t := by
  simp [unquote, hexVal_hexUp hn, hexVal_hexUp hm]

theorem alwaysSafe_ne_pct : ∀ c, alwaysSafe c = true → c ≠ 37 := by
  apply forall_u8; decide +kernel

theorem byte_split (c : UInt8) : UInt8.ofNat (c.toNat / 16 * 16 + c.toNat % 16) = c := by
  have : c.toNat / 16 * 16 + c.toNat % 16 = c.toNat := by omega
  rw [this]; simp

/-- `unquote(quote(b, safe)) = b` for every octet string, as long as `%` itself is not "safe". -/
theorem unquote_quote (safe : UInt8 → Bool) (hs : safe 37 = false) :
    ∀ b : Bytes, unquote (quote safe b) = b
  | [] => by simp [quote, unquote]
  | c :: rest => by
    have ih := unquote_quote safe hs rest
    have hc := UInt8.toNat_lt c
    simp only [quote]
    split
    · rename_i h
      have hne : c ≠ 37 := by
        intro e; subst e
        simp [hs] at h
        exact absurd h (by decide)
      rw [unquote_cons_ne hne, ih]
    · rw [unquote_pct (by omega) (by omega), ih, byte_split]

/-! ### quote_plus / unquote_plus -/

theorem quotePlus_no (x : UInt8) (hx : x = 43 ∨ x = 38 ∨ x = 61 ∨ x = 32) (hx' : alwaysSafe x = false)
    (hhex : ∀ n : Fin 16, hexUp n.val ≠ x) (h37 : x ≠ 37) (hp : x = 43 → False) :
    ∀ b : Bytes, x ∉ quotePlus b
  | [] => by simp [quotePlus]
  | c :: rest => by
    have ih := quotePlus_no x hx hx' hhex h37 hp rest
    have hc := UInt8.toNat_lt c
    simp only [quotePlus]
    split
    · simp only [List.mem_cons, not_or]; exact ⟨fun e => hp e, ih⟩
    · split
      · rename_i h2
        simp only [List.mem_cons, not_or]
        refine ⟨?_, ih⟩
        intro e; subst e; simp [hx'] at h2
      · simp only [List.mem_cons, not_or]
        exact ⟨h37, fun e => hhex ⟨c.toNat / 16, by omega⟩ e.symm,
               fun e => hhex ⟨c.toNat % 16, by omega⟩ e.symm, ih⟩

theorem amp_not_in_quotePlus (b : Bytes) : (38 : UInt8) ∉ quotePlus b :=
  quotePlus_no 38 (by simp) (by decide) (by decide +kernel) (by decide) (by decide) b

theorem eq_not_in_quotePlus (b : Bytes) : (61 : UInt8) ∉ quotePlus b :=
  quotePlus_no 61 (by simp) (by decide) (by decide +kernel) (by decide) (by decide) b

theorem unquotePlus_quotePlus : ∀ b : Bytes, unquotePlus (quotePlus b) = b
  | [] => by simp [quotePlus, unquotePlus, unquote]
  | c :: rest => by
    have ih := unquotePlus_quotePlus rest
    have hc := UInt8.toNat_lt c
    unfold unquotePlus at ih ⊢
    simp only [quotePlus]
    split
    · rename_i h; subst h
      simp only [List.map_cons, if_true]
      rw [unquote_cons_ne (by decide), ih]
    · split
      · rename_i h1 h2
        have hne := alwaysSafe_ne_pct c h2
        have h43 : c ≠ 43 := by intro e; subst e; exact absurd h2 (by decide)
        simp only [List.map_cons, h43, if_false]
        rw [unquote_cons_ne hne, ih]
      · have e1 : ∀ n : Fin 16, hexUp n.val ≠ 43 := by decide +kernel
        simp only [List.map_cons]
        have a1 := e1 ⟨c.toNat / 16, by omega⟩
        have a2 := e1 ⟨c.toNat % 16, by omega⟩
        simp only at a1 a2
        simp only [show (37 : UInt8) ≠ 43 by decide, a1, a2, if_false]
        rw [unquote_pct (by omega) (by omega), ih, byte_split]

/-! ### split / join -/

theorem splitOn_nosep (sep : UInt8) : ∀ b : Bytes, sep ∉ b → splitOn sep b = [b]
  | [], _ => by simp [splitOn]
  | c :: rest, h => by
    simp only [List.mem_cons, not_or] at h
    have ih := splitOn_nosep sep rest h.2
    have : c ≠ sep := fun e => h.1 e.symm
    simp [splitOn, this, ih]

theorem splitOn_append_sep (sep : UInt8) : ∀ (a t : Bytes), sep ∉ a →
    splitOn sep (a ++ sep :: t) = a :: splitOn sep t
  | [], t, _ => by simp [splitOn]
  | c :: rest, t, h => by
    simp only [List.mem_cons, not_or] at h
    have ih := splitOn_append_sep sep rest t h.2
    have : c ≠ sep := fun e => h.1 e.symm
    simp [splitOn, this, ih]

theorem splitOn_join (sep : UInt8) : ∀ xs : List Bytes, xs ≠ [] → (∀ x ∈ xs, sep ∉ x) →
    splitOn sep (join sep xs) = xs
  | [], h, _ => absurd rfl h
  | [x], _, hx => by simpa [join] using splitOn_nosep sep x (hx x (by simp))
  | x :: y :: rest, _, hx => by
    have ih := splitOn_join sep (y :: rest) (by simp) (fun z hz => hx z (by simp [hz]))
    simp only [join]
    rw [splitOn_append_sep sep x _ (hx x (by simp)), ih]

theorem split1_append (sep : UInt8) : ∀ (a t : Bytes), sep ∉ a →
    split1 sep (a ++ sep :: t) = (a, some t)
  | [], t, _ => by simp [split1]
  | c :: rest, t, h => by
    simp only [List.mem_cons, not_or] at h
    have ih := split1_append sep rest t h.2
    have : c ≠ sep := fun e => h.1 e.symm
    simp [split1, this, ih]

theorem filterMap_eq_map_of_some {α β} (f : α → Option β) (g : α → β) :
    ∀ l : List α, (∀ a ∈ l, f a = some (g a)) → l.filterMap f = l.map g
  | [], _ => rfl
  | a :: l, h => by
    simp [List.filterMap_cons, h a (by simp),
      filterMap_eq_map_of_some f g l (fun b hb => h b (by simp [hb]))]

/-- `parse_qsl(urlencode(ps), keep_blank_values=True) == ps` for every list of octet pairs. -/
theorem parseQsl_urlencode (ps : List (Bytes × Bytes)) : parseQsl (urlencode ps) = ps := by
  by_cases hps : ps = []
  · subst hps; simp [urlencode, join, parseQsl, splitOn]
  · unfold parseQsl urlencode
    rw [splitOn_join]
    · rw [filterMap_eq_map_of_some _ (fun nv => (unquotePlus (split1 61 nv).1,
          unquotePlus ((split1 61 nv).2.getD [])))]
      · rw [List.map_map]
        conv => rhs; rw [← List.map_id ps]
        apply List.map_congr_left
        intro ⟨k, v⟩ _
        simp only [Function.comp, id]
        rw [split1_append 61 _ _ (eq_not_in_quotePlus k)]
        simp [unquotePlus_quotePlus]
      · intro nv hnv
        simp only [List.mem_map] at hnv
        obtain ⟨⟨k, v⟩, _, rfl⟩ := hnv
        simp
    · simpa using hps
    · intro x hx
      simp only [List.mem_map] at hx
      obtain ⟨⟨k, v⟩, _, rfl⟩ := hx
      simp only [List.mem_append, List.mem_cons, not_or]
      exact ⟨amp_not_in_quotePlus k, by decide, amp_not_in_quotePlus v⟩

/-- Adding parameters never drops, reorders or alters the parameters already there. -/
theorem parseQsl_addParamsToQs (q : Bytes) (params : List (Bytes × Bytes)) :
    parseQsl (addParamsToQs q params) = parseQsl q ++ params := by
  unfold addParamsToQs; exact parseQsl_urlencode _

end Model.Percent
