import Model.Base64
namespace Model.Base64
open Model

theorem val_ch_fin (url : Bool) : ∀ n : Fin 64, val url (ch url n.val) = some n.val := by
  cases url <;> decide +kernel

theorem ch_ne_pad_fin (url : Bool) : ∀ n : Fin 64, ch url n.val ≠ 61 := by
  cases url <;> decide +kernel

theorem val_ch (url : Bool) {n : Nat} (h : n < 64) : val url (ch url n) = some n :=
  val_ch_fin url ⟨n, h⟩

theorem ch_ne_pad (url : Bool) {n : Nat} (h : n < 64) : ch url n ≠ 61 :=
  ch_ne_pad_fin url ⟨n, h⟩

/-- one data character at a time -/
theorem a2b_ch (url : Bool) {n : Nat} (h : n < 64) (rest : List UInt8) (quad left pads : Nat) :
    a2b url (ch url n :: rest) quad left pads =
      match quad with
      | 0 => a2b url rest 1 n 0
      | 1 => (a2b url rest 2 (n % 16) 0).map (UInt8.ofNat (left * 4 + n / 16) :: ·)
      | 2 => (a2b url rest 3 (n % 4) 0).map (UInt8.ofNat (left * 16 + n / 4) :: ·)
      | _ => (a2b url rest 0 0 0).map (UInt8.ofNat (left * 64 + n) :: ·) := by
  rcases quad with _ | _ | _ | q <;>
    (rw [a2b]; simp only [ch_ne_pad url h, if_false, val_ch url h])

theorem u8_eq_of_toNat {a : UInt8} {n : Nat} (h : n = a.toNat) : UInt8.ofNat n = a := by
  subst h; simp

theorem a2b_quad (url : Bool) (a b c : UInt8) (t : List UInt8) :
    a2b url (ch url (a.toNat / 4) :: ch url ((a.toNat % 4) * 16 + b.toNat / 16) ::
      ch url ((b.toNat % 16) * 4 + c.toNat / 64) :: ch url (c.toNat % 64) :: t) 0 0 0
    = (a2b url t 0 0 0).map (fun r => a :: b :: c :: r) := by
  have ha := UInt8.toNat_lt a
  have hb := UInt8.toNat_lt b
  have hc := UInt8.toNat_lt c
  rw [a2b_ch url (by omega), a2b_ch url (by omega)]
  simp only []
  rw [a2b_ch url (by omega)]
  simp only []
  rw [a2b_ch url (by omega)]
  simp only [Option.map_map]
  have e1 : UInt8.ofNat (a.toNat / 4 * 4 + (a.toNat % 4 * 16 + b.toNat / 16) / 16) = a :=
    u8_eq_of_toNat (by omega)
  have e2 : UInt8.ofNat ((a.toNat % 4 * 16 + b.toNat / 16) % 16 * 16 +
      (b.toNat % 16 * 4 + c.toNat / 64) / 4) = b := u8_eq_of_toNat (by omega)
  have e3 : UInt8.ofNat ((b.toNat % 16 * 4 + c.toNat / 64) % 4 * 64 + c.toNat % 64) = c :=
    u8_eq_of_toNat (by omega)
  rw [e1, e2, e3]
  rfl

theorem encode_length_mod (url : Bool) : ∀ b : Bytes,
    (encode url b).length = 4 * (b.length / 3) + (if b.length % 3 = 0 then 0 else b.length % 3 + 1)
  | [] => by simp [encode]
  | [a] => by simp [encode]
  | [a, b] => by simp [encode]
  | a :: b :: c :: rest => by
    have ih := encode_length_mod url rest
    simp only [encode, List.length_cons, ih]
    have : (rest.length + 1 + 1 + 1) / 3 = rest.length / 3 + 1 := by omega
    have h2 : (rest.length + 1 + 1 + 1) % 3 = rest.length % 3 := by omega
    rw [this, h2]; omega

theorem a2b_pad_encode (url : Bool) : ∀ b : Bytes, a2b url (pad (encode url b)) 0 0 0 = some b := by
  have key : ∀ (n : Nat) (b : Bytes), b.length = n →
      a2b url (pad (encode url b)) 0 0 0 = some b := by
    intro n
    induction n using Nat.strongRecOn with
    | _ n ih =>
      intro b hn
      match b, hn with
      | [], _ => simp [encode, pad, a2b]
      | [a], _ =>
        have ha := UInt8.toNat_lt a
        simp only [encode, pad, List.length_cons, List.length_nil]
        show a2b url (ch url (a.toNat / 4) :: ch url (a.toNat % 4 * 16) :: [61, 61]) 0 0 0 = _
        rw [a2b_ch url (by omega), a2b_ch url (by omega)]
        have e1 : UInt8.ofNat (a.toNat / 4 * 4 + a.toNat % 4 * 16 / 16) = a :=
          u8_eq_of_toNat (by omega)
        simp only [e1]
        simp [a2b]
      | [a, b], _ =>
        have ha := UInt8.toNat_lt a
        have hb := UInt8.toNat_lt b
        simp only [encode, pad, List.length_cons, List.length_nil]
        show a2b url (ch url (a.toNat / 4) :: ch url (a.toNat % 4 * 16 + b.toNat / 16) ::
          ch url (b.toNat % 16 * 4) :: [61]) 0 0 0 = _
        rw [a2b_ch url (by omega), a2b_ch url (by omega)]
        simp only []
        rw [a2b_ch url (by omega)]
        have e1 : UInt8.ofNat (a.toNat / 4 * 4 + (a.toNat % 4 * 16 + b.toNat / 16) / 16) = a :=
          u8_eq_of_toNat (by omega)
        have e2 : UInt8.ofNat ((a.toNat % 4 * 16 + b.toNat / 16) % 16 * 16 +
            (b.toNat % 16 * 4) / 4) = b := u8_eq_of_toNat (by omega)
        simp only [e1, e2]
        simp [a2b]
      | a :: b :: c :: rest, hn =>
        have hlen : rest.length < n := by simp at hn; omega
        have ihr := ih rest.length hlen rest rfl
        have hp : pad (encode url (a :: b :: c :: rest)) =
            ch url (a.toNat / 4) :: ch url ((a.toNat % 4) * 16 + b.toNat / 16) ::
            ch url ((b.toNat % 16) * 4 + c.toNat / 64) :: ch url (c.toNat % 64) ::
            pad (encode url rest) := by
          simp only [pad, encode, List.length_cons, List.cons_append]
          have : ((encode url rest).length + 1 + 1 + 1 + 1) % 4 = (encode url rest).length % 4 := by
            omega
          rw [this]
        rw [hp, a2b_quad, ihr]; rfl
  intro b
  exact key b.length b rfl

/-- Round trip through authlib's own pair of functions, for every byte string. -/
theorem urlDecode_urlEncode (b : Bytes) : urlDecode (urlEncode b) = some b := a2b_pad_encode true b

/-- `base64.b64decode(base64.b64encode(b)) == b` -/
theorem a2b_stdEncode (b : Bytes) : a2b false (stdEncode b) 0 0 0 = some b := a2b_pad_encode false b

end Model.Base64
