import Model.Text
namespace Model.Text

theorem splitWsAux_word (w cur : Str) (hw : ∀ c ∈ w, isPySpace c = false) (rest : Str) :
    splitWsAux (w ++ rest) cur = splitWsAux rest (cur ++ w) := by
  induction w generalizing cur with
  | nil => simp
  | cons c w ih =>
    have hc : isPySpace c = false := hw c (by simp)
    simp only [List.cons_append, splitWsAux, hc]
    rw [ih (cur ++ [c]) (fun d hd => hw d (by simp [hd]))]
    simp

/-- every word `split()` returns is non-empty and whitespace-free -/
theorem splitWsAux_isWord (s cur : Str) (hcur : ∀ c ∈ cur, isPySpace c = false) :
    ∀ w ∈ splitWsAux s cur, IsWord w := by
  induction s generalizing cur with
  | nil =>
    intro w hw
    simp only [splitWsAux] at hw
    split at hw
    · simp at hw
    · rename_i hne
      simp at hw; subst hw
      exact ⟨by simpa using hne, hcur⟩
  | cons c s ih =>
    intro w hw
    simp only [splitWsAux] at hw
    split at hw
    · split at hw
      · exact ih [] (by simp) w hw
      · rename_i hne
        simp only [List.mem_cons] at hw
        rcases hw with rfl | hw
        · exact ⟨by simpa using hne, hcur⟩
        · exact ih [] (by simp) w hw
    · rename_i hsp
      refine ih (cur ++ [c]) ?_ w hw
      intro d hd
      simp only [List.mem_append, List.mem_singleton] at hd
      rcases hd with hd | rfl
      · exact hcur d hd
      · simpa using hsp

theorem splitWs_isWord (s : Str) : ∀ w ∈ splitWs s, IsWord w :=
  splitWsAux_isWord s [] (by simp)

/-- `" ".join(ws).split() == ws` when `ws` are words -/
theorem splitWs_joinSp : ∀ ws : List Str, (∀ w ∈ ws, IsWord w) → splitWs (joinSp ws) = ws
  | [], _ => by simp [joinSp, splitWs, splitWsAux]
  | [w], h => by
    have hw := h w (by simp)
    unfold splitWs
    simp only [joinSp]
    have := splitWsAux_word w [] hw.2 []
    simp only [List.append_nil, List.nil_append] at this
    rw [this]
    simp [splitWsAux, hw.1]
  | w :: v :: rest, h => by
    have hw := h w (by simp)
    have ih := splitWs_joinSp (v :: rest) (fun x hx => h x (by simp [hx]))
    unfold splitWs at ih ⊢
    simp only [joinSp]
    rw [splitWsAux_word w [] hw.2]
    simp only [List.nil_append, splitWsAux]
    have : isPySpace ' ' = true := by decide
    simp [this, hw.1, ih]

end Model.Text
