import Generated.KeyFamily
/-
  C20 — "No value of an attacker-controlled … header … escapes as an unhandled exception": the header's `alg` is the
  attacker's, the verification / decryption key is the server's. `Generated/KeyFamily.lean` is the table of what
  `prepare_key` of every registered JWS and JWE algorithm does with a key of every kind (oct, RSA, EC, OKP Ed25519,
  OKP X25519) in every form (Key object, JWK dict, PEM text), observed on the current code by the extractor.
  Kernel-decided over the whole table.
-/
namespace Props.C20Keys
open Generated.KeyFamily

def outcome (r : String × String × String × String × String × String) : String := r.2.2.2.2.2

/-- every cell is success or the documented ValueError — never KeyError / TypeError / AttributeError (fix b1a3430) -/
theorem prepare_key_never_crashes : ∀ r ∈ prepareKey, outcome r = "ok" ∨ outcome r = "ValueError" := by
  decide +kernel

/-- the table is the full product it claims to be (non-vacuity): both registries, all five key kinds, 14 forms per algorithm -/
example : prepareKey.length = 14 * ((prepareKey.map (fun r => (r.1, r.2.1))).eraseDups.length) := by decide +kernel
example : (prepareKey.filter fun r => outcome r == "ok").length > 50 := by decide +kernel

end Props.C20Keys
