import Model.Registration
/-
  C18 (registration part) — what registration and update store:
  every URI of the stored metadata is absolute and fragment-free, the requested scope / grant types /
  response types / token-endpoint authentication method are supported by the server; registration
  without the initial access token and updates addressed to another client, carrying a wrong secret
  or a server-controlled member, are refused and leave the store untouched; and all of it is an
  invariant of the store over every history of requests.
-/
namespace Props.C18Reg
open Model.Metadata Model.Registration Model.Url

/-- the property of one stored member value -/
def GoodMember (sm : ServerMeta) (k : String) (v : V) : Prop :=
  (k ∈ uriMembers → v.truthy = true → ∃ s, v = .a (.str s) ∧ isValidUrl s.toList false = true) ∧
  (k = "redirect_uris" → v.truthy = true → ∃ xs, v = .l xs ∧ xs.all validUriStr = true) ∧
  (k = "grant_types" → ∀ g, sm.grantTypes = some g → v.truthy = true → subsetCheck g v "authorization_code" = some true) ∧
  (k = "response_types" → ∀ g, sm.responseTypes = some g → v.truthy = true → subsetCheck g v "code" = some true) ∧
  (k = "scope" → ∀ g, sm.scopes = some g → scopeCheck g v = some true) ∧
  (k = "token_endpoint_auth_method" → ∀ ms, sm.authMethods = some ms → ms ≠ [] → ∃ x, v = .a x ∧ mem x (ms.map A.str) = true)

/-- stored metadata: every member present is good -/
def Good (sm : ServerMeta) (md : Doc) : Prop := ∀ k v, md.lookup k = some v → GoodMember sm k v

theorem firstSome_none (l : List (Option Err)) (h : firstSome l = none) : ∀ x ∈ l, x = none := by
  induction l with
  | nil => intro x hx; cases hx
  | cons a r ih =>
    intro x hx
    cases a with
    | none =>
      simp only [firstSome] at h
      rcases List.mem_cons.mp hx with rfl | hx
      · rfl
      · exact ih h x hx
    | some v => simp [firstSome] at h

theorem lookup_filter_key (l : Doc) (p : String → Bool) (k : String) (hk : p k = true) :
    (l.filter fun kv => p kv.1).lookup k = l.lookup k := by
  induction l with
  | nil => rfl
  | cons a r ih =>
    obtain ⟨ak, av⟩ := a
    by_cases hp : p ak = true
    · simp only [List.filter_cons, hp, if_true, List.lookup_cons]
      by_cases he : (k == ak) = true <;> simp [he, ih]
    · simp only [List.filter_cons, hp, Bool.false_eq_true, if_false, List.lookup_cons]
      have : (k == ak) = false := by
        cases hke : (k == ak) with
        | false => rfl
        | true => have := (beq_iff_eq.mp hke); subst this; exact absurd hk hp
      simp [this, ih]

theorem lookup_filter_none (l : Doc) (p : String → Bool) (k : String) (hk : p k = false) :
    (l.filter fun kv => p kv.1).lookup k = none := by
  induction l with
  | nil => rfl
  | cons a r ih =>
    obtain ⟨ak, av⟩ := a
    by_cases hp : p ak = true
    · simp only [List.filter_cons, hp, if_true, List.lookup_cons]
      have : (k == ak) = false := by
        cases hke : (k == ak) with
        | false => rfl
        | true => have := (beq_iff_eq.mp hke); subst this; rw [hk] at hp; cases hp
      simp [this, ih]
    · simp [List.filter_cons, hp, ih]

theorem lookup_append (a b : Doc) (k : String) : (a ++ b).lookup k = (a.lookup k).orElse fun _ => b.lookup k := by
  induction a with
  | nil => simp
  | cons x r ih =>
    obtain ⟨xk, xv⟩ := x
    simp only [List.cons_append, List.lookup_cons]
    cases (k == xk) <;> simp [ih]

/-- what the validated payload (with the default authentication method filled in) holds under key k -/
def withDefault (p : Doc) : Doc :=
  if has p "token_endpoint_auth_method" then p else p ++ [("token_endpoint_auth_method", .a (.str "client_secret_basic"))]

theorem withDefault_lookup (p : Doc) (k : String) (hk : k ≠ "token_endpoint_auth_method") : (withDefault p).lookup k = p.lookup k := by
  unfold withDefault
  split
  · rfl
  · rw [lookup_append]
    have hb : (k == "token_endpoint_auth_method") = false := by simpa using hk
    cases p.lookup k with
    | some v => rfl
    | none => simp [List.lookup, hb]

theorem checkUri_none (p : Doc) (key : String) (h : checkUri p key = none) (ht : (mget p key).truthy = true) :
    ∃ s, mget p key = .a (.str s) ∧ isValidUrl s.toList false = true := by
  unfold checkUri at h
  simp only [ht, Bool.not_true, Bool.false_eq_true, if_false] at h
  cases hv : mget p key with
  | l xs => simp [hv] at h
  | a x =>
    cases x with
    | str s =>
      simp only [hv] at h
      by_cases hu : isValidUrl s.toList false = true
      · exact ⟨s, rfl, hu⟩
      · simp [hu] at h
    | _ => simp [hv] at h

theorem checkRedirectUris_none (p : Doc) (h : checkRedirectUris p = none) (ht : (mget p "redirect_uris").truthy = true) :
    ∃ xs, mget p "redirect_uris" = .l xs ∧ xs.all validUriStr = true := by
  unfold checkRedirectUris at h
  simp only [ht, Bool.not_true, Bool.false_eq_true, if_false] at h
  cases hv : mget p "redirect_uris" with
  | a x => simp [hv] at h
  | l xs =>
    simp only [hv] at h
    by_cases hu : xs.all validUriStr = true
    · exact ⟨xs, rfl, hu⟩
    · simp [hu] at h

theorem claimValue_none (c : Option Bool) (k : String) (h : claimValue c k = none) : c = some true := by
  cases c with
  | none => simp [claimValue] at h
  | some b => cases b <;> simp [claimValue] at h ⊢

/-- **what is stored is good**: a successful validation yields metadata whose every URI is absolute and
    fragment-free and whose scope / grant types / response types / auth method are supported -/
theorem validated_metadata_is_good (sm : ServerMeta) (p : Doc) (j : Option Bool) (md : Doc)
    (h : validateClaims sm p j = .ok md) : Good sm md := by
  unfold validateClaims at h
  simp only at h
  split at h
  · cases h
  · cases h
  · rename_i hnone
    injection h with h
    have hall := firstSome_none _ hnone
    simp only [List.mem_cons, List.mem_nil_iff, or_false, forall_eq_or_imp, forall_eq] at hall
    obtain ⟨hru, hauth, hgr, hrt, hcu, hlu, hsc, _, htu, hpu, hju, _⟩ := hall
    intro k v hkv
    rw [← h] at hkv
    have hreg : (Generated.Metadata.clientRegisteredClaims.contains k && k != "jwks") = true := by
      cases hc : (Generated.Metadata.clientRegisteredClaims.contains k && k != "jwks") with
      | true => rfl
      | false => rw [lookup_filter_none _ (fun k => Generated.Metadata.clientRegisteredClaims.contains k && k != "jwks") k hc] at hkv; cases hkv
    rw [lookup_filter_key _ (fun k => Generated.Metadata.clientRegisteredClaims.contains k && k != "jwks") k hreg] at hkv
    have hkv' : (withDefault p).lookup k = some v := hkv
    have hd : mget (withDefault p) k = v := by simp [mget, hkv']
    have hp : k ≠ "token_endpoint_auth_method" → mget p k = v := by
      intro hne; rw [withDefault_lookup p k hne] at hkv'; simp [mget, hkv']
    have huri : ∀ key ∈ uriMembers, checkUri p key = none := by
      intro key hk
      simp only [uriMembers, List.mem_cons, List.mem_nil_iff, or_false] at hk
      rcases hk with rfl | rfl | rfl | rfl | rfl <;> assumption
    refine ⟨?_, ?_, ?_, ?_, ?_, ?_⟩
    · intro hk ht
      have hne : k ≠ "token_endpoint_auth_method" := by
        intro e; rw [e] at hk; simp [uriMembers] at hk
      rw [← hp hne] at ht ⊢
      exact checkUri_none p k (huri k hk) ht
    · intro hk ht
      subst hk
      rw [← hp (by decide)] at ht ⊢
      exact checkRedirectUris_none p hru ht
    · intro hk g hg _
      subst hk
      rw [← hp (by decide)]
      rw [hg] at hgr
      exact claimValue_none _ _ hgr
    · intro hk g hg _
      subst hk
      rw [← hp (by decide)]
      rw [hg] at hrt
      exact claimValue_none _ _ hrt
    · intro hk g hg
      subst hk
      rw [← hp (by decide)]
      rw [hg] at hsc
      simp only at hsc
      cases hs : scopeCheck g (mget p "scope") with
      | none => simp [hs] at hsc
      | some b => cases b <;> simp [hs] at hsc ⊢
    · intro hk ms hms hne
      subst hk
      rw [hms] at hauth
      have hemp : ms.isEmpty = false := by cases ms <;> simp at hne ⊢
      simp only [hemp, Bool.false_eq_true, if_false] at hauth
      rw [← hd]
      cases hv : mget (withDefault p) "token_endpoint_auth_method" with
      | l xs =>
        have : mget (if has p "token_endpoint_auth_method" = true then p else p ++ [("token_endpoint_auth_method", V.a (A.str "client_secret_basic"))]) "token_endpoint_auth_method" = .l xs := hv
        simp [this] at hauth
      | a x =>
        have : mget (if has p "token_endpoint_auth_method" = true then p else p ++ [("token_endpoint_auth_method", V.a (A.str "client_secret_basic"))]) "token_endpoint_auth_method" = .a x := hv
        simp only [this] at hauth
        by_cases hm : mem x (ms.map A.str) = true
        · exact ⟨x, rfl, hm⟩
        · simp [hm] at hauth

/-! ### the endpoints -/

/-- every stored client's metadata is good -/
def StoreGood (sm : ServerMeta) (s : Store) : Prop := ∀ c ∈ s.clients, Good sm c.metadata

theorem merge_lookup (old new : Doc) (k : String) :
    (merge old new).lookup k = if has new k then new.lookup k else old.lookup k := by
  unfold merge
  rw [lookup_append]
  by_cases hn : has new k = true
  · rw [lookup_filter_none old (fun k => !(has new k)) k (by simp [hn])]
    simp [hn]
  · have hn' : has new k = false := by simpa using hn
    rw [lookup_filter_key old (fun k => !(has new k)) k (by simp [hn'])]
    simp only [hn', Bool.false_eq_true, if_false]
    have : new.lookup k = none := by
      unfold has at hn'
      cases hl : new.lookup k with
      | none => rfl
      | some v => simp [hl] at hn'
    cases old.lookup k <;> simp [this]

theorem merge_good (sm : ServerMeta) (old new : Doc) (ho : Good sm old) (hn : Good sm new) : Good sm (merge old new) := by
  intro k v hkv
  rw [merge_lookup] at hkv
  split at hkv
  · exact hn k v hkv
  · exact ho k v hkv

/-- **invariant**: registration and update only ever store good metadata -/
theorem step_preserves_storeGood (sm : ServerMeta) (s : Store) (op : Op) (h : StoreGood sm s) : StoreGood sm (step sm s op).1 := by
  cases op with
  | register tok payload j =>
    simp only [step]
    split
    · exact h
    · split
      · exact h
      · cases hv : validateClaims sm (payload.getD []) j with
        | invalid c => exact h
        | crash e => exact h
        | ok md =>
          intro c hc
          simp only [List.mem_append, List.mem_singleton] at hc
          rcases hc with hc | rfl
          · exact h c hc
          · exact validated_metadata_is_good sm _ j md hv
  | update tok payload j =>
    simp only [step]
    cases tok with
    | ofClient cid =>
      simp only
      cases hf : s.clients.find? (fun c => c.id == cid) with
      | none => exact h
      | some c0 =>
        simp only
        split
        · exact h
        · split
          · exact h
          · split
            · exact h
            · split
              · exact h
              · cases hv : validateClaims sm (payload.getD []) j with
                | invalid c => exact h
                | crash e => exact h
                | ok md =>
                  intro c hc
                  simp only [List.mem_map] at hc
                  obtain ⟨x, hx, rfl⟩ := hc
                  split
                  · exact merge_good sm _ _ (h x hx) (validated_metadata_is_good sm _ j md hv)
                  · exact h x hx
    | none => exact h
    | wrong => exact h
    | initial => exact h

def run (sm : ServerMeta) (s : Store) (ops : List Op) : Store := ops.foldl (fun st op => (step sm st op).1) s

/-- **every history**: whatever sequence of registration and update requests is made, every client in
    the store has only absolute, fragment-free URIs and supported scope / grants / response types / method -/
theorem store_good_over_every_history (sm : ServerMeta) (ops : List Op) : StoreGood sm (run sm ⟨[], 0⟩ ops) := by
  have : ∀ (l : List Op) (s : Store), StoreGood sm s → StoreGood sm (run sm s l) := by
    intro l
    induction l with
    | nil => intro s h; exact h
    | cons op r ih => intro s h; exact ih _ (step_preserves_storeGood sm s op h)
  exact this ops _ (by intro c hc; cases hc)

/-- registration without the valid initial access token is refused and stores nothing -/
theorem register_without_token_refused (sm : ServerMeta) (s : Store) (tok : Token) (p : Option Doc) (j : Option Bool)
    (h : tok ≠ .initial) : step sm s (.register tok p j) = (s, ⟨400, some "access_denied"⟩) := by
  simp [step, h]

/-- an update is refused, and the store untouched, when it is addressed to another client … -/
theorem update_other_client_refused (sm : ServerMeta) (s : Store) (cid : String) (c : Client) (p : Doc) (j : Option Bool)
    (hf : s.clients.find? (fun c => c.id == cid) = some c) (hother : mget p "client_id" ≠ .a (.str c.id)) :
    (step sm s (.update (.ofClient cid) (some p) j)).1 = s ∧ (step sm s (.update (.ofClient cid) (some p) j)).2.status = 400 := by
  simp only [step, hf, Option.getD_some]
  split
  · exact ⟨rfl, rfl⟩
  · split
    · exact ⟨rfl, rfl⟩
    · have : (mget p "client_id" != .a (.str c.id)) = true := by simpa using hother
      simp [this]

/-- … carries a wrong client_secret … -/
theorem update_wrong_secret_refused (sm : ServerMeta) (s : Store) (cid : String) (c : Client) (p : Doc) (j : Option Bool)
    (hf : s.clients.find? (fun c => c.id == cid) = some c) (hhas : has p "client_secret" = true)
    (hwrong : mget p "client_secret" ≠ .a (.str c.secret)) :
    (step sm s (.update (.ofClient cid) (some p) j)).1 = s ∧ (step sm s (.update (.ofClient cid) (some p) j)).2.status = 400 := by
  simp only [step, hf, Option.getD_some]
  split
  · exact ⟨rfl, rfl⟩
  · split
    · exact ⟨rfl, rfl⟩
    · split
      · exact ⟨rfl, rfl⟩
      · have : (mget p "client_secret" != .a (.str c.secret)) = true := by simpa using hwrong
        simp [hhas, this]

/-- … or any server-controlled member (the list is regenerated from the endpoint's source) -/
theorem update_server_member_refused (sm : ServerMeta) (s : Store) (cid : String) (c : Client) (p : Doc) (j : Option Bool)
    (hf : s.clients.find? (fun c => c.id == cid) = some c) (k : String) (hk : k ∈ Generated.Metadata.updateMustNotInclude)
    (hhas : has p k = true) :
    step sm s (.update (.ofClient cid) (some p) j) = (s, ⟨400, some "invalid_request"⟩) := by
  simp only [step, hf, Option.getD_some]
  have : Generated.Metadata.updateMustNotInclude.any (has p) = true := List.any_eq_true.mpr ⟨k, hk, hhas⟩
  simp [this]

theorem update_without_client_token_refused (sm : ServerMeta) (s : Store) (tok : Token) (p : Option Doc) (j : Option Bool)
    (h : ∀ cid, tok ≠ .ofClient cid) : step sm s (.update tok p j) = (s, ⟨400, some "access_denied"⟩) := by
  cases tok with
  | ofClient cid => exact absurd rfl (h cid)
  | _ => rfl

/-- the four members RFC 7592 reserves to the server are all in the regenerated list -/
theorem server_members_listed :
    ["registration_access_token", "registration_client_uri", "client_secret_expires_at", "client_id_issued_at"].all
      Generated.Metadata.updateMustNotInclude.contains = true := by decide +kernel

end Props.C18Reg

namespace Props.C18Reg
open Model.Metadata Model.Registration Model.Url

/-! ### OpenID Connect registration claims -/

theorem mget_setDefault_ne (p : Doc) (k k' : String) (v : V) (h : k' ≠ k) : mget (setDefault p k v) k' = mget p k' := by
  unfold setDefault
  split
  · rfl
  · unfold mget
    rw [lookup_append]
    have hb : (k' == k) = false := by simpa using h
    cases p.lookup k' <;> simp [List.lookup, hb]

theorem mget_setDefault_self (p : Doc) (k : String) (v : V) : mget (setDefault p k v) k = if has p k then mget p k else v := by
  unfold setDefault
  by_cases hh : has p k = true
  · simp [hh]
  · simp only [hh, Bool.false_eq_true, if_false]
    unfold mget
    rw [lookup_append]
    have : p.lookup k = none := by
      unfold has at hh
      cases hl : p.lookup k with
      | none => rfl
      | some x => simp [hl] at hh
    simp [this, List.lookup]

theorem mget_encPair_ne (p : Doc) (alg enc k : String) (h : k ≠ enc) : mget (encPair p alg enc).2 k = mget p k := by
  unfold encPair
  split
  · rfl
  · simp only
    split
    · exact mget_setDefault_ne p enc k _ h
    · rfl

/-- through all the defaults the class fills in, a member that is not itself defaulted keeps its value -/
theorem mget_final (p0 : Doc) (k : String)
    (h : k ∉ ["application_type", "id_token_signed_response_alg", "id_token_encrypted_response_enc", "userinfo_encrypted_response_enc",
              "require_auth_time", "request_object_encryption_enc"]) :
    mget (encPair (setDefault (encPair (encPair (setDefault (setDefault p0 "application_type" (.a (.str "web"))) "id_token_signed_response_alg" (.a (.str "RS256")))
      "id_token_encrypted_response_alg" "id_token_encrypted_response_enc").2 "userinfo_encrypted_response_alg" "userinfo_encrypted_response_enc").2
      "require_auth_time" (.a (.bool false))) "request_object_encryption_alg" "request_object_encryption_enc").2 k = mget p0 k := by
  simp only [List.mem_cons, List.mem_nil_iff, or_false, not_or] at h
  obtain ⟨h1, h2, h3, h4, h5, h6⟩ := h
  rw [mget_encPair_ne _ _ _ _ h6, mget_setDefault_ne _ _ _ _ h5, mget_encPair_ne _ _ _ _ h4, mget_encPair_ne _ _ _ _ h3,
      mget_setDefault_ne _ _ _ _ h2, mget_setDefault_ne _ _ _ _ h1]

theorem uriEntryErr_none_str (k s : String) (h : uriEntryErr k (.str s) = none) : s = "" ∨ isValidUrl s.toList true = true := by
  unfold uriEntryErr at h
  by_cases he : s = ""
  · exact Or.inl he
  · right
    have : (s != "") = true := by simpa using he
    simp only [A.truthy, this, Bool.not_true, Bool.false_eq_true, if_false] at h
    by_cases hv : isValidUrl s.toList true = true
    · exact hv
    · simp [hv] at h

theorem checkUriOrList_none (p : Doc) (k : String) (h : checkUriOrList p k = none) :
    (∀ s, mget p k = .a (.str s) → s = "" ∨ isValidUrl s.toList true = true) ∧
    (∀ xs, mget p k = .l xs → ∀ s, A.str s ∈ xs → s = "" ∨ isValidUrl s.toList true = true) := by
  unfold checkUriOrList at h
  constructor
  · intro s hs
    rw [hs] at h
    exact uriEntryErr_none_str k s h
  · intro xs hx s hmem
    rw [hx] at h
    simp only at h
    have hnil : xs.filterMap (uriEntryErr k) = [] := by
      cases hl : xs.filterMap (uriEntryErr k) with
      | nil => rfl
      | cons a r => rw [hl] at h; simp at h
    have := (List.filterMap_eq_nil_iff.mp hnil) (A.str s) hmem
    exact uriEntryErr_none_str k s this

theorem chk_ok {e : Option Err} {k : CR} {d : Doc} (h : chk e k = .ok d) : e = none ∧ k = .ok d := by
  unfold chk at h
  split at h
  · cases h
  · cases h
  · exact ⟨rfl, h⟩

theorem inAllowed_none (m : OidcMeta) (k : String) (v : V) (vals : List String) (h : inAllowed m k v = none)
    (hm : m.allowed.lookup k = some vals) (hne : vals ≠ []) (ht : v.truthy = true) : ∃ x, v = .a x ∧ mem x (vals.map A.str) = true := by
  unfold inAllowed at h
  simp only [hm] at h
  have he : vals.isEmpty = false := by cases vals <;> simp at hne ⊢
  simp only [he, ht, Bool.not_true, Bool.or_self, Bool.false_eq_true, if_false] at h
  cases v with
  | l xs => simp at h
  | a x =>
    simp only at h
    by_cases hmem : mem x (vals.map A.str) = true
    · exact ⟨x, rfl, hmem⟩
    · simp [hmem] at h

/-- **what the OpenID registration claims class stores**: application_type is web or native, the two
    signing algorithms are never "none", the subject type is one the provider supports, and every
    sector_identifier_uri / initiate_login_uri / request_uris entry is empty or an absolute URL -/
theorem oidc_validated_is_good (m : OidcMeta) (p0 stored : Doc) (h : validateOidcClaims m p0 = .ok stored) :
    (mget stored "application_type" = .a (.str "web") ∨ mget stored "application_type" = .a (.str "native")) ∧
    mget stored "token_endpoint_auth_signing_alg" ≠ .a (.str "none") ∧
    mget stored "id_token_signed_response_alg" ≠ .a (.str "none") ∧
    (∀ vals, m.allowed.lookup "subject_type" = some vals → vals ≠ [] → (mget stored "subject_type").truthy = true →
        ∃ x, mget stored "subject_type" = .a x ∧ mem x (vals.map A.str) = true) ∧
    (∀ k ∈ ["sector_identifier_uri", "initiate_login_uri", "request_uris"],
        (∀ s, mget stored k = .a (.str s) → s = "" ∨ isValidUrl s.toList true = true) ∧
        (∀ xs, mget stored k = .l xs → ∀ s, A.str s ∈ xs → s = "" ∨ isValidUrl s.toList true = true)) := by
  unfold validateOidcClaims at h
  obtain ⟨e1, h⟩ := chk_ok h
  obtain ⟨_, h⟩ := chk_ok h
  obtain ⟨e3, h⟩ := chk_ok h
  obtain ⟨e4, h⟩ := chk_ok h
  obtain ⟨e5, h⟩ := chk_ok h
  obtain ⟨e6, h⟩ := chk_ok h
  obtain ⟨_, h⟩ := chk_ok h
  obtain ⟨_, h⟩ := chk_ok h
  obtain ⟨_, h⟩ := chk_ok h
  obtain ⟨_, h⟩ := chk_ok h
  obtain ⟨_, h⟩ := chk_ok h
  obtain ⟨_, h⟩ := chk_ok h
  obtain ⟨_, h⟩ := chk_ok h
  obtain ⟨_, h⟩ := chk_ok h
  obtain ⟨_, h⟩ := chk_ok h
  obtain ⟨_, h⟩ := chk_ok h
  obtain ⟨_, h⟩ := chk_ok h
  obtain ⟨e18, h⟩ := chk_ok h
  obtain ⟨_, h⟩ := chk_ok h
  obtain ⟨_, h⟩ := chk_ok h
  obtain ⟨_, h⟩ := chk_ok h
  obtain ⟨_, h⟩ := chk_ok h
  obtain ⟨e23, h⟩ := chk_ok h
  injection h with h
  -- what the stored document holds under a registered key is what the final payload holds
  have hst : ∀ k, oidcRegistered.contains k = true → mget stored k = mget (encPair (setDefault (encPair (encPair (setDefault (setDefault p0 "application_type" (.a (.str "web")))
      "id_token_signed_response_alg" (.a (.str "RS256"))) "id_token_encrypted_response_alg" "id_token_encrypted_response_enc").2
      "userinfo_encrypted_response_alg" "userinfo_encrypted_response_enc").2 "require_auth_time" (.a (.bool false)))
      "request_object_encryption_alg" "request_object_encryption_enc").2 k := by
    intro k hk
    rw [← h]
    unfold mget
    rw [lookup_filter_key _ (fun k => oidcRegistered.contains k) k hk]
  have keep : ∀ k, oidcRegistered.contains k = true → k ∉ ["application_type", "id_token_signed_response_alg", "id_token_encrypted_response_enc",
      "userinfo_encrypted_response_enc", "require_auth_time", "request_object_encryption_enc"] → mget stored k = mget p0 k := by
    intro k hk hn
    rw [hst k hk, mget_final p0 k hn]
  have hat : mget stored "application_type" = mget (setDefault p0 "application_type" (.a (.str "web"))) "application_type" := by
    rw [hst _ (by decide), mget_encPair_ne _ _ _ _ (by decide), mget_setDefault_ne _ _ _ _ (by decide), mget_encPair_ne _ _ _ _ (by decide),
        mget_encPair_ne _ _ _ _ (by decide), mget_setDefault_ne _ _ _ _ (by decide)]
  have hid : mget stored "id_token_signed_response_alg" =
      mget (setDefault (setDefault p0 "application_type" (.a (.str "web"))) "id_token_signed_response_alg" (.a (.str "RS256"))) "id_token_signed_response_alg" := by
    rw [hst _ (by decide), mget_encPair_ne _ _ _ _ (by decide), mget_setDefault_ne _ _ _ _ (by decide), mget_encPair_ne _ _ _ _ (by decide),
        mget_encPair_ne _ _ _ _ (by decide)]
  refine ⟨?_, ?_, ?_, ?_, ?_⟩
  · rw [hat]
    by_cases hw : (mget (setDefault p0 "application_type" (.a (.str "web"))) "application_type" == .a (.str "web")) = true
    · exact Or.inl (by simpa using hw)
    · by_cases hn : (mget (setDefault p0 "application_type" (.a (.str "web"))) "application_type" == .a (.str "native")) = true
      · exact Or.inr (by simpa using hn)
      · simp [hw, hn] at e3
  · rw [keep _ (by decide) (by decide)]
    intro hnone
    simp [isStrNone, hnone] at e1
  · rw [hid]
    intro hnone
    -- the value was not "none" before the default was filled in, and the default is RS256
    rw [mget_setDefault_self] at hnone
    split at hnone
    · simp [isStrNone, hnone] at e6
    · simp at hnone
  · intro vals hm hne ht
    rw [keep _ (by decide) (by decide)] at ht ⊢
    rw [mget_setDefault_ne _ _ _ _ (by decide)] at e5
    exact inAllowed_none m _ _ vals e5 hm hne ht
  · intro k hk
    simp only [List.mem_cons, List.mem_nil_iff, or_false] at hk
    rcases hk with rfl | rfl | rfl
    · rw [keep _ (by decide) (by decide)]
      rw [show checkUriOrList (setDefault p0 "application_type" (.a (.str "web"))) "sector_identifier_uri" = checkUriOrList p0 "sector_identifier_uri" from by
        unfold checkUriOrList; rw [mget_setDefault_ne _ _ _ _ (by decide)]] at e4
      exact checkUriOrList_none p0 _ e4
    · rw [keep _ (by decide) (by decide)]
      have : checkUriOrList p0 "initiate_login_uri" = none := by
        have := e18
        unfold checkUriOrList at this ⊢
        rw [mget_setDefault_ne _ _ _ _ (by decide), mget_encPair_ne _ _ _ _ (by decide), mget_encPair_ne _ _ _ _ (by decide),
            mget_setDefault_ne _ _ _ _ (by decide), mget_setDefault_ne _ _ _ _ (by decide)] at this
        exact this
      exact checkUriOrList_none p0 _ this
    · rw [keep _ (by decide) (by decide)]
      have : checkUriOrList p0 "request_uris" = none := by
        have := e23
        unfold checkUriOrList at this ⊢
        rw [mget_final p0 _ (by decide)] at this
        exact this
      exact checkUriOrList_none p0 _ this

end Props.C18Reg
