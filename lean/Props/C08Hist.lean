import Props.C08Core
import Model.ScopeHistory
/-
  C08 over histories: "a refresh keeps or narrows the original token's scope" for EVERY chain of
  refreshes of every length, interleaved with other tokens' requests and with changes of the server's
  and the client's configuration; a refused request changes nothing.
-/
namespace Props.C08Hist
open Model.Text Model.Scope Model.ScopeHistory

/-- every word of a token's scope is a word of the token it was refreshed from, and of the first token of its chain -/
def Inv (ts : List Tok) : Prop :=
  ∀ t ∈ ts, ∀ w, w ∈ words t.scope → w ∈ words t.parent ∧ w ∈ words t.root

theorem revokeAt_mem (ts : List Tok) (n : Nat) (t : Tok) (h : t ∈ revokeAt ts n) :
    ∃ t' ∈ ts, t.scope = t'.scope ∧ t.root = t'.root ∧ t.parent = t'.parent := by
  induction ts generalizing n with
  | nil => simp [revokeAt] at h
  | cons a ts ih =>
    cases n with
    | zero =>
      simp only [revokeAt, List.mem_cons] at h
      rcases h with h | h
      · exact ⟨a, by simp, by simp [h], by simp [h], by simp [h]⟩
      · exact ⟨t, by simp [h], rfl, rfl, rfl⟩
    | succ n =>
      simp only [revokeAt, List.mem_cons] at h
      rcases h with h | h
      · exact ⟨a, by simp, by simp [h], by simp [h], by simp [h]⟩
      · obtain ⟨t', ht', e⟩ := ih n h
        exact ⟨t', by simp [ht'], e⟩

theorem inv_revokeAt {ts : List Tok} (h : Inv ts) (n : Nat) : Inv (revokeAt ts n) := by
  intro t ht w hw
  obtain ⟨t', ht', e1, e2, e3⟩ := revokeAt_mem ts n t ht
  rw [e1] at hw; rw [e3, e2]
  exact h t' ht' w hw

/-- one request keeps the invariant, whatever the configuration in force -/
theorem step_preserves_inv (ts : List Tok) (op : Op) (h : Inv ts) : Inv (step ts op).1 := by
  cases op with
  | issue cfg requested =>
    simp only [step]
    split
    · exact h
    · intro t ht w hw
      simp only [List.mem_append, List.mem_singleton] at ht
      rcases ht with ht | ht
      · exact h t ht w hw
      · subst ht; exact ⟨hw, hw⟩
  | refresh cfg idx requested =>
    simp only [step]
    split
    · exact h
    · rename_i t hget
      split
      · exact h
      · split
        · exact h
        · rename_i i hi
          intro t' ht' w hw
          simp only [List.mem_append, List.mem_singleton] at ht'
          rcases ht' with ht' | ht'
          · exact inv_revokeAt h idx t' ht' w hw
          · subst ht'
            have hsub := Props.C08.issued_subset .refresh cfg.gen cfg.supported cfg.allowed requested t.scope i hi w (Or.inl hw)
            have hp : w ∈ words t.scope := (hsub.2.2 rfl).1
            exact ⟨hp, (h t (List.mem_of_getElem? hget) w hp).2⟩

theorem run_preserves_inv (ops : List Op) : ∀ ts, Inv ts → Inv (run ts ops).1 := by
  induction ops with
  | nil => intro ts h; exact h
  | cons op ops ih =>
    intro ts h
    simp only [run]
    exact ih _ (step_preserves_inv ts op h)

/-- **History statement.** From an empty store, after ANY sequence of token and refresh requests — under
    configurations that may change from request to request — every token's scope is within the scope of
    the token it was refreshed from and within the scope of the first token of its chain. -/
theorem history_never_widens (ops : List Op) :
    ∀ t ∈ (run [] ops).1, ∀ w, w ∈ words t.scope → w ∈ words t.parent ∧ w ∈ words t.root :=
  run_preserves_inv ops [] (by intro t ht; cases ht)

/-- a refused request (invalid_scope, invalid_grant) leaves the store exactly as it was -/
theorem refused_changes_nothing (ts : List Tok) (op : Op)
    (h : (step ts op).2 = .invalidScope ∨ (step ts op).2 = .invalidGrant) : (step ts op).1 = ts := by
  cases op with
  | issue cfg requested =>
    cases hi : tokenRequest .direct cfg.gen cfg.supported cfg.allowed requested none with
    | invalidScope => simp [step, hi]
    | issued i => simp [step, hi] at h
  | refresh cfg idx requested =>
    cases hget : ts[idx]? with
    | none => simp [step, hget]
    | some t =>
      cases hl : t.live with
      | false => simp [step, hget, hl]
      | true =>
        cases hi : tokenRequest .refresh cfg.gen cfg.supported cfg.allowed requested t.scope with
        | invalidScope => simp [step, hget, hl, hi]
        | issued i => simp [step, hget, hl, hi] at h

/-- a refresh of a token that was already refreshed (or never existed) is invalid_grant -/
theorem refresh_of_dead_token_refused (ts : List Tok) (cfg : Cfg) (idx : Nat) (requested : Option Str)
    (h : ∀ t, ts[idx]? = some t → t.live = false) : (step ts (.refresh cfg idx requested)).2 = .invalidGrant := by
  cases hget : ts[idx]? with
  | none => simp [step, hget]
  | some t => simp [step, hget, h t hget]

theorem revokeAt_length : ∀ (l : List Tok) (n : Nat), (revokeAt l n).length = l.length := by
  intro l
  induction l with
  | nil => intro n; rfl
  | cons a l ih => intro n; cases n <;> simp [revokeAt, ih]

theorem revokeAt_dead : ∀ (l : List Tok) (n : Nat) (x : Tok), (revokeAt l n)[n]? = some x → x.live = false := by
  intro l
  induction l with
  | nil => intro n x hx; simp [revokeAt] at hx
  | cons a l ih =>
    intro n x hx
    cases n with
    | zero => simp [revokeAt] at hx; subst hx; rfl
    | succ n => simp [revokeAt] at hx; exact ih n x hx

/-- a successful refresh revokes the refreshed token: the same refresh token cannot be used again -/
theorem refresh_is_single_use (ts : List Tok) (cfg : Cfg) (idx : Nat) (requested : Option Str) (i : Issued)
    (h : (step ts (.refresh cfg idx requested)).2 = .issued i) :
    (step (step ts (.refresh cfg idx requested)).1 (.refresh cfg idx requested)).2 = .invalidGrant := by
  apply refresh_of_dead_token_refused
  intro t ht
  cases hget : ts[idx]? with
  | none => simp [step, hget] at h
  | some t0 =>
    cases hl : t0.live with
    | false => simp [step, hget, hl] at h
    | true =>
      cases hi : tokenRequest .refresh cfg.gen cfg.supported cfg.allowed requested t0.scope with
      | invalidScope => simp [step, hget, hl, hi] at h
      | issued i' =>
        simp only [step, hget, hl, hi, Bool.not_true, Bool.false_eq_true, if_false] at ht
        have hlt : idx < ts.length := by
          rcases Nat.lt_or_ge idx ts.length with hl' | hl'
          · exact hl'
          · simp [List.getElem?_eq_none hl'] at hget
        rw [List.getElem?_append_left (by rw [revokeAt_length ts idx]; exact hlt)] at ht
        exact revokeAt_dead ts idx t ht

/-- what a direct grant issues obeys the configuration in force at THAT request (earlier requests and
    earlier configurations cannot matter: `step` reads nothing but the store and the request) -/
theorem issue_within_current_config (ts : List Tok) (cfg : Cfg) (requested : Option Str) (i : Issued) (sup : List Str)
    (h : (step ts (.issue cfg requested)).2 = .issued i) (hs : cfg.supported = some sup) (hne : sup ≠ []) :
    ∀ w, (w ∈ words i.response ∨ w ∈ words i.embedded) → w ∈ sup ∧ w ∈ splitWs cfg.allowed ∧ w ∈ words requested := by
  cases hi : tokenRequest .direct cfg.gen cfg.supported cfg.allowed requested none with
  | invalidScope => simp [step, hi] at h
  | issued i' =>
    simp only [step, hi] at h
    injection h with h; subst h
    intro w hw
    have := Props.C08.issued_subset .direct cfg.gen cfg.supported cfg.allowed requested none i' hi w hw
    exact ⟨(this.2.1 (by decide)).2 sup hs hne, this.1, (this.2.1 (by decide)).1⟩

/-- non-vacuity: a chain root → narrower refresh → refused widening → refresh of the dead root -/
example :
    let cfg : Cfg := { gen := .bearer, supported := none, allowed := "a b c".toList }
    (run [] [.issue cfg (some "a b".toList), .refresh cfg 0 (some "a".toList), .refresh cfg 1 (some "a b".toList),
             .refresh cfg 0 none]).2 =
      [.issued { response := some "a b".toList, embedded := none }, .issued { response := some "a".toList, embedded := none },
       .invalidScope, .invalidGrant] := by decide

end Props.C08Hist
