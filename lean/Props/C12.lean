import Model.OAuth1Flow
import Props.C12Nonce
/-
  C12 — OAuth 1.0 provider over every history: token credentials only for a temporary credential
  issued to the same client, approved, with the right verifier and signature, not exchanged before
  (step-level + invariant); resources only for requests signed with the stored secrets; each
  (client, token, timestamp, nonce) accepted at most once; old timestamps refused; only configured
  signature methods.
-/
namespace Props.C12
open Model.OAuth1Flow

theorem find_mem {α} (p : α → Bool) : ∀ (l : List α) (a : α), l.find? p = some a → a ∈ l ∧ p a = true
  | [], a, h => by simp at h
  | x :: l, a, h => by
    simp only [List.find?_cons] at h
    split at h
    · rename_i hx; injection h with h; subst h; exact ⟨by simp, hx⟩
    · obtain ⟨h1, h2⟩ := find_mem p l a h
      exact ⟨by simp [h1], h2⟩

/-- the request's replay key, when the replay defence applies (everything but a bare PLAINTEXT request) -/
def keyOf (sg : Sig) (client : String) (token : Option Ref) : NonceKey :=
  (sg.nonce.getD "", sg.timestamp.getD "", client, token)

def Bare (sg : Sig) : Prop := sg.method = some "PLAINTEXT" ∧ truthy sg.timestamp = false ∧ truthy sg.nonce = false

theorem checkTsNonce_ok (s : Store) (sg : Sig) (client : String) (token : Option Ref) (ns : List NonceKey)
    (h : checkTsNonce s sg client token = .ok ns) :
    (Bare sg ∧ ns = s.nonces) ∨
    (keyOf sg client token ∉ s.nonces ∧ ns = keyOf sg client token :: s.nonces ∧
      ∃ ts, parseInt (sg.timestamp.getD "") = some ts ∧ 0 ≤ ts ∧ s.now - ts ≤ 300) := by
  unfold checkTsNonce at h
  by_cases hb : (sg.method == some "PLAINTEXT" && !truthy sg.timestamp && !truthy sg.nonce) = true
  · simp only [hb, if_true] at h
    injection h with h
    left
    simp only [Bool.and_eq_true, beq_iff_eq, Bool.not_eq_true'] at hb
    exact ⟨⟨hb.1.1, hb.1.2, hb.2⟩, h.symm⟩
  · simp only [hb, Bool.false_eq_true, if_false] at h
    right
    by_cases h1 : (!truthy sg.timestamp) = true
    · simp [h1] at h
    · simp only [h1, Bool.false_eq_true, if_false] at h
      cases hp : parseInt (sg.timestamp.getD "") with
      | none => simp [hp] at h
      | some ts =>
        simp only [hp] at h
        by_cases h2 : ts < 0
        · simp [h2] at h
        · simp only [h2, if_false] at h
          by_cases h3 : s.now - ts > 300
          · simp [h3] at h
          · simp only [h3, if_false] at h
            by_cases h4 : (!truthy sg.nonce) = true
            · simp [h4] at h
            · simp only [h4, Bool.false_eq_true, if_false] at h
              split at h
              · cases h
              · rename_i h5
                injection h with h
                refine ⟨by simpa [keyOf] using h5, h.symm, ts, rfl, by omega, by omega⟩

theorem checkTsNonce_sub (s : Store) (sg : Sig) (client : String) (token : Option Ref) (ns : List NonceKey)
    (h : checkTsNonce s sg client token = .ok ns) : ∀ k ∈ s.nonces, k ∈ ns := by
  rcases checkTsNonce_ok s sg client token ns h with ⟨_, rfl⟩ | ⟨_, rfl, _⟩
  · exact fun k hk => hk
  · exact fun k hk => List.mem_cons_of_mem _ hk

theorem checkSig_none (s : Store) (sg : Sig) (cs : String) (ts : Ref) (h : checkSig s sg cs ts = none) :
    (∃ m, sg.method = some m ∧ m ∈ s.methods) ∧ sg.signedWith = some (cs, ts) := by
  unfold checkSig at h
  split at h
  · cases h
  · rename_i h1
    split at h
    · cases h
    · rename_i h2
      cases hs : sg.signedWith with
      | none => simp [hs] at h
      | some used =>
        simp only [hs] at h
        split at h
        · rename_i h3
          refine ⟨?_, by rw [(by simpa using h3 : used = (cs, ts))]⟩
          cases hm : sg.method with
          | none => simp [truthy, hm] at h1
          | some m =>
            refine ⟨m, rfl, ?_⟩
            simpa [hm] using h2
        · cases h

theorem checkSig_some_status (s : Store) (sg : Sig) (cs : String) (ts : Ref) (e : Out) (h : checkSig s sg cs ts = some e) :
    e.status ≠ 200 := by
  unfold checkSig at h
  repeat' split at h
  all_goals first | (injection h with h; subst h; simp [err]) | cases h

theorem checkTsNonce_error_status (s : Store) (sg : Sig) (client : String) (token : Option Ref) (e : Out)
    (h : checkTsNonce s sg client token = .error e) : e.status ≠ 200 := by
  unfold checkTsNonce at h
  split at h
  · cases h
  · split at h
    · injection h with h; subst h; simp [err]
    · split at h
      · injection h with h; subst h; simp [err]
      · split at h
        · injection h with h; subst h; simp [err]
        · split at h
          · injection h with h; subst h; simp [err]
          · split at h
            · injection h with h; subst h; simp [err]
            · dsimp only at h
              split at h
              · injection h with h; subst h; simp [err]
              · cases h

/-- **Step-level statement for the token request.** -/
theorem exchangeCheck_ok_spec (s : Store) (client : Option String) (token verifier : Option Ref) (sg : Sig)
    (t : TempRec) (ns : List NonceKey) (h : exchangeCheck s client token verifier sg = .ok (t, ns)) :
    ∃ cid csecret v, client = some cid ∧ s.clients.lookup cid = some csecret ∧ token = some (.tmp t.n) ∧ t ∈ s.temps ∧
      t.client = cid ∧ t.verifier = some v ∧ verifier = some (.ver v) ∧
      sg.signedWith = some (csecret, .tsec (t.n + 1)) ∧ (∃ m, sg.method = some m ∧ m ∈ s.methods) ∧
      checkTsNonce s sg cid token = .ok ns := by
  unfold exchangeCheck at h
  by_cases h1 : (!truthy client) = true
  · simp [h1] at h
  · simp only [h1, Bool.false_eq_true, if_false] at h
    cases hc : client with
    | none => simp [truthy, hc] at h1
    | some cid =>
      simp only [hc, Option.getD_some] at h
      cases hl : s.clients.lookup cid with
      | none => simp [hl] at h
      | some csecret =>
        simp only [hl] at h
        by_cases h2 : (!truthyR token) = true
        · simp [h2] at h
        · simp only [h2, Bool.false_eq_true, if_false] at h
          cases token with
          | none => simp at h
          | some ref =>
            cases ref with
            | tmp n =>
              simp only at h
              cases hf : s.temps.find? (fun (t : TempRec) => t.n == n) with
              | none => simp [hf] at h
              | some t' =>
                simp only [hf] at h
                obtain ⟨hmem, hpn⟩ := find_mem _ s.temps t' hf
                by_cases h3 : (t'.client != cid) = true
                · simp [h3] at h
                · simp only [h3, Bool.false_eq_true, if_false] at h
                  by_cases h4 : (!truthyR verifier) = true
                  · simp [h4] at h
                  · simp only [h4, Bool.false_eq_true, if_false] at h
                    by_cases h5 : (t'.verifier.map Ref.ver != verifier) = true
                    · simp [h5] at h
                    · simp only [h5, Bool.false_eq_true, if_false] at h
                      cases hn : checkTsNonce s sg cid (some (.tmp n)) with
                      | error e => simp [hn] at h
                      | ok ns' =>
                        simp only [hn] at h
                        cases hsg : checkSig s sg csecret (.tsec (t'.n + 1)) with
                        | some e => simp [hsg] at h
                        | none =>
                          simp only [hsg] at h
                          injection h with h
                          simp only [Prod.mk.injEq] at h
                          obtain ⟨rfl, rfl⟩ := h
                          have hn' : t'.n = n := by simpa using hpn
                          have hv : t'.verifier.map Ref.ver = verifier := by simpa using h5
                          obtain ⟨hm, hsw⟩ := checkSig_none s sg csecret _ hsg
                          cases hver : t'.verifier with
                          | none =>
                            rw [hver] at hv
                            simp only [Option.map_none] at hv
                            rw [← hv] at h4
                            simp [truthyR] at h4
                          | some v =>
                            rw [hver] at hv
                            refine ⟨cid, csecret, v, rfl, hl, by rw [hn'], hmem, by simpa using h3, rfl, hv.symm, hsw, hm, ?_⟩
                            exact hn
            | _ => simp at h

/-! ### single use and provenance: an invariant over every history -/

structure Inv (s : Store) : Prop where
  temps_le : ∀ t ∈ s.temps, t.n ≤ s.fresh
  from_le : ∀ c ∈ s.creds, c.fromTemp ≤ s.fresh ∧ ∀ t ∈ s.temps, t.n ≠ c.fromTemp
  distinct : s.creds.Pairwise fun c1 c2 => c1.fromTemp ≠ c2.fromTemp

theorem step_preserves_inv (s : Store) (op : Op) (hs : Inv s) : Inv (step s op).1 := by
  cases op with
  | initiate client callback callbackValid sg =>
    simp only [step]
    repeat' split
    all_goals first
      | exact hs
      | exact ⟨hs.temps_le, hs.from_le, hs.distinct⟩
      | (constructor
         · intro t ht
           simp only [List.mem_append, List.mem_singleton] at ht
           rcases ht with ht | rfl
           · exact Nat.le_trans (hs.temps_le t ht) (Nat.le_add_right _ 2)
           · exact Nat.succ_le_succ (Nat.le_succ _)
         · intro c hc
           have := hs.from_le c hc
           refine ⟨Nat.le_trans this.1 (Nat.le_add_right _ 2), ?_⟩
           intro t ht
           simp only [List.mem_append, List.mem_singleton] at ht
           rcases ht with ht | rfl
           · exact this.2 t ht
           · simp only; omega
         · exact hs.distinct)
  | authorize token user =>
    simp only [step]
    repeat' split
    all_goals first
      | exact hs
      | (constructor
         · intro t ht
           obtain ⟨x, hx, rfl⟩ := List.mem_map.mp ht
           have := hs.temps_le x hx
           split <;> (simp only; omega)
         · intro c hc
           have := hs.from_le c hc
           refine ⟨Nat.le_succ_of_le this.1, ?_⟩
           intro t ht
           obtain ⟨x, hx, rfl⟩ := List.mem_map.mp ht
           have := this.2 x hx
           split <;> simpa using this
         · exact hs.distinct)
  | exchange client token verifier sg =>
    simp only [step]
    cases hc : exchangeCheck s client token verifier sg with
    | error en =>
      obtain ⟨e, ns⟩ := en
      simp only
      constructor
      · intro t ht
        split at ht
        · exact hs.temps_le t (List.mem_filter.mp ht).1
        · exact hs.temps_le t ht
      · intro c hc'
        have := hs.from_le c hc'
        refine ⟨this.1, ?_⟩
        intro t ht
        split at ht
        · exact this.2 t (List.mem_filter.mp ht).1
        · exact this.2 t ht
      · exact hs.distinct
    | ok v =>
      obtain ⟨t, ns⟩ := v
      simp only
      obtain ⟨_, _, _, _, _, _, hmem, _⟩ := exchangeCheck_ok_spec s client token verifier sg t ns hc
      constructor
      · intro x hx
        exact Nat.le_trans (hs.temps_le x (List.mem_filter.mp hx).1) (Nat.le_add_right _ 2)
      · intro c hc'
        simp only [List.mem_append, List.mem_singleton] at hc'
        rcases hc' with hc' | rfl
        · have := hs.from_le c hc'
          exact ⟨Nat.le_trans this.1 (Nat.le_add_right _ 2), fun x hx => this.2 x (List.mem_filter.mp hx).1⟩
        · refine ⟨Nat.le_trans (hs.temps_le t hmem) (Nat.le_add_right _ 2), ?_⟩
          intro x hx
          have := (List.mem_filter.mp hx).2
          simpa using this
      · show (s.creds ++ [_]).Pairwise _
        rw [List.pairwise_append]
        refine ⟨hs.distinct, by simp, ?_⟩
        intro c hc' c' hc''
        simp at hc''; subst hc''
        simp only
        intro e
        exact (hs.from_le c hc').2 t hmem e.symm
  | access client token sg =>
    simp only [step]
    repeat' split
    all_goals first
      | exact hs
      | exact ⟨hs.temps_le, hs.from_le, hs.distinct⟩
  | advance dt => exact ⟨hs.temps_le, hs.from_le, hs.distinct⟩

theorem run_preserves_inv (ops : List Op) : ∀ s, Inv s → Inv (run s ops) := by
  induction ops with
  | nil => intro s h; exact h
  | cons op ops ih => intro s h; exact ih _ (step_preserves_inv s op h)

/-- **Every temporary credential is exchanged at most once, over every history.** -/
theorem temp_single_use (s0 : Store) (h1 : s0.temps = []) (h2 : s0.creds = []) (ops : List Op) :
    (run s0 ops).creds.Pairwise (fun c1 c2 => c1.fromTemp ≠ c2.fromTemp) ∧
    ∀ c ∈ (run s0 ops).creds, ∀ t ∈ (run s0 ops).temps, t.n ≠ c.fromTemp := by
  have := run_preserves_inv ops s0 ⟨by simp [h1], by simp [h2], by simp [h2]⟩
  exact ⟨this.distinct, fun c hc => (this.from_le c hc).2⟩

theorem exchangeCheck_error (s : Store) (client : Option String) (token verifier : Option Ref) (sg : Sig)
    (e : Out) (ns : List NonceKey) (h : exchangeCheck s client token verifier sg = .error (e, ns)) :
    e.status ≠ 200 ∧ ∀ k ∈ s.nonces, k ∈ ns := by
  unfold exchangeCheck at h
  split at h
  · injection h with h; simp only [Prod.mk.injEq] at h; obtain ⟨rfl, rfl⟩ := h; exact ⟨by simp [err], fun k hk => hk⟩
  · split at h
    · injection h with h; simp only [Prod.mk.injEq] at h; obtain ⟨rfl, rfl⟩ := h; exact ⟨by simp [err], fun k hk => hk⟩
    · split at h
      · injection h with h; simp only [Prod.mk.injEq] at h; obtain ⟨rfl, rfl⟩ := h; exact ⟨by simp [err], fun k hk => hk⟩
      · split at h
        · injection h with h; simp only [Prod.mk.injEq] at h; obtain ⟨rfl, rfl⟩ := h; exact ⟨by simp [err], fun k hk => hk⟩
        · split at h
          · injection h with h; simp only [Prod.mk.injEq] at h; obtain ⟨rfl, rfl⟩ := h; exact ⟨by simp [err], fun k hk => hk⟩
          · split at h
            · injection h with h; simp only [Prod.mk.injEq] at h; obtain ⟨rfl, rfl⟩ := h; exact ⟨by simp [err], fun k hk => hk⟩
            · split at h
              · injection h with h; simp only [Prod.mk.injEq] at h; obtain ⟨rfl, rfl⟩ := h; exact ⟨by simp [err], fun k hk => hk⟩
              · split at h
                · rename_i e' hn
                  injection h with h; simp only [Prod.mk.injEq] at h; obtain ⟨rfl, rfl⟩ := h
                  exact ⟨checkTsNonce_error_status _ _ _ _ _ hn, fun k hk => hk⟩
                · rename_i nonces hn
                  split at h
                  · rename_i e' hsg
                    injection h with h; simp only [Prod.mk.injEq] at h; obtain ⟨rfl, rfl⟩ := h
                    exact ⟨checkSig_some_status _ _ _ _ _ hsg, checkTsNonce_sub _ _ _ _ _ hn⟩
                  · cases h

theorem exchangeCheck_error_status (s : Store) (client : Option String) (token verifier : Option Ref) (sg : Sig)
    (e : Out) (ns : List NonceKey) (h : exchangeCheck s client token verifier sg = .error (e, ns)) : e.status ≠ 200 :=
  (exchangeCheck_error s client token verifier sg e ns h).1

/-- token credentials are issued only when `exchangeCheck` passed; they are bound to the requesting
    client and to the user who approved, and the temporary credential is consumed -/
theorem exchange_ok_implies (s : Store) (client : Option String) (token verifier : Option Ref) (sg : Sig)
    (h : (step s (.exchange client token verifier sg)).2.status = 200) :
    ∃ t ns, exchangeCheck s client token verifier sg = .ok (t, ns) ∧
      (∀ x ∈ (step s (.exchange client token verifier sg)).1.temps, x.n ≠ t.n) ∧
      ∃ c ∈ (step s (.exchange client token verifier sg)).1.creds, c.fromTemp = t.n ∧ c.user = t.user ∧ some c.client = client := by
  simp only [step] at h ⊢
  cases hc : exchangeCheck s client token verifier sg with
  | error en =>
    obtain ⟨e, ns⟩ := en
    simp only [hc] at h
    exact absurd h (exchangeCheck_error_status s client token verifier sg e ns hc)
  | ok v =>
    obtain ⟨t, ns⟩ := v
    simp only [hc]
    obtain ⟨cid, _, _, hcl, _⟩ := exchangeCheck_ok_spec s client token verifier sg t ns hc
    refine ⟨t, ns, rfl, ?_, ?_⟩
    · intro x hx
      have := (List.mem_filter.mp hx).2
      simpa using this
    · refine ⟨_, List.mem_append_right _ (List.mem_singleton_self _), rfl, rfl, ?_⟩
      rw [hcl]; rfl

/-- a protected resource is served only to a request signed with the client's secret and the
    stored token credential's secret, with a configured method — and the request passed the replay
    check, whose result became the new nonce store -/
theorem access_ok_implies (s : Store) (client : Option String) (token : Option Ref) (sg : Sig)
    (h : (step s (.access client token sg)).2.status = 200) :
    ∃ cid csecret c ns, client = some cid ∧ s.clients.lookup cid = some csecret ∧ c ∈ s.creds ∧ c.client = cid ∧ token = some (.tok c.n) ∧
      sg.signedWith = some (csecret, .sec (c.n + 1)) ∧ (∃ m, sg.method = some m ∧ m ∈ s.methods) ∧
      checkTsNonce s sg cid token = .ok ns ∧ (step s (.access client token sg)).1.nonces = ns := by
  simp only [step] at h ⊢
  by_cases h1 : (!truthy client) = true
  · simp [h1, err] at h
  · simp only [h1, Bool.false_eq_true, if_false] at h ⊢
    cases hc : client with
    | none => simp [truthy, hc] at h1
    | some cid =>
      simp only [hc, Option.getD_some] at h ⊢
      cases hl : s.clients.lookup cid with
      | none => simp [hl, err] at h
      | some csecret =>
        simp only [hl] at h ⊢
        by_cases h2 : (!truthyR token) = true
        · simp [h2, err] at h
        · simp only [h2, Bool.false_eq_true, if_false] at h ⊢
          cases token with
          | none => simp [err] at h
          | some ref =>
            cases ref with
            | tok n =>
              simp only at h ⊢
              cases hf : s.creds.find? (fun (c : CredRec) => c.n == n && c.client == cid) with
              | none => simp [hf, err] at h
              | some c =>
                simp only [hf] at h ⊢
                obtain ⟨hmem, hpn⟩ := find_mem _ s.creds c hf
                have hpn' : c.n = n ∧ c.client = cid := by simpa using hpn
                have hcn : c.n = n := hpn'.1
                cases hn : checkTsNonce s sg cid (some (.tok n)) with
                | error e =>
                  simp only [hn] at h
                  exact absurd h (checkTsNonce_error_status _ _ _ _ _ hn)
                | ok ns =>
                  simp only [hn] at h ⊢
                  cases hsg : checkSig s sg csecret (.sec (c.n + 1)) with
                  | some e =>
                    simp only [hsg] at h
                    exact absurd h (checkSig_some_status _ _ _ _ _ hsg)
                  | none =>
                    obtain ⟨hm, hsw⟩ := checkSig_none s sg csecret _ hsg
                    exact ⟨cid, csecret, c, ns, rfl, hl, hmem, hpn'.2, by rw [hcn], hsw, hm, hn, rfl⟩
            | _ => simp [err] at h

/-! ### replay defence -/

theorem exchangeCheck_nonces (s : Store) (client : Option String) (token verifier : Option Ref) (sg : Sig) :
    (∀ t ns, exchangeCheck s client token verifier sg = .ok (t, ns) → ∀ k ∈ s.nonces, k ∈ ns) ∧
    (∀ e ns, exchangeCheck s client token verifier sg = .error (e, ns) → ∀ k ∈ s.nonces, k ∈ ns) := by
  constructor
  · intro t ns h k hk
    obtain ⟨cid, _, _, _, _, _, _, _, _, _, _, _, hn⟩ := exchangeCheck_ok_spec s client token verifier sg t ns h
    exact checkTsNonce_sub _ _ _ _ _ hn k hk
  · intro e ns h
    exact (exchangeCheck_error s client token verifier sg e ns h).2

/-- the nonce store only grows -/
theorem nonces_monotone (s : Store) (op : Op) : ∀ k ∈ s.nonces, k ∈ (step s op).1.nonces := by
  intro k hk
  cases op with
  | initiate client callback callbackValid sg =>
    simp only [step]
    split
    · exact hk
    · split
      · exact hk
      · split
        · exact hk
        · split
          · exact hk
          · split
            · exact hk
            · rename_i ns hn
              split <;> exact checkTsNonce_sub _ _ _ _ _ hn k hk
  | authorize token user =>
    simp only [step]
    repeat' split
    all_goals exact hk
  | exchange client token verifier sg =>
    simp only [step]
    cases hc : exchangeCheck s client token verifier sg with
    | error en =>
      obtain ⟨e, ns⟩ := en
      exact (exchangeCheck_nonces s client token verifier sg).2 e ns hc k hk
    | ok v =>
      obtain ⟨t, ns⟩ := v
      exact (exchangeCheck_nonces s client token verifier sg).1 t ns hc k hk
  | access client token sg =>
    simp only [step]
    split
    · exact hk
    · split
      · exact hk
      · split
        · exact hk
        · split
          · exact hk
          · split
            · exact hk
            · rename_i ns hn
              split <;> exact checkTsNonce_sub _ _ _ _ _ hn k hk
  | advance dt => exact hk

theorem nonces_monotone_run (ops : List Op) : ∀ s, ∀ k ∈ s.nonces, k ∈ (run s ops).nonces := by
  induction ops with
  | nil => intro s k hk; exact hk
  | cons op ops ih => intro s k hk; exact ih _ k (nonces_monotone s op k hk)

/-- a request whose replay key is already recorded never passes the timestamp/nonce check -/
theorem recorded_key_refused (s : Store) (sg : Sig) (client : String) (token : Option Ref) (hnb : ¬ Bare sg)
    (hk : keyOf sg client token ∈ s.nonces) : ∀ ns, checkTsNonce s sg client token ≠ .ok ns := by
  intro ns h
  rcases checkTsNonce_ok s sg client token ns h with ⟨hb, _⟩ | ⟨hnot, _⟩
  · exact hnb hb
  · exact hnot hk

/-- **Each (client, token, timestamp, nonce) is accepted at most once**: once a resource request was
    served, after ANY further history a request with the same combination is refused. -/
theorem nonce_tuple_accepted_at_most_once (s : Store) (client : Option String) (token : Option Ref) (sg : Sig)
    (hnb : ¬ Bare sg) (h : (step s (.access client token sg)).2.status = 200) (later : List Op) (sg' : Sig)
    (hsame : sg'.nonce = sg.nonce ∧ sg'.timestamp = sg.timestamp) (hnb' : ¬ Bare sg') :
    (step (run (step s (.access client token sg)).1 later) (.access client token sg')).2.status ≠ 200 := by
  obtain ⟨cid, _, _, ns, hcl, _, _, _, _, _, _, hn, hstore⟩ := access_ok_implies s client token sg h
  have hrec : keyOf sg cid token ∈ (step s (.access client token sg)).1.nonces := by
    rw [hstore]
    rcases checkTsNonce_ok s sg cid token ns hn with ⟨hb, _⟩ | ⟨_, rfl, _⟩
    · exact absurd hb hnb
    · simp
  intro h2
  obtain ⟨cid', _, _, ns', hcl', _, _, _, _, _, _, hn', _⟩ := access_ok_implies _ client token sg' h2
  have hc : cid' = cid := by rw [hcl] at hcl'; injection hcl' with e; exact e.symm
  subst hc
  have hkey : keyOf sg' cid' token = keyOf sg cid' token := by simp [keyOf, hsame.1, hsame.2]
  have hin := nonces_monotone_run later _ _ hrec
  exact recorded_key_refused _ sg' cid' token hnb' (hkey ▸ hin) ns' hn'

/-- a timestamp older than the window is refused (for every request the replay defence applies to) -/
theorem old_timestamp_refused (s : Store) (sg : Sig) (client : String) (token : Option Ref) (hnb : ¬ Bare sg) (ts : Int)
    (hp : parseInt (sg.timestamp.getD "") = some ts) (hold : s.now - ts > 300) :
    ∀ ns, checkTsNonce s sg client token ≠ .ok ns := by
  intro ns h
  rcases checkTsNonce_ok s sg client token ns h with ⟨hb, _⟩ | ⟨_, _, ts', hp', _, hle⟩
  · exact hnb hb
  · rw [hp] at hp'; injection hp' with e; subst e; omega

/-- only the configured signature methods are accepted -/
theorem only_configured_methods (s : Store) (client : Option String) (token : Option Ref) (sg : Sig)
    (h : (step s (.access client token sg)).2.status = 200) : ∃ m, sg.method = some m ∧ m ∈ s.methods := by
  obtain ⟨_, _, _, _, _, _, _, _, _, _, hm, _, _⟩ := access_ok_implies s client token sg h
  exact hm

end Props.C12
