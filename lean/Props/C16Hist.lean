import Props.C16Core
import Model.KeyObject
/-
  C16 over histories of one key object: whatever was exported before (JWK dict / JSON, PEM / DER,
  thumbprint, public key object, private or public, in any order and any number of times), an export
  returns what it would have returned on the freshly imported key. Hence "a public export never
  contains a private parameter" and "a private export of a public-only key is an error" hold at every
  point of every history.
-/
namespace Props.C16Hist
open Model Model.Jwk Model.KeyObject

/-- the members every export reads: `self.tokens` once `_dict_data` is loaded -/
def view (k : Kind) (m : Mat) (s : St) : Tokens := tokensOf k (loadDict m s)

/-- does the key object hold private material, as `as_dict` / `load_raw_key` decide it -/
def hasD (k : Kind) (m : Mat) (s : St) : Bool := ((view k m s).lookup "d").isSome

/-- well-formed key object: the codecs produce members, and a loaded private object agrees with the members -/
structure WF (k : Kind) (m : Mat) (s : St) : Prop where
  loaded_nonempty : (loadDict m s).dict ≠ []
  priv_has_d : s.privObj = true → hasD k m s = true

theorem loadDict_of_nonempty (m : Mat) (s : St) (h : s.dict ≠ []) : loadDict m s = s := by
  unfold loadDict
  cases hd : s.dict with
  | nil => exact absurd hd h
  | cons a l => simp

theorem loadDict_idem (m : Mat) (s : St) (h : (loadDict m s).dict ≠ []) : loadDict m (loadDict m s) = loadDict m s :=
  loadDict_of_nonempty m (loadDict m s) h

theorem loadDict_options (m : Mat) (s : St) : (loadDict m s).options = s.options := by
  unfold loadDict; split <;> rfl

theorem loadDict_privObj (m : Mat) (s : St) : (loadDict m s).privObj = s.privObj := by
  unfold loadDict; split <;> rfl

theorem loadDict_pubObj (m : Mat) (s : St) : (loadDict m s).pubObj = s.pubObj := by
  unfold loadDict; split <;> rfl

/-- a state that differs from a loaded one only in the object flags reads the same members -/
theorem view_of_same_dict (k : Kind) (m : Mat) (s s' : St) (hd : s'.dict = (loadDict m s).dict) (ho : s'.options = s.options)
    (hne : (loadDict m s).dict ≠ []) : view k m s' = view k m s := by
  have hE : s'.dict.isEmpty = false := by
    rw [hd]
    cases h : (loadDict m s).dict with
    | nil => exact absurd h hne
    | cons a l => rfl
  have : loadDict m s' = s' := by unfold loadDict; simp [hE]
  unfold view tokensOf
  rw [this, hd, ho, loadDict_options]

theorem view_loadDict (k : Kind) (m : Mat) (s : St) (h : WF k m s) : view k m (loadDict m s) = view k m s := by
  unfold view; rw [loadDict_idem m s h.loaded_nonempty]

theorem wf_loadDict (k : Kind) (m : Mat) (s : St) (h : WF k m s) : WF k m (loadDict m s) := by
  refine ⟨by rw [loadDict_idem m s h.loaded_nonempty]; exact h.loaded_nonempty, ?_⟩
  intro hp
  rw [loadDict_privObj] at hp
  unfold hasD; rw [view_loadDict k m s h]; exact h.priv_has_d hp

theorem loadRaw_spec (k : Kind) (m : Mat) (s : St) (h : WF k m s) :
    WF k m (loadRaw k m s) ∧ view k m (loadRaw k m s) = view k m s ∧
    (loadRaw k m s).privObj = (s.privObj || hasD k m s) := by
  have hv : ∀ s' : St, s'.dict = (loadDict m s).dict → s'.options = s.options → view k m s' = view k m s :=
    fun s' hd ho => view_of_same_dict k m s s' hd ho h.loaded_nonempty
  have hl : ∀ s' : St, s'.dict = (loadDict m s).dict → (loadDict m s').dict ≠ [] := by
    intro s' hd
    have hE : s'.dict.isEmpty = false := by
      rw [hd]
      cases hh : (loadDict m s).dict with
      | nil => exact absurd hh h.loaded_nonempty
      | cons a l => rfl
    have : loadDict m s' = s' := by unfold loadDict; simp [hE]
    rw [this, hd]; exact h.loaded_nonempty
  unfold loadRaw
  simp only
  have hD : ((tokensOf k (loadDict m s)).lookup "d").isSome = hasD k m s := rfl
  rw [hD]
  cases hd : hasD k m s with
  | true =>
    simp only [if_true]
    have v := hv { loadDict m s with privObj := true } rfl (loadDict_options m s)
    refine ⟨⟨hl _ rfl, fun _ => by unfold hasD; rw [v]; exact hd⟩, v, by simp⟩
  | false =>
    simp only [Bool.false_eq_true, if_false]
    have v := hv { loadDict m s with pubObj := true } rfl (loadDict_options m s)
    refine ⟨⟨hl _ rfl, fun hp => ?_⟩, v, ?_⟩
    · have hp' : s.privObj = true := by simpa [loadDict_privObj] using hp
      have := h.priv_has_d hp'
      rw [hd] at this; cases this
    · simp [loadDict_privObj]

theorem getPrivate_spec (k : Kind) (m : Mat) (s : St) (h : WF k m s) :
    WF k m (getPrivate k m s) ∧ view k m (getPrivate k m s) = view k m s ∧
    (getPrivate k m s).privObj = hasD k m s := by
  cases hp : s.privObj with
  | true =>
    have e : getPrivate k m s = s := by unfold getPrivate; simp [hp]
    rw [e]; exact ⟨h, rfl, by rw [hp, h.priv_has_d hp]⟩
  | false =>
    have e : getPrivate k m s = loadRaw k m s := by unfold getPrivate; simp [hp]
    rw [e]
    obtain ⟨a, b, c⟩ := loadRaw_spec k m s h
    exact ⟨a, b, by rw [c, hp]; simp⟩

theorem getPublic_spec (k : Kind) (m : Mat) (s : St) (h : WF k m s) :
    WF k m (getPublic k m s) ∧ view k m (getPublic k m s) = view k m s := by
  unfold getPublic
  split
  · exact ⟨h, rfl⟩
  · obtain ⟨a, b, _⟩ := getPrivate_spec k m s h; exact ⟨a, b⟩

/-- what an export returns, as a function of the members alone -/
def observe (k : Kind) (thumb : String) (v : Tokens) : Op → Out
  | .asDict isPrivate => match Jwk.asDict k.publicFields k.kty v isPrivate thumb with | some t => .members t | none => .valueError
  | .asBytes true => if (v.lookup "d").isSome then .bytes true else .valueError
  | .asBytes false => .bytes false
  | .thumbprint => .done
  | .getPublicKey => .done

/-- one call: the object stays well-formed, reads the same members afterwards, and answers `observe` of them -/
theorem step_spec (k : Kind) (m : Mat) (thumb : String) (s : St) (op : Op) (h : WF k m s) :
    WF k m (step k m thumb s op).1 ∧ view k m (step k m thumb s op).1 = view k m s ∧
    (step k m thumb s op).2 = observe k thumb (view k m s) op := by
  cases op with
  | asDict isPrivate =>
    exact ⟨wf_loadDict k m s h, view_loadDict k m s h, rfl⟩
  | asBytes isPrivate =>
    cases isPrivate with
    | true =>
      obtain ⟨a, b, c⟩ := getPrivate_spec k m s h
      refine ⟨a, b, ?_⟩
      simp only [step, observe, c]
      rfl
    | false =>
      obtain ⟨a, b⟩ := getPublic_spec k m s h
      exact ⟨a, b, rfl⟩
  | thumbprint => exact ⟨wf_loadDict k m s h, view_loadDict k m s h, rfl⟩
  | getPublicKey =>
    obtain ⟨a, b⟩ := getPublic_spec k m s h
    exact ⟨a, b, rfl⟩

theorem run_spec (k : Kind) (m : Mat) (thumb : String) (ops : List Op) :
    ∀ s, WF k m s → WF k m (run k m thumb s ops).1 ∧ view k m (run k m thumb s ops).1 = view k m s := by
  induction ops with
  | nil => intro s h; exact ⟨h, rfl⟩
  | cons op ops ih =>
    intro s h
    obtain ⟨a, b, _⟩ := step_spec k m thumb s op h
    obtain ⟨c, d⟩ := ih _ a
    simp only [run]
    exact ⟨c, d.trans b⟩

/-- **History independence.** After ANY sequence of export calls an export returns exactly what it returns
    on the freshly imported key object. -/
theorem export_is_history_independent (k : Kind) (m : Mat) (thumb : String) (s : St) (h : WF k m s) (ops : List Op) (op : Op) :
    (step k m thumb (run k m thumb s ops).1 op).2 = (step k m thumb s op).2 := by
  obtain ⟨a, b⟩ := run_spec k m thumb ops s h
  rw [(step_spec k m thumb _ op a).2.2, (step_spec k m thumb s op h).2.2, b]

/-- at every point of every history a public export of an RSA / EC / OKP key holding private material
    contains none of `d`, `p`, `q`, `dp`, `dq`, `qi` -/
theorem public_export_never_leaks (k : Kind) (m : Mat) (thumb : String) (s : St) (h : WF k m s) (ops : List Op) (out : Tokens)
    (hpf : k.publicFields = Generated.Jose.rsaPublicKeyFields ∨ k.publicFields = Generated.Jose.ecPublicKeyFields ∨
           k.publicFields = Generated.Jose.okpPublicKeyFields)
    (hd : hasD k m s = true)
    (ho : (step k m thumb (run k m thumb s ops).1 (.asDict false)).2 = .members out) :
    ∀ f ∈ ["d", "p", "q", "dp", "dq", "qi"], ∀ p ∈ out, p.1 ≠ f := by
  rw [export_is_history_independent k m thumb s h ops, (step_spec k m thumb s _ h).2.2] at ho
  simp only [observe] at ho
  split at ho
  · rename_i t ht
    injection ho with ho; subst ho
    exact Props.C16.public_export_has_no_private_member k.kty (view k m s) thumb t k.publicFields hpf hd ht
  · cases ho

/-- at every point of every history the private export (JWK or PEM / DER) of a public-only key is an error -/
theorem private_export_of_public_only_always_errors (k : Kind) (m : Mat) (thumb : String) (s : St) (h : WF k m s) (ops : List Op)
    (hd : hasD k m s = false) (isBytes : Bool) :
    (step k m thumb (run k m thumb s ops).1 (if isBytes then .asBytes true else .asDict true)).2 = .valueError := by
  rw [export_is_history_independent k m thumb s h ops, (step_spec k m thumb s _ h).2.2]
  have hd' : ((view k m s).lookup "d").isSome = false := hd
  cases isBytes with
  | true => simp [observe, hd']
  | false =>
    simp only [Bool.false_eq_true, if_false, observe]
    rw [Props.C16.private_export_of_public_is_error k.publicFields k.kty (view k m s) thumb hd']

/-- the three ways a key object comes into being are well-formed -/
theorem wf_ofDict (k : Kind) (m : Mat) (raw options : Tokens) (h : raw ≠ []) : WF k m (ofDict raw options) := by
  have hE : raw.isEmpty = false := by cases raw with | nil => exact absurd rfl h | cons a l => rfl
  refine ⟨?_, fun hp => by simp [ofDict] at hp⟩
  unfold loadDict ofDict; simp [hE]; exact h

theorem wf_ofPublicObject (k : Kind) (m : Mat) (options : Tokens) (h : update [] m.pub ≠ []) : WF k m (ofPublicObject options) := by
  refine ⟨?_, fun hp => by simp [ofPublicObject] at hp⟩
  unfold loadDict ofPublicObject; simpa using h

theorem wf_ofPrivateObject (k : Kind) (m : Mat) (options : Tokens) (h : update [] m.priv ≠ [])
    (hd : hasD k m (ofPrivateObject options) = true) : WF k m (ofPrivateObject options) := by
  refine ⟨?_, fun _ => hd⟩
  unfold loadDict ofPrivateObject; simpa using h

/-! ### which freshly imported objects hold private material -/

theorem lookup_isSome_eq_any (t : Tokens) (k : String) : (t.lookup k).isSome = t.any (fun p => p.1 == k) := by
  induction t with
  | nil => rfl
  | cons a t ih =>
    obtain ⟨a1, a2⟩ := a
    by_cases h : k = a1
    · subst h; simp [List.lookup]
    · have h' : (k == a1) = false := by simpa using h
      have h'' : (a1 == k) = false := by simpa using (fun e : a1 = k => h e.symm)
      simp [List.lookup, h', h'', ih]

theorem any_setKey (t : Tokens) (k v k' : String) :
    (setKey t k v).any (fun p => p.1 == k') = (t.any (fun p => p.1 == k') || k == k') := by
  unfold setKey
  split
  · rename_i hk
    have : ∀ l : Tokens, (l.map (fun p => if p.1 == k then (k, v) else p)).any (fun p => p.1 == k') = l.any (fun p => p.1 == k') := by
      intro l
      induction l with
      | nil => rfl
      | cons a l ih =>
        simp only [List.map_cons, List.any_cons, ih]
        by_cases ha : a.1 = k
        · simp [ha]
        · have : (a.1 == k) = false := by simpa using ha
          simp [this]
    rw [this]
    by_cases hkk : k = k'
    · subst hkk; simp [hk]
    · have : (k == k') = false := by simpa using hkk
      simp [this]
  · simp [List.any_append]

theorem any_update (t new : Tokens) (k' : String) :
    (update t new).any (fun p => p.1 == k') = (t.any (fun p => p.1 == k') || new.any (fun p => p.1 == k')) := by
  unfold update
  induction new generalizing t with
  | nil => simp
  | cons a new ih =>
    simp only [List.foldl_cons, List.any_cons]
    rw [ih, any_setKey]
    cases t.any (fun p => p.1 == k') <;> cases (a.1 == k') <;> simp

theorem any_addParams (options : Tokens) (k' : String) : ∀ (ks : List String) (rv : Tokens), k' ∉ ks →
    (addParams options ks rv).any (fun p => p.1 == k') = rv.any (fun p => p.1 == k') := by
  intro ks
  induction ks with
  | nil => intro rv _; rfl
  | cons k ks ih =>
    intro rv hk
    have hne : k ≠ k' := fun e => hk (by simp [e])
    have hks : k' ∉ ks := fun e => hk (by simp [e])
    have hb : (k == k') = false := by simpa using hne
    unfold addParams
    split
    · rw [ih _ hks]
      split
      · rfl
      · simp [List.any_append, hb]
    · exact ih _ hks

/-- whether a key object holds private material is decided by its material / its imported members alone:
    options cannot add a `d` member (`d` is not an ALLOWED_PARAMS name) and `kty` is not `d` -/
theorem hasD_eq (k : Kind) (m : Mat) (s : St) (hk : "d" ∉ k.allowedParams) :
    hasD k m s = (if s.dict.isEmpty then (if s.privObj then m.priv else m.pub).any (fun p => p.1 == "d")
                  else s.dict.any (fun p => p.1 == "d")) := by
  unfold hasD view tokensOf
  rw [lookup_isSome_eq_any, any_addParams _ _ _ _ hk, any_setKey]
  have : ("kty" == "d") = false := by decide
  rw [this, Bool.or_false]
  unfold loadDict
  split
  · rename_i hE
    simp only [any_update]
    have : s.dict = [] := by simpa using hE
    simp [this]
  · rfl

theorem wf_ofPrivateObject_of_material (k : Kind) (m : Mat) (options : Tokens) (hk : "d" ∉ k.allowedParams)
    (hd : (m.priv.lookup "d").isSome = true) : WF k m (ofPrivateObject options) ∧ hasD k m (ofPrivateObject options) = true := by
  have hany : m.priv.any (fun p => p.1 == "d") = true := by rw [← lookup_isSome_eq_any]; exact hd
  have hne : update [] m.priv ≠ [] := by
    intro e
    have := any_update [] m.priv "d"
    rw [e, hany] at this; simp at this
  have hD : hasD k m (ofPrivateObject options) = true := by
    rw [hasD_eq k m _ hk]; simp [ofPrivateObject, hany]
  exact ⟨wf_ofPrivateObject k m options hne hD, hD⟩

theorem hasD_ofPublicObject (k : Kind) (m : Mat) (options : Tokens) (hk : "d" ∉ k.allowedParams)
    (hd : (m.pub.lookup "d").isSome = false) : hasD k m (ofPublicObject options) = false := by
  rw [hasD_eq k m _ hk]
  have : m.pub.any (fun p => p.1 == "d") = false := by rw [← lookup_isSome_eq_any]; exact hd
  simp [ofPublicObject, this]

/-- `d` is not among the regenerated `Key.ALLOWED_PARAMS` -/
theorem d_not_allowed_param : "d" ∉ Generated.Jose.allowedParams := by decide

/-- non-vacuity: an EC-shaped private key object, exported publicly after private exports -/
example :
    let k : Kind := { kty := "EC", publicFields := Generated.Jose.ecPublicKeyFields, allowedParams := ["use", "key_ops", "alg", "kid"] }
    let m : Mat := { pub := [("crv", "P-256"), ("x", "AA"), ("y", "BB")], priv := [("crv", "P-256"), ("x", "AA"), ("y", "BB"), ("d", "CC")] }
    (run k m "T" (ofPrivateObject [("use", "sig")]) [.asDict true, .asBytes true, .asDict false]).2 =
      [.members [("crv", "P-256"), ("x", "AA"), ("y", "BB"), ("d", "CC"), ("kty", "EC"), ("use", "sig"), ("kid", "T")], .bytes true,
       .members [("crv", "P-256"), ("x", "AA"), ("y", "BB"), ("kty", "EC"), ("kid", "T")]] := by decide

end Props.C16Hist
