import Model.Claims
/-
  C04 — JWT claims validation accepts exactly the tokens its options allow.
  `Conforms` is the property statement transcribed (spec); `Model.Claims.validate` mirrors the code.
  Named allowances (DESIGN §3.2): options `value`/`values`/`validate` are honoured for iss, sub, jti and
  private claims, `value`/`values` for aud (RFC 7519 §4.1.3: only when the claim is present and
  non-empty); for exp/nbf/iat only `essential` and the time window apply; falsy expected values
  constrain nothing.
-/
namespace Props.C04
open Model.Claims

/-- claims whose value / values / validate options go through `_validate_claim_value` -/
def valueClaim (k : String) : Prop := k ≠ "aud" ∧ k ≠ "exp" ∧ k ≠ "nbf" ∧ k ≠ "iat"

instance (k : String) : Decidable (valueClaim k) := by unfold valueClaim; infer_instance

/-- The property statement. Times are in quarters of a second. -/
structure Conforms (c : Claims) (o : Options) (now lw : Int) : Prop where
  exp_ok : ∀ v, c.lookup "exp" = some v → ∃ q, v.numericDate = some q ∧ now - lw ≤ q
  nbf_ok : ∀ v, c.lookup "nbf" = some v → ∃ q, v.numericDate = some q ∧ q ≤ now + lw
  iat_ok : ∀ v, c.lookup "iat" = some v → ∃ q, v.numericDate = some q ∧ q ≤ now + lw
  essential_ok : ∀ k opt, o.lookup k = some opt → opt.essential = true →
      ∃ v, c.lookup k = some v ∧ v.truthy = true
  value_ok : ∀ k opt ev, valueClaim k → o.lookup k = some opt → opt.value = some ev →
      ev.truthy = true → (getD c k).pyEq ev = true
  values_ok : ∀ k opt evs, valueClaim k → o.lookup k = some opt → opt.values = some evs →
      evs ≠ [] → pyIn (getD c k) evs = true
  validator_ok : ∀ k opt f, valueClaim k → o.lookup k = some opt → opt.validate = some f →
      f.run c (getD c k) = true
  aud_ok : ∀ opt a, o.lookup "aud" = some opt → c.lookup "aud" = some a → a.truthy = true →
      expectedAud opt ≠ [] → ∃ v ∈ expectedAud opt, pyIn v (audList a) = true

/-- What it means for the constraint an error names to be actually violated. -/
def Violates (c : Claims) (o : Options) (now lw : Int) : Err → Prop
  | .missing k => ∃ opt, o.lookup k = some opt ∧ opt.essential = true ∧ c.lookup k = none
  | .invalid k =>
      (∃ opt v, o.lookup k = some opt ∧ opt.essential = true ∧ c.lookup k = some v ∧ v.truthy = false)
    ∨ ((k = "exp" ∨ k = "nbf" ∨ k = "iat") ∧ ∃ v, c.lookup k = some v ∧ v.numericDate = none)
    ∨ (valueClaim k ∧ ∃ opt, o.lookup k = some opt ∧
        ((∃ ev, opt.value = some ev ∧ ev.truthy = true ∧ (getD c k).pyEq ev = false)
        ∨ (∃ evs, opt.values = some evs ∧ evs ≠ [] ∧ pyIn (getD c k) evs = false)
        ∨ (∃ f, opt.validate = some f ∧ f.run c (getD c k) = false)))
    ∨ (k = "aud" ∧ ∃ opt a, o.lookup "aud" = some opt ∧ c.lookup "aud" = some a ∧ a.truthy = true ∧
        expectedAud opt ≠ [] ∧ ∀ v ∈ expectedAud opt, pyIn v (audList a) = false)
  | .expired => ∃ v q, c.lookup "exp" = some v ∧ v.numericDate = some q ∧ q < now - lw
  | .invalidToken =>
      (∃ v q, c.lookup "nbf" = some v ∧ v.numericDate = some q ∧ q > now + lw)
    ∨ (∃ v q, c.lookup "iat" = some v ∧ v.numericDate = some q ∧ q > now + lw)

/-! ### helper lemmas -/

theorem orElse_some {a : Option Err} {b : Unit → Option Err} {e : Err} :
    orElse' a b = some e → a = some e ∨ (a = none ∧ b () = some e) := by
  cases a <;> simp [orElse']

theorem orElse_none {a : Option Err} {b : Unit → Option Err} :
    orElse' a b = none ↔ a = none ∧ b () = none := by
  cases a <;> simp [orElse']

theorem lookup_mem_keys {β} (o : List (String × β)) (k : String) (v : β) (h : o.lookup k = some v) :
    k ∈ o.map (·.1) := by
  induction o with
  | nil => simp at h
  | cons p o ih =>
    obtain ⟨a, b⟩ := p
    simp only [List.lookup] at h
    split at h
    · rename_i heq
      have : k = a := by simpa using heq
      simp [this]
    · simp [ih h]

theorem optTruthy_some {x : Option Val} {v : Val} :
    optTruthy x = some v ↔ x = some v ∧ v.truthy = true := by
  cases x with
  | none => simp [optTruthy]
  | some w =>
    simp only [optTruthy]
    split
    · rename_i h; constructor
      · intro e; injection e with e; subst e; exact ⟨rfl, h⟩
      · intro ⟨e, _⟩; exact e
    · rename_i h; constructor
      · intro e; cases e
      · intro ⟨e, ht⟩; injection e with e; subst e; exact absurd ht h

theorem optTruthy_none {x : Option Val} :
    optTruthy x = none ↔ ∀ v, x = some v → v.truthy = false := by
  cases x with
  | none => simp [optTruthy]
  | some w =>
    simp only [optTruthy]
    split
    · rename_i h; simp [h]
    · rename_i h; simp; simpa using h

theorem optListTruthy_some {x : Option (List Val)} {l : List Val} :
    optListTruthy x = some l ↔ x = some l ∧ l ≠ [] := by
  cases x with
  | none => simp [optListTruthy]
  | some w =>
    simp only [optListTruthy]
    split
    · rename_i h
      have : w = [] := by simpa using h
      subst this
      constructor
      · intro e; cases e
      · intro ⟨e, hne⟩; injection e with e; exact absurd e.symm hne
    · rename_i h
      constructor
      · intro e; injection e with e; subst e; exact ⟨rfl, by simpa using h⟩
      · intro ⟨e, _⟩; exact e

theorem optListTruthy_none {x : Option (List Val)} :
    optListTruthy x = none ↔ ∀ l, x = some l → l = [] := by
  cases x with
  | none => simp [optListTruthy]
  | some w =>
    simp only [optListTruthy]
    split
    · rename_i h; simp; simpa using h
    · rename_i h; simp; simpa using h

/-! ### the three sub-checks of `_validate_claim_value` -/

theorem claimValue_none {c : Claims} {o : Options} {k : String} (h : claimValue c o k = none) :
    ∀ opt, o.lookup k = some opt →
      (∀ ev, opt.value = some ev → ev.truthy = true → (getD c k).pyEq ev = true) ∧
      (∀ evs, opt.values = some evs → evs ≠ [] → pyIn (getD c k) evs = true) ∧
      (∀ f, opt.validate = some f → f.run c (getD c k) = true) := by
  intro opt hl
  simp only [claimValue, hl] at h
  obtain ⟨h1, h23⟩ := orElse_none.mp h
  obtain ⟨h2, h3⟩ := orElse_none.mp h23
  refine ⟨?_, ?_, ?_⟩
  · intro ev hv ht
    have : optTruthy opt.value = some ev := optTruthy_some.mpr ⟨hv, ht⟩
    simp only [this] at h1
    split at h1
    · assumption
    · cases h1
  · intro evs hv hne
    have : optListTruthy opt.values = some evs := optListTruthy_some.mpr ⟨hv, hne⟩
    simp only [this] at h2
    split at h2
    · assumption
    · cases h2
  · intro f hf
    simp only [hf] at h3
    split at h3
    · assumption
    · cases h3

theorem claimValue_some {c : Claims} {o : Options} {k : String} {e : Err} (h : claimValue c o k = some e) :
    e = .invalid k ∧ ∃ opt, o.lookup k = some opt ∧
      ((∃ ev, opt.value = some ev ∧ ev.truthy = true ∧ (getD c k).pyEq ev = false)
      ∨ (∃ evs, opt.values = some evs ∧ evs ≠ [] ∧ pyIn (getD c k) evs = false)
      ∨ (∃ f, opt.validate = some f ∧ f.run c (getD c k) = false)) := by
  unfold claimValue at h
  split at h
  · cases h
  · rename_i opt hl
    simp only at h
    rcases orElse_some h with h1 | ⟨_, h⟩
    · split at h1
      · rename_i ev hev
        have hev' := optTruthy_some.mp hev
        split at h1
        · cases h1
        · rename_i hne
          injection h1 with h1
          exact ⟨h1.symm, opt, hl, Or.inl ⟨ev, hev'.1, hev'.2, by simpa using hne⟩⟩
      · cases h1
    · rcases orElse_some h with h2 | ⟨_, h3⟩
      · split at h2
        · rename_i evs hevs
          have hevs' := optListTruthy_some.mp hevs
          split at h2
          · cases h2
          · rename_i hne
            injection h2 with h2
            exact ⟨h2.symm, opt, hl, Or.inr (Or.inl ⟨evs, hevs'.1, hevs'.2, by simpa using hne⟩)⟩
        · cases h2
      · split at h3
        · rename_i f hf
          split at h3
          · cases h3
          · rename_i hne
            injection h3 with h3
            exact ⟨h3.symm, opt, hl, Or.inr (Or.inr ⟨f, hf, by simpa using hne⟩)⟩
        · cases h3

/-! ### loops -/

theorem essentialLoop_none {c : Claims} {o : Options} : ∀ {ks : List String},
    essentialLoop c o ks = none → ∀ k ∈ ks, ∀ opt, o.lookup k = some opt → opt.essential = true →
      ∃ v, c.lookup k = some v ∧ v.truthy = true
  | [], _ => by simp
  | k0 :: ks, h => by
    intro k hk opt hl he
    simp only [essentialLoop] at h
    rcases List.mem_cons.mp hk with rfl | hk
    · simp only [hl, he, if_true] at h
      split at h
      · cases h
      · rename_i v hv
        split at h
        · rename_i ht; exact ⟨v, hv, ht⟩
        · cases h
    · have rest : essentialLoop c o ks = none := by
        split at h
        · split at h
          · split at h
            · cases h
            · split at h
              · exact h
              · cases h
          · exact h
        · exact h
      exact essentialLoop_none rest k hk opt hl he

theorem essentialLoop_some {c : Claims} {o : Options} {e : Err} : ∀ {ks : List String},
    essentialLoop c o ks = some e →
      (∃ k opt, e = .missing k ∧ o.lookup k = some opt ∧ opt.essential = true ∧ c.lookup k = none) ∨
      (∃ k opt v, e = .invalid k ∧ o.lookup k = some opt ∧ opt.essential = true ∧
        c.lookup k = some v ∧ v.truthy = false)
  | [], h => by simp [essentialLoop] at h
  | k0 :: ks, h => by
    simp only [essentialLoop] at h
    split at h
    · rename_i opt hl
      split at h
      · rename_i he
        split at h
        · rename_i hc
          injection h with h
          exact Or.inl ⟨k0, opt, h.symm, hl, he, hc⟩
        · rename_i v hv
          split at h
          · exact essentialLoop_some h
          · rename_i ht
            injection h with h
            exact Or.inr ⟨k0, opt, v, h.symm, hl, he, hv, by simpa using ht⟩
      · exact essentialLoop_some h
    · exact essentialLoop_some h

theorem customLoop_none {c : Claims} {o : Options} : ∀ {ks : List String},
    customLoop c o ks = none → ∀ k ∈ ks, registered.contains k = false → claimValue c o k = none
  | [], _ => by simp
  | k0 :: ks, h => by
    intro k hk hr
    simp only [customLoop] at h
    rcases List.mem_cons.mp hk with rfl | hk
    · simp only [hr] at h
      cases hcv : claimValue c o k with
      | none => rfl
      | some e => simp [hcv] at h
    · have rest : customLoop c o ks = none := by
        split at h
        · exact h
        · split at h
          · cases h
          · exact h
      exact customLoop_none rest k hk hr

theorem customLoop_some {c : Claims} {o : Options} {e : Err} : ∀ {ks : List String},
    customLoop c o ks = some e → ∃ k, registered.contains k = false ∧ claimValue c o k = some e
  | [], h => by simp [customLoop] at h
  | k0 :: ks, h => by
    simp only [customLoop] at h
    split at h
    · exact customLoop_some h
    · rename_i hr
      split at h
      · rename_i e' he'
        injection h with h; subst h
        exact ⟨k0, by simpa using hr, he'⟩
      · exact customLoop_some h

theorem valueClaim_cases {k : String} (h : valueClaim k) :
    k = "iss" ∨ k = "sub" ∨ k = "jti" ∨ registered.contains k = false := by
  obtain ⟨h1, h2, h3, h4⟩ := h
  by_cases a : k = "iss"; · exact Or.inl a
  by_cases b : k = "sub"; · exact Or.inr (Or.inl b)
  by_cases d : k = "jti"; · exact Or.inr (Or.inr (Or.inl d))
  right; right; right
  simp [registered, a, b, d, h1, h2, h3, h4]

theorem not_registered_valueClaim {k : String} (h : registered.contains k = false) : valueClaim k := by
  simp [registered] at h
  exact ⟨h.2.2.1, h.2.2.2.1, h.2.2.2.2.1, h.2.2.2.2.2.1⟩

/-! ### main theorems -/

/-- If validation raises nothing, the claims conform to the options. -/
theorem conforms_of_validate_none (c : Claims) (o : Options) (now lw : Int)
    (h : validate c o now lw = none) : Conforms c o now lw := by
  unfold validate at h
  obtain ⟨hess, h⟩ := orElse_none.mp h
  obtain ⟨hiss, h⟩ := orElse_none.mp h
  obtain ⟨hsub, h⟩ := orElse_none.mp h
  obtain ⟨haud, h⟩ := orElse_none.mp h
  obtain ⟨hexp, h⟩ := orElse_none.mp h
  obtain ⟨hnbf, h⟩ := orElse_none.mp h
  obtain ⟨hiat, h⟩ := orElse_none.mp h
  obtain ⟨hjti, hcust⟩ := orElse_none.mp h
  have hcv : ∀ k opt, valueClaim k → o.lookup k = some opt → claimValue c o k = none := by
    intro k opt hv hl
    rcases valueClaim_cases hv with rfl | rfl | rfl | hr
    · exact hiss
    · exact hsub
    · exact hjti
    · exact customLoop_none hcust k (lookup_mem_keys o k opt hl) hr
  constructor
  · intro v hv
    simp only [checkExp, hv] at hexp
    split at hexp
    · cases hexp
    · rename_i q hq
      split at hexp
      · cases hexp
      · rename_i hlt; exact ⟨q, hq, by omega⟩
  · intro v hv
    simp only [checkNbf, hv] at hnbf
    split at hnbf
    · cases hnbf
    · rename_i q hq
      split at hnbf
      · cases hnbf
      · rename_i hlt; exact ⟨q, hq, by omega⟩
  · intro v hv
    simp only [checkIat, hv] at hiat
    split at hiat
    · cases hiat
    · rename_i q hq
      split at hiat
      · cases hiat
      · rename_i hlt; exact ⟨q, hq, by omega⟩
  · intro k opt hl he
    exact essentialLoop_none hess k (lookup_mem_keys o k opt hl) opt hl he
  · intro k opt ev hv hl hval ht
    exact (claimValue_none (hcv k opt hv hl) opt hl).1 ev hval ht
  · intro k opt evs hv hl hval hne
    exact (claimValue_none (hcv k opt hv hl) opt hl).2.1 evs hval hne
  · intro k opt f hv hl hf
    exact (claimValue_none (hcv k opt hv hl) opt hl).2.2 f hf
  · intro opt a hl ha ht hne
    simp only [checkAud, hl] at haud
    have hg : getD c "aud" = a := by simp [getD, ha]
    simp only [hg, ht, Bool.not_true, Bool.false_eq_true, if_false] at haud
    have hne' : (expectedAud opt).isEmpty = false := by simpa using hne
    simp only [hne', Bool.false_eq_true, if_false] at haud
    split at haud
    · rename_i hany
      obtain ⟨v, hv, hp⟩ := List.any_eq_true.mp hany
      exact ⟨v, hv, hp⟩
    · cases haud

/-- When validation fails, the error names a constraint that is actually violated. -/
theorem error_names_violated_constraint (c : Claims) (o : Options) (now lw : Int) (e : Err)
    (h : validate c o now lw = some e) : Violates c o now lw e := by
  have cv : ∀ k, valueClaim k → claimValue c o k = some e → Violates c o now lw e := by
    intro k hv hk
    obtain ⟨rfl, opt, hl, hcases⟩ := claimValue_some hk
    exact Or.inr (Or.inr (Or.inl ⟨hv, opt, hl, hcases⟩))
  unfold validate at h
  rcases orElse_some h with h | ⟨_, h⟩
  · rcases essentialLoop_some h with ⟨k, opt, rfl, hl, he, hc⟩ | ⟨k, opt, v, rfl, hl, he, hc, ht⟩
    · exact ⟨opt, hl, he, hc⟩
    · exact Or.inl ⟨opt, v, hl, he, hc, ht⟩
  rcases orElse_some h with h | ⟨_, h⟩
  · exact cv "iss" (by decide) h
  rcases orElse_some h with h | ⟨_, h⟩
  · exact cv "sub" (by decide) h
  rcases orElse_some h with h | ⟨_, h⟩
  · unfold checkAud at h
    split at h
    · cases h
    · rename_i opt hl
      simp only at h
      split at h
      · cases h
      · rename_i ht
        split at h
        · cases h
        · rename_i hne
          split at h
          · cases h
          · rename_i hany
            injection h with h; subst h
            cases hc : c.lookup "aud" with
            | none => simp [getD, hc, Val.truthy] at ht
            | some a =>
              have hg : getD c "aud" = a := by simp [getD, hc]
              rw [hg] at ht hany
              refine Or.inr (Or.inr (Or.inr ⟨rfl, opt, a, hl, hc, by simpa using ht, ?_, ?_⟩))
              · intro hE; simp [hE] at hne
              · intro v hv
                have := List.any_eq_true (l := expectedAud opt) (p := fun v => pyIn v (audList a))
                cases hp : pyIn v (audList a) with
                | false => rfl
                | true => exact absurd (this.mpr ⟨v, hv, hp⟩) hany
  rcases orElse_some h with h | ⟨_, h⟩
  · unfold checkExp at h
    split at h
    · cases h
    · rename_i v hv
      split at h
      · rename_i hn
        injection h with h; subst h
        exact Or.inr (Or.inl ⟨Or.inl rfl, v, hv, hn⟩)
      · rename_i q hq
        split at h
        · rename_i hlt
          injection h with h; subst h
          exact ⟨v, q, hv, hq, hlt⟩
        · cases h
  rcases orElse_some h with h | ⟨_, h⟩
  · unfold checkNbf at h
    split at h
    · cases h
    · rename_i v hv
      split at h
      · rename_i hn
        injection h with h; subst h
        exact Or.inr (Or.inl ⟨Or.inr (Or.inl rfl), v, hv, hn⟩)
      · rename_i q hq
        split at h
        · rename_i hlt
          injection h with h; subst h
          exact Or.inl ⟨v, q, hv, hq, hlt⟩
        · cases h
  rcases orElse_some h with h | ⟨_, h⟩
  · unfold checkIat at h
    split at h
    · cases h
    · rename_i v hv
      split at h
      · rename_i hn
        injection h with h; subst h
        exact Or.inr (Or.inl ⟨Or.inr (Or.inr rfl), v, hv, hn⟩)
      · rename_i q hq
        split at h
        · rename_i hlt
          injection h with h; subst h
          exact Or.inr ⟨v, q, hv, hq, hlt⟩
        · cases h
  rcases orElse_some h with h | ⟨_, h⟩
  · exact cv "jti" (by decide) h
  · obtain ⟨k, hr, hk⟩ := customLoop_some h
    exact cv k (not_registered_valueClaim hr) hk

/-- A violated constraint contradicts conformance. -/
theorem violates_not_conforms (c : Claims) (o : Options) (now lw : Int) (e : Err)
    (hv : Violates c o now lw e) : ¬ Conforms c o now lw := by
  intro hc
  cases e with
  | missing k =>
    obtain ⟨opt, hl, he, hn⟩ := hv
    obtain ⟨v, hv, _⟩ := hc.essential_ok k opt hl he
    rw [hn] at hv; cases hv
  | invalid k =>
    rcases hv with ⟨opt, v, hl, he, hcl, ht⟩ | ⟨hk, v, hcl, hn⟩ | ⟨hvc, opt, hl, hcases⟩ | ⟨_, opt, a, hl, ha, ht, hne, hall⟩
    · obtain ⟨v', hv', ht'⟩ := hc.essential_ok k opt hl he
      rw [hcl] at hv'; injection hv' with hv'; subst hv'
      rw [ht] at ht'; cases ht'
    · rcases hk with rfl | rfl | rfl
      · obtain ⟨q, hq, _⟩ := hc.exp_ok v hcl; rw [hn] at hq; cases hq
      · obtain ⟨q, hq, _⟩ := hc.nbf_ok v hcl; rw [hn] at hq; cases hq
      · obtain ⟨q, hq, _⟩ := hc.iat_ok v hcl; rw [hn] at hq; cases hq
    · rcases hcases with ⟨ev, hval, ht, hne⟩ | ⟨evs, hval, hne, hnin⟩ | ⟨f, hf, hrun⟩
      · have := hc.value_ok k opt ev hvc hl hval ht; rw [hne] at this; cases this
      · have := hc.values_ok k opt evs hvc hl hval hne; rw [hnin] at this; cases this
      · have := hc.validator_ok k opt f hvc hl hf; rw [hrun] at this; cases this
    · obtain ⟨v, hv, hp⟩ := hc.aud_ok opt a hl ha ht hne
      rw [hall v hv] at hp; cases hp
  | expired =>
    obtain ⟨v, q, hcl, hq, hlt⟩ := hv
    obtain ⟨q', hq', hle⟩ := hc.exp_ok v hcl
    rw [hq] at hq'; injection hq' with hq'; subst hq'; omega
  | invalidToken =>
    rcases hv with ⟨v, q, hcl, hq, hlt⟩ | ⟨v, q, hcl, hq, hlt⟩
    · obtain ⟨q', hq', hle⟩ := hc.nbf_ok v hcl
      rw [hq] at hq'; injection hq' with hq'; subst hq'; omega
    · obtain ⟨q', hq', hle⟩ := hc.iat_ok v hcl
      rw [hq] at hq'; injection hq' with hq'; subst hq'; omega

/-- **C04**: validation succeeds if and only if the claims conform — for every claim dictionary,
    option dictionary, `now` and `leeway`. -/
theorem validate_ok_iff_conforms (c : Claims) (o : Options) (now lw : Int) :
    validate c o now lw = none ↔ Conforms c o now lw := by
  constructor
  · exact conforms_of_validate_none c o now lw
  · intro hc
    cases h : validate c o now lw with
    | none => rfl
    | some e =>
      exact absurd hc (violates_not_conforms c o now lw e (error_names_violated_constraint c o now lw e h))

/-- an expired token is never accepted -/
theorem expired_never_accepted (c : Claims) (o : Options) (now lw q : Int) (v : Val)
    (h : c.lookup "exp" = some v) (hq : v.numericDate = some q) (hlt : q < now - lw) :
    validate c o now lw ≠ none := by
  intro hn
  obtain ⟨q', hq', hle⟩ := (conforms_of_validate_none c o now lw hn).exp_ok v h
  rw [hq] at hq'; injection hq' with hq'; subst hq'; omega

/-- a not-yet-valid token is never accepted -/
theorem not_yet_valid_never_accepted (c : Claims) (o : Options) (now lw q : Int) (v : Val)
    (h : c.lookup "nbf" = some v) (hq : v.numericDate = some q) (hgt : q > now + lw) :
    validate c o now lw ≠ none := by
  intro hn
  obtain ⟨q', hq', hle⟩ := (conforms_of_validate_none c o now lw hn).nbf_ok v h
  rw [hq] at hq'; injection hq' with hq'; subst hq'; omega

/-- a JSON boolean is not a NumericDate -/
theorem bool_time_never_accepted (c : Claims) (o : Options) (now lw : Int) (b : Bool) (k : String)
    (hk : k = "exp" ∨ k = "nbf" ∨ k = "iat") (h : c.lookup k = some (.atom (.bool b))) :
    validate c o now lw ≠ none := by
  intro hn
  have hc := conforms_of_validate_none c o now lw hn
  rcases hk with rfl | rfl | rfl
  · obtain ⟨q, hq, _⟩ := hc.exp_ok _ h; simp [Val.numericDate] at hq
  · obtain ⟨q, hq, _⟩ := hc.nbf_ok _ h; simp [Val.numericDate] at hq
  · obtain ⟨q, hq, _⟩ := hc.iat_ok _ h; simp [Val.numericDate] at hq

/-- a wrong issuer / subject (expected value given, claim differs) is never accepted -/
theorem wrong_iss_sub_never_accepted (c : Claims) (o : Options) (now lw : Int) (k : String)
    (hk : k = "iss" ∨ k = "sub" ∨ k = "jti") (opt : Opt) (ev : Val)
    (hl : o.lookup k = some opt) (hv : opt.value = some ev) (ht : ev.truthy = true)
    (hne : (getD c k).pyEq ev = false) : validate c o now lw ≠ none := by
  intro hn
  have hc := conforms_of_validate_none c o now lw hn
  have hvc : valueClaim k := by rcases hk with rfl | rfl | rfl <;> decide
  have := hc.value_ok k opt ev hvc hl hv ht
  rw [hne] at this; cases this

/-- a wrong audience is never accepted -/
theorem wrong_aud_never_accepted (c : Claims) (o : Options) (now lw : Int) (opt : Opt) (a : Val)
    (hl : o.lookup "aud" = some opt) (ha : c.lookup "aud" = some a) (ht : a.truthy = true)
    (hne : expectedAud opt ≠ []) (hall : ∀ v ∈ expectedAud opt, pyIn v (audList a) = false) :
    validate c o now lw ≠ none := by
  intro hn
  obtain ⟨v, hv, hp⟩ := (conforms_of_validate_none c o now lw hn).aud_ok opt a hl ha ht hne
  rw [hall v hv] at hp; cases hp

/-- non-vacuity: a conforming, non-trivial claim set exists and is accepted -/
example : validate
    [("iss", .atom (.str "https://as")), ("aud", .list [.str "x", .str "rs"]), ("exp", .atom (.int 100)),
     ("nbf", .atom (.flt 399))]
    [("iss", { essential := true, value := some (.atom (.str "https://as")) }),
     ("aud", { values := some [.atom (.str "rs")] })] 400 0 = none := by decide +kernel

example : validate [("exp", .atom (.int 99))] [] 400 0 = some .expired := by decide +kernel

end Props.C04
