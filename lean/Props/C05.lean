import Props.C05Core
import Props.C05Issuer
/-
  C05 — the authorization endpoint. `Props.C05Core` (namespace `Props.C05`): redirect targets, state,
  credentials. `Props.C05Issuer`: the same with the RFC 9207 issuer extension registered.
-/
