import Model.Provider
import Props.C06
/-
  C09 — token lifecycle over every history: refresh only for an unrevoked refresh token of the same
  client (and the replaced credential is revoked); a token revoked by its owner stays refused and
  inactive forever; foreign / unknown revocations change nothing; expired and unknown tokens are
  refused and inactive.
-/
namespace Props.C09
open Model Model.Provider Props.C06

/-- every token with access number `n` is revoked -/
def AllRevoked (s : Store) (n : Nat) : Prop := ∀ t ∈ s.tokens, t.access = n → isRevoked t = true

/-- access numbers never exceed the allocation counter -/
def Bounded (s : Store) : Prop := ∀ t ∈ s.tokens, t.access ≤ s.fresh

theorem mkToken_access (s : Store) (c : Client) (u : Option Nat) (sc : Option Text.Str) (r : Bool) (p : Prov) (e : Int) :
    (mkToken s c u sc r p e).1.access = s.fresh + 1 ∧ s.fresh + 1 ≤ (mkToken s c u sc r p e).2 ∧
    (mkToken s c u sc r p e).1.accessRevoked = false := by
  unfold mkToken; split <;> simp

theorem revokeTok_mem (ts : List TokRec) (n : Nat) (a r : Bool) (t' : TokRec) (h : t' ∈ revokeTok ts n a r) :
    ∃ t ∈ ts, t'.access = t.access ∧ (isRevoked t = true → isRevoked t' = true) ∧
      (t.access = n → a = true → isRevoked t' = true) := by
  unfold revokeTok at h
  obtain ⟨t, ht, rfl⟩ := List.mem_map.mp h
  refine ⟨t, ht, ?_, ?_, ?_⟩
  · split <;> rfl
  · intro hr
    split
    · simp only [isRevoked] at hr ⊢
      cases h1 : t.accessRevoked <;> cases h2 : t.refreshRevoked <;> simp_all
    · exact hr
  · intro hn ha
    subst hn; subst ha
    simp [isRevoked]

/-- the two facts the permanence theorem needs, for every request -/
theorem step_preserves (s : Store) (op : Op) (n : Nat) (hb : Bounded s) :
    Bounded (step s op).1 ∧ (n ≤ s.fresh → AllRevoked s n → AllRevoked (step s op).1 n) := by
  have keep : Bounded s ∧ (n ≤ s.fresh → AllRevoked s n → AllRevoked s n) := ⟨hb, fun _ h => h⟩
  -- appending a fresh token
  have app : ∀ (c : Client) (u : Option Nat) (sc : Option Text.Str) (r : Bool) (p : Prov) (e : Int) (ts : List TokRec),
      (∀ t' ∈ ts, ∃ t ∈ s.tokens, t'.access = t.access ∧ (isRevoked t = true → isRevoked t' = true)) →
      Bounded { s with fresh := (mkToken s c u sc r p e).2, tokens := ts ++ [(mkToken s c u sc r p e).1] } ∧
      (n ≤ s.fresh → AllRevoked s n →
        AllRevoked { s with fresh := (mkToken s c u sc r p e).2, tokens := ts ++ [(mkToken s c u sc r p e).1] } n) := by
    intro c u sc r p e ts hts
    have hm := mkToken_access s c u sc r p e
    constructor
    · intro t ht
      rcases List.mem_append.mp ht with ht | ht
      · obtain ⟨t0, ht0, hacc, _⟩ := hts t ht
        show t.access ≤ _
        rw [hacc]; exact Nat.le_trans (hb t0 ht0) (Nat.le_trans (Nat.le_succ _) hm.2.1)
      · simp at ht; subst ht
        show _ ≤ (mkToken s c u sc r p e).2
        rw [hm.1]; exact hm.2.1
    · intro hn hall t ht hacc
      rcases List.mem_append.mp ht with ht | ht
      · obtain ⟨t0, ht0, hacc0, hrev⟩ := hts t ht
        exact hrev (hall t0 ht0 (by rw [← hacc0]; exact hacc))
      · simp at ht; subst ht
        rw [hm.1] at hacc; omega
  have same : ∀ t' ∈ s.tokens, ∃ t ∈ s.tokens, t'.access = t.access ∧ (isRevoked t = true → isRevoked t' = true) :=
    fun t' h => ⟨t', h, rfl, id⟩
  have rev : ∀ (k : Nat) (a r : Bool), ∀ t' ∈ revokeTok s.tokens k a r,
      ∃ t ∈ s.tokens, t'.access = t.access ∧ (isRevoked t = true → isRevoked t' = true) := by
    intro k a r t' h
    obtain ⟨t, ht, h1, h2, _⟩ := revokeTok_mem s.tokens k a r t' h
    exact ⟨t, ht, h1, h2⟩
  cases op with
  | authorize cid redirect scope challenge method user approve =>
    simp only [step]
    repeat' split
    all_goals first
      | exact keep
      | exact ⟨fun t ht => Nat.le_succ_of_le (hb t ht), fun _ h => h⟩
  | redeem auth code redirect verifier =>
    simp only [step]
    cases hc : redeemCheck s auth code redirect verifier with
    | error e => exact keep
    | ok v =>
      obtain ⟨c, m, rec⟩ := v
      have := app c (some rec.user) rec.scope true (.code rec.n) 864000 s.tokens same
      exact ⟨this.1, this.2⟩
  | deviceAuthorize auth cidParam scope =>
    simp only [step]
    repeat' split
    all_goals first
      | exact keep
      | exact ⟨fun t ht => Nat.le_trans (hb t ht) (by simp), fun _ h => h⟩
  | userDecide uc user approve => exact ⟨hb, fun _ h => h⟩
  | poll auth dc =>
    simp only [step]
    repeat' split
    all_goals first
      | exact keep
      | exact ⟨hb, fun _ h => h⟩
      | exact app _ _ _ _ _ _ s.tokens same
  | issuePassword auth user scope =>
    simp only [step]
    repeat' split
    all_goals first
      | exact keep
      | exact app _ _ _ _ _ _ s.tokens same
  | issueClientCredentials auth scope =>
    simp only [step]
    repeat' split
    all_goals first
      | exact keep
      | exact app _ _ _ _ _ _ s.tokens same
  | refresh auth token scope =>
    simp only [step]
    repeat' split
    all_goals first
      | exact keep
      | exact app _ _ _ _ _ _ _ (rev _ _ _)
  | revoke auth token hint =>
    simp only [step]
    repeat' split
    all_goals first
      | exact keep
      | (constructor
         · intro t' ht'
           obtain ⟨t, ht, h1, _⟩ := rev _ _ _ t' ht'
           show t'.access ≤ s.fresh
           rw [h1]; exact hb t ht
         · intro _ hall t' ht' hacc
           obtain ⟨t, ht, h1, h2⟩ := rev _ _ _ t' ht'
           exact h2 (hall t ht (by rw [← h1]; exact hacc)))
  | introspect auth token hint =>
    simp only [step]
    repeat' split
    all_goals exact keep
  | access token required =>
    simp only [step]
    repeat' split
    all_goals exact keep
  | advance dt => exact ⟨hb, fun _ h => h⟩

theorem fresh_mono (s : Store) (op : Op) : s.fresh ≤ (step s op).1.fresh := by
  cases op <;> simp only [step]
  all_goals (repeat' split)
  all_goals first
    | exact Nat.le_refl _
    | exact Nat.le_succ _
    | (show s.fresh ≤ (mkToken _ _ _ _ _ _ _).2; exact (mkToken_fresh _ _ _ _ _ _ _).1)
    | (simp only []; omega)
    | simp

theorem run_preserves (ops : List Op) (n : Nat) : ∀ s, Bounded s → n ≤ s.fresh → AllRevoked s n →
    AllRevoked (run s ops) n := by
  induction ops with
  | nil => intro s _ _ h; exact h
  | cons op ops ih =>
    intro s hb hn hall
    have := step_preserves s op n hb
    exact ih _ this.1 (Nat.le_trans hn (fresh_mono s op)) (this.2 hn hall)

/-- `Bounded` holds in every reachable state (so the hypotheses below are satisfiable everywhere) -/
theorem bounded_reachable (ops : List Op) : ∀ s, Bounded s → Bounded (run s ops) := by
  induction ops with
  | nil => intro s h; exact h
  | cons op ops ih => intro s h; exact ih _ (step_preserves s op 0 h).1

theorem bounded_empty (s : Store) (h : s.tokens = []) : Bounded s := by
  intro t ht; rw [h] at ht; cases ht

theorem queryToken_at_spec (s : Store) (n : Nat) (hint : Option String) (t : TokRec)
    (h : queryToken s (.at n) hint = some t) : t ∈ s.tokens ∧ t.access = n := by
  unfold queryToken at h
  simp only at h
  have key : s.tokens.find? (fun (t : TokRec) => t.access == n) = some t := by
    split at h
    · split at h <;> first | exact h | cases h
    · exact h
  obtain ⟨hm, hp⟩ := find_mem _ s.tokens t key
  exact ⟨hm, by simpa using hp⟩

/-- a revoked token is refused by the resource protector … -/
theorem access_revoked_refused (s : Store) (n : Nat) (req : Option (List Text.Str)) (h : AllRevoked s n) :
    (step s (.access (some (.at n)) req)).2.status = 401 := by
  simp only [step]
  cases hf : s.tokens.find? (fun (t : TokRec) => t.access == n) with
  | none => rfl
  | some t =>
    obtain ⟨hm, hp⟩ := find_mem _ s.tokens t hf
    have hr := h t hm (by simpa using hp)
    simp only
    split
    · rfl
    · simp [hr, err]

/-- … and reported inactive by introspection, whoever asks and whatever the hint -/
theorem introspect_revoked_inactive (s : Store) (auth : Auth) (n : Nat) (hint : Option String) (h : AllRevoked s n) :
    (step s (.introspect auth (some (.at n)) hint)).2.active ≠ some true := by
  simp only [step]
  cases ha : authClient s auth secretMethods with
  | none => simp [err]
  | some cm =>
    obtain ⟨c, m⟩ := cm
    simp only
    split
    · simp [err]
    · cases hq : queryToken s (.at n) hint with
      | none => simp
      | some t =>
        simp only
        have hr : isRevoked t = true := by
          obtain ⟨hm, hp⟩ := queryToken_at_spec s n hint t hq
          exact h t hm hp
        split
        · simp
        · simp [hr]

/-- the owner's revocation request marks every record of that token revoked -/
theorem owner_revoke_revokes (s : Store) (auth : Auth) (n : Nat) (hint : Option String) (c : Client) (m : String) (t : TokRec)
    (ha : authClient s auth secretMethods = some (c, m)) (hq : queryToken s (.at n) hint = some t)
    (hown : t.client = c.id) (hhint : truthyS hint = false ∨ hint = some "access_token" ∨ hint = some "refresh_token") :
    (step s (.revoke auth (some (.at n)) hint)).2.status = 200 ∧ AllRevoked (step s (.revoke auth (some (.at n)) hint)).1 n := by
  have hacc : t.access = n := (queryToken_at_spec s n hint t hq).2
  have hh : (truthyS hint && !(["access_token", "refresh_token"].contains (hint.getD ""))) = false := by
    rcases hhint with h | h | h
    · simp [h]
    · subst h; rfl
    · subst h; rfl
  have hcl : (t.client != c.id) = false := by simp [hown]
  simp only [step, ha, hh, hq, hcl, Bool.false_eq_true, if_false]
  refine ⟨by first | rfl | trivial, ?_⟩
  intro t' ht' hacc'
  obtain ⟨t0, _, h1, _, h3⟩ := revokeTok_mem s.tokens t.access true (hint != some "access_token") t' ht'
  exact h3 (by rw [← h1, hacc', hacc]) rfl

/-- **Revocation by the owner is permanent**: after the owner's request was answered, whatever
    requests follow, the token is refused by the resource protector and reported inactive. -/
theorem owner_revoke_is_permanent (s : Store) (hb : Bounded s) (auth : Auth) (n : Nat) (hint : Option String)
    (c : Client) (m : String) (t : TokRec) (ha : authClient s auth secretMethods = some (c, m))
    (hq : queryToken s (.at n) hint = some t) (hown : t.client = c.id)
    (hhint : truthyS hint = false ∨ hint = some "access_token" ∨ hint = some "refresh_token")
    (later : List Op) (req : Option (List Text.Str)) (auth' : Auth) (hint' : Option String) :
    let s' := run (step s (.revoke auth (some (.at n)) hint)).1 later
    (step s' (.access (some (.at n)) req)).2.status = 401 ∧
    (step s' (.introspect auth' (some (.at n)) hint')).2.active ≠ some true := by
  intro s'
  have h1 := owner_revoke_revokes s auth n hint c m t ha hq hown hhint
  have hn : n ≤ s.fresh := by
    obtain ⟨hm, hp⟩ := queryToken_at_spec s n hint t hq
    rw [← hp]; exact hb t hm
  have hb1 := (step_preserves s (.revoke auth (some (.at n)) hint) n hb).1
  have hall : AllRevoked s' n :=
    run_preserves later n _ hb1 (Nat.le_trans hn (fresh_mono s _)) h1.2
  exact ⟨access_revoked_refused s' n req hall, introspect_revoked_inactive s' auth' n hint' hall⟩

/-- a revocation request made by a different client is refused and leaves the store untouched -/
theorem foreign_revoke_refused_and_frame (s : Store) (auth : Auth) (ref : Ref) (hint : Option String) (c : Client) (m : String)
    (t : TokRec) (ha : authClient s auth secretMethods = some (c, m)) (hq : queryToken s ref hint = some t)
    (hforeign : t.client ≠ c.id) (hhint : (truthyS hint && !(["access_token", "refresh_token"].contains (hint.getD ""))) = false) :
    step s (.revoke auth (some ref) hint) = (s, err 400 "invalid_grant") := by
  have hcl : (t.client != c.id) = true := by simp [hforeign]
  simp only [step, ha, hhint, hq, hcl, Bool.false_eq_true, if_false, if_true]

/-- revoking an unknown token still answers 200 and changes nothing -/
theorem unknown_revoke_200_and_frame (s : Store) (auth : Auth) (ref : Ref) (hint : Option String) (c : Client) (m : String)
    (ha : authClient s auth secretMethods = some (c, m)) (hq : queryToken s ref hint = none)
    (hhint : (truthyS hint && !(["access_token", "refresh_token"].contains (hint.getD ""))) = false) :
    step s (.revoke auth (some ref) hint) = (s, { status := 200 }) := by
  simp only [step, ha, hhint, hq, Bool.false_eq_true, if_false]

/-- unknown and expired tokens are refused by the resource protector -/
theorem expired_or_unknown_refused (s : Store) (n : Nat) (req : Option (List Text.Str))
    (h : ∀ t ∈ s.tokens, t.access = n → isExpired s t = true) :
    (step s (.access (some (.at n)) req)).2.status = 401 := by
  simp only [step]
  cases hf : s.tokens.find? (fun (t : TokRec) => t.access == n) with
  | none => rfl
  | some t =>
    obtain ⟨hm, hp⟩ := find_mem _ s.tokens t hf
    have := h t hm (by simpa using hp)
    simp [this, err]

/-- a refresh succeeds only for an unrevoked refresh token presented by the client it was issued
    to, and the credential it replaces is revoked in the same step -/
theorem refresh_ok_implies_unrevoked_same_client (s : Store) (hb : Bounded s) (auth : Auth) (token : Option Ref)
    (scope : Option Text.Str) (a : Nat) (h : (step s (.refresh auth token scope)).2.access = some a) :
    ∃ c m old r, authClient s auth allMethods = some (c, m) ∧ token = some (.rt r) ∧ old ∈ s.tokens ∧
      old.refresh = some r ∧ old.refreshRevoked = false ∧ old.client = c.id ∧
      AllRevoked (step s (.refresh auth token scope)).1 old.access := by
  simp only [step] at h ⊢
  cases ha : authClient s auth allMethods with
  | none => simp [ha, err] at h
  | some cm =>
    obtain ⟨c, m⟩ := cm
    simp only [ha] at h ⊢
    cases token with
    | none => simp [err] at h
    | some ref =>
      simp only at h ⊢
      cases ref with
      | rt r =>
        simp only at h ⊢
        cases hf : s.tokens.find? (fun (t : TokRec) => t.refresh == some r && !t.refreshRevoked) with
        | none => simp [hf, err] at h
        | some old =>
          simp only [hf] at h ⊢
          obtain ⟨hmem, hp⟩ := find_mem _ s.tokens old hf
          simp only [Bool.and_eq_true, beq_iff_eq, Bool.not_eq_true'] at hp
          by_cases hcl : (old.client != c.id) = true
          · simp [hcl, err] at h
          · simp only [hcl, Bool.false_eq_true, if_false] at h ⊢
            by_cases hsc : (!Scope.validateTokenScope scope old.scope) = true
            · simp [hsc, err] at h
            · simp only [hsc, Bool.false_eq_true, if_false] at h ⊢
              cases hu : old.user with
              | none => simp [hu, err] at h
              | some u =>
                simp only [hu] at h ⊢
                refine ⟨c, m, old, r, rfl, rfl, hmem, hp.1, hp.2, by simpa using hcl, ?_⟩
                intro t' ht' hacc'
                rcases List.mem_append.mp ht' with ht' | ht'
                · obtain ⟨t0, _, h1, _, h3⟩ := revokeTok_mem s.tokens old.access true true t' ht'
                  exact h3 (by rw [← h1, hacc']) rfl
                · simp at ht'
                  subst ht'
                  exfalso
                  have hm := mkToken_access s c (some u) (if Scope.truthy scope then scope else old.scope) true (.refresh old.access) 3600
                  have := hb old hmem
                  rw [hm.1] at hacc'
                  omega
      | _ => simp [err] at h

end Props.C09
