import Model.Jwe
import Generated.Jwe
/-
  C03 — the JWE registries as the code has them NOW (regenerated on every run) against RFC 7518,
  and the model's parameters against the code's.
-/
namespace Props.C03Registry
open Model Model.Jwe

/-- RFC 7518 §5.1 / §5.2.3–5 / §5.3: the six content-encryption algorithms with their CEK and IV sizes
    (A128CBC-HS256: 256-bit CEK, 128-bit IV, 16-octet MAC key = tag length, SHA-256; …; AxxxGCM: xxx-bit CEK, 96-bit IV) -/
theorem enc_registry_eq_rfc7518 :
    Generated.Jwe.encRegistry =
      [("A128CBC-HS256", "CBCHS2EncAlgorithm", 256, 128, 16, "sha256"), ("A128GCM", "GCMEncAlgorithm", 128, 96, 0, ""),
       ("A192CBC-HS384", "CBCHS2EncAlgorithm", 384, 128, 24, "sha384"), ("A192GCM", "GCMEncAlgorithm", 192, 96, 0, ""),
       ("A256CBC-HS512", "CBCHS2EncAlgorithm", 512, 128, 32, "sha512"), ("A256GCM", "GCMEncAlgorithm", 256, 96, 0, "")] := by
  decide +kernel

/-- RFC 7518 §4.1: the key-management algorithms of the specification with the key size each demands -/
theorem alg_registry_eq_rfc7518 :
    Generated.Jwe.algRegistry =
      [("A128GCMKW", "AESGCMAlgorithm", 128), ("A128KW", "AESAlgorithm", 128), ("A192GCMKW", "AESGCMAlgorithm", 192),
       ("A192KW", "AESAlgorithm", 192), ("A256GCMKW", "AESGCMAlgorithm", 256), ("A256KW", "AESAlgorithm", 256),
       ("ECDH-ES", "ECDHESAlgorithm", 0), ("ECDH-ES+A128KW", "ECDHESAlgorithm", 128), ("ECDH-ES+A192KW", "ECDHESAlgorithm", 192),
       ("ECDH-ES+A256KW", "ECDHESAlgorithm", 256), ("RSA-OAEP", "RSAAlgorithm", 2048), ("RSA-OAEP-256", "RSAAlgorithm", 2048),
       ("RSA1_5", "RSAAlgorithm", 2048), ("dir", "DirectAlgorithm", 0)] := by
  decide +kernel

theorem zip_registry_eq_rfc7516 : Generated.Jwe.zipRegistry = ["DEF"] := by decide

/-- the model's AES-CBC-HMAC parameters are the code's: for every registered CBC-HS algorithm the model knows the
    name and uses the same MAC-key / tag length; the CEK is twice that, the IV 128 bits -/
theorem cbc_model_params_are_the_codes :
    ∀ e ∈ Generated.Jwe.encRegistry, e.2.1 = "CBCHS2EncAlgorithm" →
      ∃ c, cbcHs e.1 = some c ∧ c.keyLen = e.2.2.2.2.1 ∧ e.2.2.1 = 2 * 8 * c.keyLen ∧ e.2.2.2.1 = 128 := by
  decide +kernel

/-- the tag is the leftmost half of the hash output (RFC 7518 §5.2.2.1 step 4): MAC-key octets = hash bits / 16 -/
theorem cbc_tag_is_half_the_hash :
    ∀ e ∈ Generated.Jwe.encRegistry, e.2.1 = "CBCHS2EncAlgorithm" →
      (e.2.2.2.2.2 = "sha256" ∧ e.2.2.2.2.1 = 16) ∨ (e.2.2.2.2.2 = "sha384" ∧ e.2.2.2.2.1 = 24) ∨
      (e.2.2.2.2.2 = "sha512" ∧ e.2.2.2.2.1 = 32) := by
  decide +kernel

/-- every algorithm that is not CBC-HS is AES-GCM with CEK size = the size in its name and a 96-bit IV -/
theorem gcm_params :
    ∀ e ∈ Generated.Jwe.encRegistry, e.2.1 ≠ "CBCHS2EncAlgorithm" →
      e.2.1 = "GCMEncAlgorithm" ∧ e.2.2.2.1 = 96 ∧ (e.2.2.1 = 128 ∨ e.2.2.1 = 192 ∨ e.2.2.1 = 256) := by
  decide +kernel

end Props.C03Registry
