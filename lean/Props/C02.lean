import Props.C02Keys
import Model.KeyPolicy
/-
  C02 — algorithm allow-list, key-family matching, key selection, use / key_ops, crit, and the
  HMAC-secret guard. `policy` is the verification-side decision; signature checking itself is C01.
-/
namespace Props.C02
open Model Model.Jws Model.KeyPolicy

/-- **Core statement.** A key is handed to signature verification only if the algorithm is named
    by the header, registered, on the allow-list, not `none`, of the same family (and curve) as the
    key, the key is the one the caller designated (by `kid` for key sets), `use`/`key_ops` permit
    verification, and every `crit` extension is understood and present. -/
theorem verified_implies_policy (registry : String → Option Alg) (privOps : List String)
    (allowed : Option (List String)) (privHdrs : List String) (h : Hdr) (arg : KeyArg) (a : Alg) (k : KeyDesc)
    (hp : policy registry privOps allowed privHdrs h arg = .ok (a, k)) :
    ∃ name, h.alg = some name ∧ registry name = some a ∧ (∀ l, allowed = some l → name ∈ l) ∧
      a ≠ .none ∧ familyOk a k.kty = true ∧ selectKey arg h.kid h.jwk = .ok k ∧
      checkKeyOp privOps "verify" k = .ok () ∧ critOk privHdrs h = true := by
  unfold policy at hp
  by_cases hc : critOk privHdrs h = true
  · simp only [hc, Bool.not_true, Bool.false_eq_true, if_false] at hp
    cases halg : h.alg with
    | none => simp [halg] at hp
    | some name =>
      simp only [halg] at hp
      by_cases hal : allowedOk allowed name = true
      · simp only [hal, Bool.not_true, Bool.false_eq_true, if_false] at hp
        cases hreg : registry name with
        | none => simp [hreg] at hp
        | some a' =>
          simp only [hreg] at hp
          cases hsel : selectKey arg h.kid h.jwk with
          | error e => simp [hsel] at hp
          | ok k' =>
            simp only [hsel] at hp
            by_cases hf : familyOk a' k'.kty = true
            · simp only [hf, Bool.not_true, Bool.false_eq_true, if_false] at hp
              cases hck : checkKeyOp privOps "verify" k' with
              | error e => cases a' <;> simp [hck] at hp
              | ok u =>
                have hne : a' ≠ .none := by
                  intro e; subst e; simp at hp
                have hpair : (a', k') = (a, k) := by
                  cases a' <;> simp [hck] at hp <;> first | exact absurd rfl hne | (obtain ⟨h1, h2⟩ := hp; subst h1; subst h2; rfl)
                injection hpair with h1 h2
                subst h1; subst h2
                refine ⟨name, rfl, hreg, ?_, hne, hf, rfl, hck, hc⟩
                intro l hl; subst hl
                simpa [allowedOk] using hal
            · have : familyOk a' k'.kty = false := by simpa using hf
              simp [this] at hp
      · have : allowedOk allowed name = false := by simpa using hal
        simp [this] at hp
  · have : critOk privHdrs h = false := by simpa using hc
    simp [this] at hp

/-- `alg: none` never reaches verification with a key -/
theorem none_rejected (registry : String → Option Alg) (privOps : List String) (allowed : Option (List String))
    (privHdrs : List String) (h : Hdr) (arg : KeyArg) (k : KeyDesc) :
    policy registry privOps allowed privHdrs h arg ≠ .ok (.none, k) := by
  intro hp
  obtain ⟨_, _, _, _, hne, _⟩ := verified_implies_policy registry privOps allowed privHdrs h arg .none k hp
  exact hne rfl

/-- an EC key of another curve never verifies -/
theorem wrong_curve_rejected (registry : String → Option Alg) (privOps : List String) (allowed : Option (List String))
    (privHdrs : List String) (h : Hdr) (arg : KeyArg) (crv c : String) (n : Nat) (k : KeyDesc)
    (hk : k.kty = .ec c) (hne : crv ≠ c) :
    policy registry privOps allowed privHdrs h arg ≠ .ok (.es crv n, k) := by
  intro hp
  obtain ⟨_, _, _, _, _, hf, _⟩ := verified_implies_policy registry privOps allowed privHdrs h arg _ k hp
  rw [hk] at hf
  simp [familyOk, hne] at hf

/-- a key of another family never verifies (HS* with an asymmetric key object, RS* with oct, …) -/
theorem wrong_family_rejected (registry : String → Option Alg) (privOps : List String) (allowed : Option (List String))
    (privHdrs : List String) (h : Hdr) (arg : KeyArg) (a : Alg) (k : KeyDesc) (hf : familyOk a k.kty = false) :
    policy registry privOps allowed privHdrs h arg ≠ .ok (a, k) := by
  intro hp
  obtain ⟨_, _, _, _, _, hf', _⟩ := verified_implies_policy registry privOps allowed privHdrs h arg a k hp
  rw [hf] at hf'; cases hf'

/-! ### key selection -/

theorem find_some_mem {α} (p : α → Bool) : ∀ (l : List α) (a : α), l.find? p = some a → a ∈ l ∧ p a = true
  | [], a, h => by simp at h
  | x :: l, a, h => by
    simp only [List.find?_cons] at h
    split at h
    · rename_i hx
      injection h with h; subst h; exact ⟨by simp, hx⟩
    · obtain ⟨h1, h2⟩ := find_some_mem p l a h
      exact ⟨by simp [h1], h2⟩

/-- with a key set, the key is picked by the header kid -/
theorem kid_selects_designated_key (ks : List KeyDesc) (isObj : Bool) (kid : String) (k : KeyDesc)
    (h : selectKey (if isObj then .keySet ks else .dictSet ks) (some kid) = .ok k) :
    k ∈ ks ∧ k.kid = some kid := by
  cases isObj <;> simp only [Bool.false_eq_true, if_false, if_true, selectKey] at h
  all_goals
    cases hf : ks.find? (fun k => k.kid == some kid) with
    | none => simp [hf] at h
    | some k' =>
      simp only [hf] at h
      injection h with h; subst h
      obtain ⟨h1, h2⟩ := find_some_mem _ ks k' hf
      exact ⟨h1, by simpa using h2⟩

/-- an unknown kid is an error, not a trial of other keys -/
theorem unknown_kid_is_error (ks : List KeyDesc) (isObj : Bool) (kid : String)
    (hno : ∀ k ∈ ks, k.kid ≠ some kid) :
    selectKey (if isObj then .keySet ks else .dictSet ks) (some kid) = .error .keyValue := by
  have hf : ks.find? (fun k => k.kid == some kid) = none := by
    apply List.find?_eq_none.mpr
    intro k hk
    simpa using hno k hk
  cases isObj <;> simp [selectKey, hf]

/-- a missing kid when several keys exist (or none) is an error -/
theorem missing_kid_many_keys_is_error (ks : List KeyDesc) (isObj : Bool) (hlen : ks.length ≠ 1) :
    selectKey (if isObj then .keySet ks else .dictSet ks) none = .error .keyValue := by
  cases isObj <;> simp only [Bool.false_eq_true, if_false, if_true, selectKey]
  all_goals
    match ks, hlen with
    | [], _ => rfl
    | [_], h => exact absurd rfl h
    | _ :: _ :: _, _ => rfl

/-! ### key resolvers, no key, and the token's own `jwk` header -/

/-- a key resolver's answer is the key that is used, whatever key the token offers in its own `jwk` header -/
theorem resolver_key_is_used (k : KeyDesc) (kid : Option String) (embedded : Option KeyDesc) :
    selectKey (.resolver (some k)) kid embedded = .ok k := rfl

/-- a resolver that has no key for the token is an error — the token's own `jwk` header is NOT tried -/
theorem resolver_without_key_is_error (kid : Option String) (embedded : Option KeyDesc) :
    selectKey (.resolver none) kid embedded = .error .keyValue := rfl

/-- hence: nothing is verified when the resolver has no key, for every header (in particular one that carries a `jwk`) -/
theorem resolver_without_key_never_verifies (registry : String → Option Alg) (privOps : List String)
    (allowed : Option (List String)) (privHdrs : List String) (h : Hdr) (a : Alg) (k : KeyDesc) :
    policy registry privOps allowed privHdrs h (.resolver none) ≠ .ok (a, k) := by
  intro hp
  obtain ⟨_, _, _, _, _, _, hsel, _⟩ := verified_implies_policy registry privOps allowed privHdrs h _ a k hp
  simp [selectKey] at hsel

/-- the key a token carries in its own `jwk` header is used only when the caller designated no key at all -/
theorem embedded_jwk_only_without_designated_key (arg : KeyArg) (kid : Option String) (e k : KeyDesc)
    (h : selectKey arg kid (some e) = .ok k) (hne : selectKey arg kid none ≠ .ok k) : arg = .absent := by
  cases arg with
  | absent => rfl
  | single k' => simp [selectKey] at h hne; exact absurd h hne
  | keySet ks => exact absurd h hne
  | dictSet ks => exact absurd h hne
  | resolver a =>
    cases a with
    | none => simp [selectKey] at h
    | some k' => exact absurd h hne

/-- no key and no `jwk` header: an error -/
theorem absent_key_without_jwk_is_error (kid : Option String) : selectKey .absent kid none = .error .keyValue := rfl

/-! ### use / key_ops -/

theorem use_keyops_honoured (privOps : List String) (k : KeyDesc) (h : checkKeyOp privOps "verify" k = .ok ()) :
    (∀ ops, k.keyOps = some ops → "verify" ∈ ops) ∧ (∀ u, k.use = some u → u ≠ "" → u = "sig") := by
  unfold checkKeyOp at h
  by_cases h1 : keyOpsAllow k "verify" = true
  · simp only [h1, Bool.not_true, Bool.false_eq_true, if_false] at h
    by_cases h2 : privOpOnPublic privOps "verify" k = true
    · simp [h2] at h
    · simp only [h2, if_false] at h
      by_cases h3 : useOk k = true
      · constructor
        · intro ops ho
          simpa [keyOpsAllow, ho] using h1
        · intro u hu hne
          simp only [useOk, hu, Bool.or_eq_true] at h3
          rcases h3 with hE | hs
          · exact absurd (String.isEmpty_iff.mp hE) hne
          · simpa using hs
      · simp [h3] at h
  · have : keyOpsAllow k "verify" = false := by simpa using h1
    simp [this] at h

/-! ### crit -/

/-- a JWS listing under `crit` an extension the library does not implement, or one that is absent
    from the header, is rejected -/
theorem crit_unknown_rejected (registry : String → Option Alg) (privOps : List String) (allowed : Option (List String))
    (privHdrs : List String) (h : Hdr) (arg : KeyArg) (names : List String) (n : String)
    (hcrit : h.crit = some names) (hn : n ∈ names) (hbad : n ∉ privHdrs ∨ n ∉ h.members) :
    policy registry privOps allowed privHdrs h arg = .error .invalidHeaderName := by
  have : critOk privHdrs h = false := by
    unfold critOk
    simp only [hcrit]
    apply Bool.eq_false_iff.mpr
    intro hall
    simp only [Bool.and_eq_true] at hall
    have := List.all_eq_true.mp hall.2 n hn
    simp only [Bool.and_eq_true] at this
    rcases hbad with hb | hb
    · exact hb (by simpa using this.1)
    · exact hb (by simpa using this.2)
  simp [policy, this]

/-- with no private headers configured, every `crit` is rejected (the library implements no extension) -/
theorem any_crit_rejected_by_default (registry : String → Option Alg) (privOps : List String)
    (allowed : Option (List String)) (h : Hdr) (arg : KeyArg) (names : List String) (hcrit : h.crit = some names) :
    policy registry privOps allowed [] h arg = .error .invalidHeaderName := by
  have : critOk [] h = false := by
    unfold critOk
    simp only [hcrit]
    cases names with
    | nil => simp
    | cons n ns => simp
  simp [policy, this]

/-! ### asymmetric key text is never an HMAC secret -/

theorem isPrefix_append (m post : Bytes) : isPrefix m (m ++ post) = true := by
  simp [isPrefix]

theorem isInfix_of_isPrefix (m s : Bytes) (h : isPrefix m s = true) : isInfix m s = true := by
  cases s with
  | nil =>
    simp only [isInfix]
    simp only [isPrefix, List.take_nil] at h
    have : m = [] := by simpa using h.symm
    simp [this]
  | cons c r => simp [isInfix, h]

theorem isInfix_append (m : Bytes) : ∀ (pre post : Bytes), isInfix m (pre ++ (m ++ post)) = true
  | [], post => by
    simp only [List.nil_append]
    exact isInfix_of_isPrefix m _ (isPrefix_append m post)
  | x :: pre, post => by
    simp only [List.cons_append, isInfix]
    simp [isInfix_append m pre post]

/-- What `cryptography` can load as a key from text (stated as a hypothesis about the primitive):
    either an SSH public key line starting with a key-type token, or text containing a PEM armor. -/
def PemNeedsMarker (loads : Bytes → Bool) : Prop :=
  ∀ raw, loads raw = true →
    (∃ p ∈ [Model.strBytes "ssh-rsa ", Model.strBytes "ssh-dss ", Model.strBytes "ssh-ed25519 ", Model.strBytes "ecdsa-sha2-"],
        isPrefix p raw = true) ∨
    (∃ pre post, raw = pre ++ Model.strBytes "-----BEGIN " ++ post)

/-- **HS/RS confusion guard**, over the prefix and marker lists regenerated from the code:
    every byte string the asymmetric loader accepts is refused as an HMAC secret. -/
theorem asym_text_never_hmac_key (loads : Bytes → Bool) (hl : PemNeedsMarker loads) (raw : Bytes)
    (h : loads raw = true) :
    octImportOk Generated.Jose.possibleUnsafeKeys Generated.Jose.possibleUnsafeMarkers raw = false := by
  have hsub : ∀ p ∈ [Model.strBytes "ssh-rsa ", Model.strBytes "ssh-dss ", Model.strBytes "ssh-ed25519 ", Model.strBytes "ecdsa-sha2-"],
      p ∈ Generated.Jose.possibleUnsafeKeys := by decide +kernel
  have hmark : Model.strBytes "-----BEGIN " ∈ Generated.Jose.possibleUnsafeMarkers := by decide +kernel
  unfold octImportOk
  rcases hl raw h with ⟨p, hp, hpre⟩ | ⟨pre, post, rfl⟩
  · have : Generated.Jose.possibleUnsafeKeys.any (fun q => isPrefix q raw) = true :=
      List.any_eq_true.mpr ⟨p, hsub p hp, hpre⟩
    simp [this]
  · have : Generated.Jose.possibleUnsafeMarkers.any (fun m => isInfix m (pre ++ Model.strBytes "-----BEGIN " ++ post)) = true :=
      List.any_eq_true.mpr ⟨_, hmark, by rw [List.append_assoc]; exact isInfix_append _ pre post⟩
    rw [this]; simp

/-- the witness that used to be accepted (leading newline before the armor line) -/
example : octImportOk Generated.Jose.possibleUnsafeKeys Generated.Jose.possibleUnsafeMarkers
    (Model.strBytes "\n-----BEGIN PUBLIC KEY-----\nMIIB") = false := by decide +kernel

/-- an ordinary secret is still importable (non-vacuity) -/
example : octImportOk Generated.Jose.possibleUnsafeKeys Generated.Jose.possibleUnsafeMarkers
    (Model.strBytes "correct horse battery staple") = true := by decide +kernel

end Props.C02
