import Model.JwtAccessToken
import Props.C04
/-
  C10 (RFC 9068 part) — a JWT access token is served only if it decoded (signature, algorithm and key
  accepted: C01 / C02), carries the resource server's issuer and audience, is unexpired, has every
  required claim and a fitting `typ`, and satisfies the required scope (403 otherwise) and groups /
  roles / entitlements.  Built on the claims theorems of C04.
-/
namespace Props.C10Jwt
open Model Model.Claims Model.JwtAccessToken Model.Resource Props.C04

theorem orElseP_none {a : Option Err} {b : Unit → Option Err} (h : orElse' a b = none) : a = none ∧ b () = none := by
  cases a with
  | none => exact ⟨rfl, h⟩
  | some e => cases h

/-- serving a token implies every clause -/
theorem served_implies (decoded : Option (Val × Claims)) (issuer rs : String) (now : Int) (r : Required)
    (h : serve decoded issuer rs now r = .served) :
    ∃ typ c, decoded = some (typ, c) ∧ typErr typ = none ∧ Claims.validate c (options issuer rs) now 0 = none ∧
      extraChecks c = none ∧ insufficient (getD c "scope") r.scopes = false ∧ insufficient (getD c "groups") r.groups = false ∧
      insufficient (getD c "roles") r.roles = false ∧ insufficient (getD c "entitlements") r.entitlements = false := by
  unfold serve at h
  cases decoded with
  | none => cases h
  | some tc =>
    obtain ⟨typ, c⟩ := tc
    simp only at h
    cases hv : JwtAccessToken.validate typ c issuer rs now with
    | some e => simp [hv] at h
    | none =>
      simp only [hv] at h
      unfold JwtAccessToken.validate at hv
      obtain ⟨h1, hv⟩ := orElseP_none hv
      obtain ⟨h2, h3⟩ := orElseP_none hv
      by_cases s1 : insufficient (getD c "scope") r.scopes = true
      · simp [s1] at h
      · by_cases s2 : insufficient (getD c "groups") r.groups = true
        · simp [s1, s2] at h
        · by_cases s3 : insufficient (getD c "roles") r.roles = true
          · simp [s1, s2, s3] at h
          · by_cases s4 : insufficient (getD c "entitlements") r.entitlements = true
            · simp [s1, s2, s3, s4] at h
            · exact ⟨typ, c, rfl, h1, h2, h3, by simpa using s1, by simpa using s2, by simpa using s3, by simpa using s4⟩

/-- a token that did not decode (bad signature, disallowed algorithm, unknown kid, malformed) is invalid_token -/
theorem undecodable_is_invalid_token (issuer rs : String) (now : Int) (r : Required) :
    serve none issuer rs now r = .invalidToken := rfl

/-- **a served token is for this resource server, from this issuer, unexpired, complete** -/
theorem served_token_is_valid (typ : Val) (c : Claims) (issuer rs : String) (now : Int) (r : Required) (hrs : rs ≠ "")
    (h : serve (some (typ, c)) issuer rs now r = .served) :
    (getD c "iss").pyEq (.atom (.str issuer)) = true ∧
    (∃ a, c.lookup "aud" = some a ∧ pyIn (.atom (.str rs)) (audList a) = true) ∧
    (∃ v q, c.lookup "exp" = some v ∧ v.numericDate = some q ∧ now ≤ q) ∧
    (∀ k ∈ ["iss", "exp", "aud", "sub", "client_id", "iat", "jti"], ∃ v, c.lookup k = some v ∧ v.truthy = true) := by
  obtain ⟨typ', c', hd, _, hval, _⟩ := served_implies _ issuer rs now r h
  injection hd with hd
  simp only [Prod.mk.injEq] at hd
  obtain ⟨rfl, rfl⟩ := hd
  have hc := conforms_of_validate_none c (options issuer rs) now 0 hval
  have hess : ∀ k ∈ ["iss", "exp", "aud", "sub", "client_id", "iat", "jti"], ∃ v, c.lookup k = some v ∧ v.truthy = true := by
    intro k hk
    simp only [List.mem_cons, List.mem_nil_iff, or_false] at hk
    rcases hk with rfl | rfl | rfl | rfl | rfl | rfl | rfl
    all_goals exact hc.essential_ok _ _ (by simp [options, List.lookup]; rfl) (by first | rfl | simp [essential])
  refine ⟨?_, ?_, ?_, hess⟩
  · have := hc.validator_ok "iss" _ (.eq (.atom (.str issuer))) (by decide) (by simp [options, List.lookup]; rfl) rfl
    simpa [Validator.run] using this
  · obtain ⟨a, ha, hat⟩ := hess "aud" (by simp)
    have hrs' : (rs != "") = true := by simpa using hrs
    obtain ⟨v, hv, hp⟩ := hc.aud_ok _ a (by simp [options, List.lookup]; rfl) ha hat (by simp [expectedAud, optListTruthy, optTruthy, Val.truthy, hrs'])
    simp only [expectedAud, optListTruthy, optTruthy, Val.truthy, hrs', if_true, List.mem_singleton] at hv
    subst hv
    exact ⟨a, ha, hp⟩
  · obtain ⟨v, hv, _⟩ := hess "exp" (by simp)
    obtain ⟨q, hq, hle⟩ := hc.exp_ok v hv
    exact ⟨v, q, hv, hq, by omega⟩

/-- an expired token is never served -/
theorem expired_never_served (typ : Val) (c : Claims) (issuer rs : String) (now q : Int) (r : Required) (v : Val)
    (hv : c.lookup "exp" = some v) (hq : v.numericDate = some q) (hlt : q < now) :
    serve (some (typ, c)) issuer rs now r ≠ .served := by
  intro h
  obtain ⟨typ', c', hd, _, hval, _⟩ := served_implies _ issuer rs now r h
  injection hd with hd
  simp only [Prod.mk.injEq] at hd
  obtain ⟨rfl, rfl⟩ := hd
  exact expired_never_accepted c (options issuer rs) now 0 q v hv hq (by omega) hval

/-- a `typ` header that is present and is not (case-insensitively) at+jwt / application/at+jwt is never served -/
theorem wrong_typ_never_served (typ : Val) (c : Claims) (issuer rs : String) (now : Int) (r : Required)
    (ht : typ.truthy = true) (hbad : ∀ s, typ = .atom (.str s) → ["at+jwt", "application/at+jwt"].contains (lowerAscii s) = false) :
    serve (some (typ, c)) issuer rs now r ≠ .served := by
  intro h
  obtain ⟨typ', c', hd, hte, _⟩ := served_implies _ issuer rs now r h
  injection hd with hd
  simp only [Prod.mk.injEq] at hd
  obtain ⟨rfl, rfl⟩ := hd
  unfold typErr at hte
  cases typ with
  | list xs => simp [ht] at hte
  | atom a =>
    cases a with
    | str s =>
      have hb := hbad s rfl
      simp only [ht, Bool.true_and, hb, Bool.not_false, if_true] at hte
      cases hte
    | _ => simp [ht] at hte

/-- 403 insufficient_scope is only ever the answer for a token that is otherwise valid -/
theorem insufficient_scope_only_for_valid_token (decoded : Option (Val × Claims)) (issuer rs : String) (now : Int) (r : Required)
    (h : serve decoded issuer rs now r = .insufficientScope) :
    ∃ typ c, decoded = some (typ, c) ∧ JwtAccessToken.validate typ c issuer rs now = none ∧ insufficient (getD c "scope") r.scopes = true := by
  unfold serve at h
  cases decoded with
  | none => cases h
  | some tc =>
    obtain ⟨typ, c⟩ := tc
    simp only at h
    cases hv : JwtAccessToken.validate typ c issuer rs now with
    | some e => simp [hv] at h
    | none =>
      simp only [hv] at h
      by_cases s1 : insufficient (getD c "scope") r.scopes = true
      · exact ⟨typ, c, rfl, hv, s1⟩
      · simp only [s1, Bool.false_eq_true, if_false] at h
        repeat' split at h
        all_goals cases h

/-- the decision is one of the three RFC 6750 outcomes -/
theorem decision_is_served_401_or_403 (decoded : Option (Val × Claims)) (issuer rs : String) (now : Int) (r : Required) :
    serve decoded issuer rs now r = .served ∨ serve decoded issuer rs now r = .invalidToken ∨
    serve decoded issuer rs now r = .insufficientScope := by
  unfold serve
  cases decoded with
  | none => exact Or.inr (Or.inl rfl)
  | some tc =>
    obtain ⟨typ, c⟩ := tc
    simp only
    split
    · exact Or.inr (Or.inl rfl)
    · repeat' split
      all_goals first | exact Or.inl rfl | exact Or.inr (Or.inl rfl) | exact Or.inr (Or.inr rfl)

end Props.C10Jwt
