import Props.C06Pkce
import Model.Provider
/-
  C06 — authorization and device codes over every history: a token is issued for a code only
  under the statement's conditions (step-level characterisation), and each code yields at most
  one token (invariant over all operation sequences).
-/
namespace Props.C06
open Model Model.Provider

theorem find_mem {α} (p : α → Bool) : ∀ (l : List α) (a : α), l.find? p = some a → a ∈ l ∧ p a = true
  | [], a, h => by simp at h
  | x :: l, a, h => by
    simp only [List.find?_cons] at h
    split at h
    · rename_i hx; injection h with h; subst h; exact ⟨by simp, hx⟩
    · obtain ⟨h1, h2⟩ := find_mem p l a h
      exact ⟨by simp [h1], h2⟩

/-- when is PKCE satisfied, in the statement's words -/
def PkceSatisfied (s : Store) (m : String) (rec : CodeRec) (verifier : Option String) : Prop :=
  (truthyS rec.challenge = true ∨ truthyS verifier = true ∨ (s.pkceRequired = true ∧ m = "none")) →
    truthyS verifier = true ∧ verifierWellFormed (verifier.getD "") = true ∧
    pkceMatches rec.method (verifier.getD "") (rec.challenge.getD "") = some true

theorem pkceCheck_none (s : Store) (m : String) (rec : CodeRec) (verifier : Option String)
    (h : pkceCheck s m rec verifier = none) : PkceSatisfied s m rec verifier := by
  unfold pkceCheck at h
  intro hreq
  by_cases h1 : (s.pkceRequired && m == "none" && !truthyS verifier) = true
  · simp [h1] at h
  · simp only [h1, Bool.false_eq_true, if_false] at h
    by_cases h2 : (!truthyS rec.challenge && !truthyS verifier) = true
    · -- nothing recorded, nothing sent: only allowed when PKCE is not demanded
      exfalso
      simp only [Bool.and_eq_true, Bool.not_eq_true'] at h2
      rcases hreq with hc | hv | ⟨hp, hm⟩
      · rw [h2.1] at hc; cases hc
      · rw [h2.2] at hv; cases hv
      · apply h1; simp [hp, hm, h2.2]
    · simp only [h2, Bool.false_eq_true, if_false] at h
      by_cases h3 : (!truthyS verifier) = true
      · simp [h3] at h
      · simp only [h3, Bool.false_eq_true, if_false] at h
        have hv : truthyS verifier = true := by simpa using h3
        by_cases h4 : (!verifierWellFormed (verifier.getD "")) = true
        · simp [h4] at h
        · simp only [h4, Bool.false_eq_true, if_false] at h
          have hw : verifierWellFormed (verifier.getD "") = true := by simpa using h4
          cases hm : pkceMatches rec.method (verifier.getD "") (rec.challenge.getD "") with
          | none => simp [hm] at h
          | some b =>
            cases b with
            | true => exact ⟨hv, hw, rfl⟩
            | false => simp [hm] at h

/-- **Step-level statement for codes.** If the token request is accepted, then the presented code
    is in the store (i.e. was issued by this server and not yet consumed), belongs to the
    authenticated client, has not expired, the redirect URI is identical to the one sent at
    authorization (when one was sent), and PKCE is satisfied. -/
theorem redeemCheck_ok_spec (s : Store) (auth : Auth) (code : Option Ref) (redirect verifier : Option String)
    (c : Client) (m : String) (rec : CodeRec) (h : redeemCheck s auth code redirect verifier = .ok (c, m, rec)) :
    authClient s auth allMethods = some (c, m) ∧ code = some (.code rec.n) ∧ rec ∈ s.codes ∧ rec.client = c.id ∧
    ¬ (rec.authTime + 300 < s.now) ∧ (truthyS rec.redirect = true → redirect = rec.redirect) ∧
    PkceSatisfied s m rec verifier := by
  unfold redeemCheck at h
  cases ha : authClient s auth allMethods with
  | none => simp [ha] at h
  | some cm =>
    obtain ⟨c', m'⟩ := cm
    simp only [ha] at h
    cases code with
    | none => simp at h
    | some ref =>
      simp only at h
      cases ref with
      | code n =>
        simp only at h
        cases hf : s.codes.find? (fun (r : CodeRec) => r.n == n && r.client == c'.id && !(r.authTime + 300 < s.now)) with
        | none => simp [hf] at h
        | some rec' =>
          simp only [hf] at h
          by_cases hr : (truthyS rec'.redirect && redirect != rec'.redirect) = true
          · simp [hr] at h
          · simp only [hr, Bool.false_eq_true, if_false] at h
            cases hp : pkceCheck s m' rec' verifier with
            | some e => simp [hp] at h
            | none =>
              simp only [hp] at h
              injection h with h
              simp only [Prod.mk.injEq] at h
              obtain ⟨rfl, rfl, rfl⟩ := h
              obtain ⟨hmem, hprop⟩ := find_mem _ s.codes rec' hf
              simp only [Bool.and_eq_true, beq_iff_eq, Bool.not_eq_true', decide_eq_false_iff_not] at hprop
              refine ⟨rfl, by rw [hprop.1.1], hmem, hprop.1.2, hprop.2, ?_, pkceCheck_none s m' rec' verifier hp⟩
              intro ht
              simpa [ht] using hr
      | _ => simp at h

/-- a token response to a redeem request exists only when `redeemCheck` succeeded; then the code is
    consumed and the token carries the approving user and the authenticated client -/
theorem err_access (st : Nat) (e : String) : (err st e).access = none := rfl

theorem pkceCheck_some_access (s : Store) (m : String) (rec : CodeRec) (v : Option String) (e : Out)
    (h : pkceCheck s m rec v = some e) : e.access = none := by
  unfold pkceCheck at h
  repeat' split at h
  all_goals first | (injection h with h; subst h; rfl) | cases h

theorem redeemCheck_error_access (s : Store) (auth : Auth) (code : Option Ref) (redirect verifier : Option String) (e : Out)
    (h : redeemCheck s auth code redirect verifier = .error e) : e.access = none := by
  unfold redeemCheck at h
  cases ha : authClient s auth allMethods with
  | none => simp only [ha] at h; injection h with h; subst h; rfl
  | some cm =>
    obtain ⟨c', m'⟩ := cm
    simp only [ha] at h
    cases code with
    | none => simp only at h; injection h with h; subst h; rfl
    | some ref =>
      simp only at h
      split at h
      · injection h with h; subst h; rfl
      · split at h
        · injection h with h; subst h; rfl
        · split at h
          · rename_i e' hp
            injection h with h; subst h
            exact pkceCheck_some_access _ _ _ _ _ hp
          · cases h

theorem redeem_token_implies (s : Store) (auth : Auth) (code : Option Ref) (redirect verifier : Option String)
    (a : Nat) (h : (step s (.redeem auth code redirect verifier)).2.access = some a) :
    ∃ c m rec, redeemCheck s auth code redirect verifier = .ok (c, m, rec) ∧
      (∀ r ∈ (step s (.redeem auth code redirect verifier)).1.codes, r.n ≠ rec.n) ∧
      ∃ t ∈ (step s (.redeem auth code redirect verifier)).1.tokens,
        t.access = a ∧ t.prov = .code rec.n ∧ t.user = some rec.user ∧ t.client = c.id := by
  simp only [step] at h ⊢
  cases hc : redeemCheck s auth code redirect verifier with
  | error e =>
    simp only [hc] at h
    rw [redeemCheck_error_access s auth code redirect verifier e hc] at h; cases h
  | ok v =>
    obtain ⟨c, m, rec⟩ := v
    simp only [hc] at h ⊢
    refine ⟨c, m, rec, rfl, ?_, ?_⟩
    · intro r hr
      have := (List.mem_filter.mp hr).2
      simpa using this
    · refine ⟨_, List.mem_append_right _ (List.mem_singleton_self _), ?_, ?_, ?_, ?_⟩
      · simp only [tokenOut] at h; injection h with h
      all_goals (unfold mkToken; simp)

/-! ### single use: an invariant over every history -/

def provCode (t : TokRec) : Option Nat := match t.prov with | .code k => some k | _ => none

structure Inv (s : Store) : Prop where
  codes_le : ∀ r ∈ s.codes, r.n ≤ s.fresh
  prov_le : ∀ t ∈ s.tokens, ∀ k, provCode t = some k → k ≤ s.fresh ∧ ∀ r ∈ s.codes, r.n ≠ k
  distinct : s.tokens.Pairwise fun t1 t2 => ∀ k, provCode t1 = some k → provCode t2 ≠ some k

theorem mkToken_fresh (s : Store) (c : Client) (u : Option Nat) (sc : Option Text.Str) (r : Bool) (p : Prov) (e : Int) :
    s.fresh ≤ (mkToken s c u sc r p e).2 ∧ (mkToken s c u sc r p e).1.prov = p := by
  unfold mkToken; split <;> simp <;> omega

theorem revokeTok_prov (ts : List TokRec) (n : Nat) (a r : Bool) :
    (revokeTok ts n a r).map provCode = ts.map provCode := by
  unfold revokeTok
  rw [List.map_map]
  apply List.map_congr_left
  intro t _
  simp only [Function.comp]
  split <;> rfl

/-- appending a token that is not born from a code keeps the invariant (fresh may grow, flags may change) -/
theorem inv_token_append {s : Store} (hs : Inv s) {c : Client} {u : Option Nat} {sc : Option Text.Str} {r : Bool} {p : Prov} {e : Int}
    (hp : ∀ k, p ≠ .code k) {ts : List TokRec} (hts : ts.map provCode = s.tokens.map provCode) :
    Inv { s with fresh := (mkToken s c u sc r p e).2, tokens := ts ++ [(mkToken s c u sc r p e).1] } := by
  have hfr := mkToken_fresh s c u sc r p e
  have hpc : provCode (mkToken s c u sc r p e).1 = none := by
    have : ∀ q : Prov, (∀ k, q ≠ .code k) → (match q with | .code k => some k | _ => none) = none := by
      intro q hq; cases q with
      | code k => exact absurd rfl (hq k)
      | _ => rfl
    unfold provCode
    rw [hfr.2]
    exact this p hp
  have memmap : ∀ x ∈ ts, ∀ k, provCode x = some k → ∃ y ∈ s.tokens, provCode y = some k := by
    intro x hx k hk
    have : some k ∈ ts.map provCode := List.mem_map.mpr ⟨x, hx, hk⟩
    rw [hts] at this
    obtain ⟨y, hy, hyk⟩ := List.mem_map.mp this
    exact ⟨y, hy, hyk⟩
  constructor
  · intro r hr; exact Nat.le_trans (hs.codes_le r hr) hfr.1
  · intro x hx k hk
    rcases List.mem_append.mp hx with hx | hx
    · obtain ⟨y, hy, hyk⟩ := memmap x hx k hk
      have := hs.prov_le y hy k hyk
      exact ⟨Nat.le_trans this.1 hfr.1, this.2⟩
    · simp at hx; subst hx; rw [hpc] at hk; cases hk
  · show (ts ++ [(mkToken s c u sc r p e).1]).Pairwise _
    rw [List.pairwise_append]
    refine ⟨?_, by simp, ?_⟩
    · have hd := hs.distinct
      have : (ts.map provCode).Pairwise (fun a b => ∀ k, a = some k → b ≠ some k) := by
        rw [hts]; exact List.pairwise_map.mpr hd
      exact List.pairwise_map.mp this
    · intro x _ y hy k _
      simp at hy; subst hy; rw [hpc]; simp

theorem inv_revoke {s : Store} (hs : Inv s) (n : Nat) (a r : Bool) : Inv { s with tokens := revokeTok s.tokens n a r } := by
  have hts := revokeTok_prov s.tokens n a r
  constructor
  · exact hs.codes_le
  · intro x hx k hk
    have : some k ∈ (revokeTok s.tokens n a r).map provCode := List.mem_map.mpr ⟨x, hx, hk⟩
    rw [hts] at this
    obtain ⟨y, hy, hyk⟩ := List.mem_map.mp this
    exact hs.prov_le y hy k hyk
  · show (revokeTok s.tokens n a r).Pairwise _
    have : ((revokeTok s.tokens n a r).map provCode).Pairwise (fun a b => ∀ k, a = some k → b ≠ some k) := by
      rw [hts]; exact List.pairwise_map.mpr hs.distinct
    exact List.pairwise_map.mp this

theorem step_preserves_inv (s : Store) (op : Op) (hs : Inv s) : Inv (step s op).1 := by
  cases op with
  | authorize cid redirect scope challenge method user approve =>
    simp only [step]
    repeat' split
    all_goals first
      | exact hs
      | (constructor
         · intro r hr
           simp only [List.mem_append, List.mem_singleton] at hr
           rcases hr with hr | rfl
           · exact Nat.le_succ_of_le (hs.codes_le r hr)
           · exact Nat.le_refl _
         · intro t ht k hk
           have := hs.prov_le t ht k hk
           refine ⟨Nat.le_succ_of_le this.1, ?_⟩
           intro r hr
           simp only [List.mem_append, List.mem_singleton] at hr
           rcases hr with hr | rfl
           · exact this.2 r hr
           · simp only; omega
         · exact hs.distinct)
  | redeem auth code redirect verifier =>
    simp only [step]
    cases hc : redeemCheck s auth code redirect verifier with
    | error e => exact hs
    | ok v =>
      obtain ⟨c, m, rec⟩ := v
      simp only
      obtain ⟨_, _, hmem, _⟩ := redeemCheck_ok_spec s auth code redirect verifier c m rec hc
      have hfr := mkToken_fresh s c (some rec.user) rec.scope true (.code rec.n) 864000
      constructor
      · intro r hr
        exact Nat.le_trans (hs.codes_le r (List.mem_filter.mp hr).1) hfr.1
      · intro t ht k hk
        simp only [List.mem_append, List.mem_singleton] at ht
        rcases ht with ht | rfl
        · have := hs.prov_le t ht k hk
          exact ⟨Nat.le_trans this.1 hfr.1, fun r hr => this.2 r (List.mem_filter.mp hr).1⟩
        · simp only [provCode, hfr.2] at hk
          injection hk with hk; subst hk
          refine ⟨Nat.le_trans (hs.codes_le rec hmem) hfr.1, ?_⟩
          intro r hr
          have := (List.mem_filter.mp hr).2
          simpa using this
      · show (s.tokens ++ [_]).Pairwise _
        rw [List.pairwise_append]
        refine ⟨hs.distinct, by simp, ?_⟩
        intro t ht t' ht' k hk
        simp at ht'; subst ht'
        simp only [provCode, hfr.2]
        intro e; injection e with e; subst e
        exact (hs.prov_le t ht _ hk).2 rec hmem rfl
  | deviceAuthorize auth cidParam scope =>
    simp only [step]
    repeat' split
    all_goals first
      | exact hs
      | exact ⟨fun r hr => Nat.le_trans (hs.codes_le r hr) (by simp), fun t ht k hk => ⟨Nat.le_trans (hs.prov_le t ht k hk).1 (by simp), (hs.prov_le t ht k hk).2⟩, hs.distinct⟩
  | userDecide uc user approve => exact ⟨hs.codes_le, hs.prov_le, hs.distinct⟩
  | poll auth dc =>
    simp only [step]
    repeat' split
    all_goals first
      | exact hs
      | exact ⟨hs.codes_le, hs.prov_le, hs.distinct⟩
      | exact inv_token_append hs (by intro k; simp) rfl
  | issuePassword auth user scope =>
    simp only [step]
    repeat' split
    all_goals first
      | exact hs
      | exact inv_token_append hs (by intro k; simp) rfl
  | issueClientCredentials auth scope =>
    simp only [step]
    repeat' split
    all_goals first
      | exact hs
      | exact inv_token_append hs (by intro k; simp) rfl
  | refresh auth token scope =>
    simp only [step]
    repeat' split
    all_goals first
      | exact hs
      | exact inv_token_append hs (by intro k; simp) (revokeTok_prov _ _ _ _)
  | revoke auth token hint =>
    simp only [step]
    repeat' split
    all_goals first
      | exact hs
      | exact inv_revoke hs _ _ _
  | introspect auth token hint =>
    simp only [step]
    repeat' split
    all_goals exact hs
  | access token required =>
    simp only [step]
    repeat' split
    all_goals exact hs
  | advance dt => exact ⟨hs.codes_le, hs.prov_le, hs.distinct⟩

theorem inv_init (s : Store) (h1 : s.codes = []) (h2 : s.tokens = []) : Inv s :=
  ⟨by simp [h1], by simp [h2], by simp [h2]⟩

theorem run_preserves_inv (ops : List Op) : ∀ s, Inv s → Inv (run s ops) := by
  induction ops with
  | nil => intro s h; exact h
  | cons op ops ih => intro s h; exact ih _ (step_preserves_inv s op h)

/-- **Single use, over every history**: starting from an empty store, after ANY sequence of
    requests no two tokens were issued for the same authorization code, and a code that produced a
    token is no longer in the store. -/
theorem code_single_use (s0 : Store) (h1 : s0.codes = []) (h2 : s0.tokens = []) (ops : List Op) :
    (run s0 ops).tokens.Pairwise (fun t1 t2 => ∀ k, t1.prov = .code k → t2.prov ≠ .code k) ∧
    ∀ t ∈ (run s0 ops).tokens, ∀ k, t.prov = .code k → ∀ r ∈ (run s0 ops).codes, r.n ≠ k := by
  have hinv := run_preserves_inv ops s0 (inv_init s0 h1 h2)
  constructor
  · refine List.Pairwise.imp ?_ hinv.distinct
    intro t1 t2 h k hk
    have := h k (by simp [provCode, hk])
    intro e; apply this; simp [provCode, e]
  · intro t ht k hk
    exact (hinv.prov_le t ht k (by simp [provCode, hk])).2

/-- **Step-level statement for device codes.** A poll is answered with a token only if the device
    code is known, was issued to the authenticated client, has not expired, and the latest decision
    recorded for its user code is an approval; the token belongs to the approving user. -/
theorem poll_token_implies (s : Store) (auth : Auth) (dc : Option Ref) (a : Nat)
    (h : (step s (.poll auth dc)).2.access = some a) :
    ∃ c m d u g0, authClient s auth allMethods = some (c, m) ∧ dc = some (.dc d.dc) ∧ d ∈ s.devices ∧
      d.client = c.id ∧ ¬ (d.expiresAt < s.now) ∧
      s.grants.find? (fun g => g.1 == d.uc) = some (g0, u, true) ∧
      ∃ t ∈ (step s (.poll auth dc)).1.tokens, t.access = a ∧ t.user = some u ∧ t.client = c.id ∧ t.prov = .device d.dc := by
  simp only [step] at h ⊢
  cases dc with
  | none => simp [err] at h
  | some ref =>
    simp only at h ⊢
    cases ha : authClient s auth allMethods with
    | none => simp [ha, err] at h
    | some cm =>
      obtain ⟨c, m⟩ := cm
      simp only [ha] at h ⊢
      cases ref with
      | dc n =>
        simp only at h ⊢
        cases hd : s.devices.find? (fun (d : DevRec) => d.dc == n) with
        | none => simp [hd, err] at h
        | some d =>
          simp only [hd] at h ⊢
          obtain ⟨hmem, hdn⟩ := find_mem _ s.devices d hd
          by_cases hcl : (d.client != c.id) = true
          · simp [hcl, err] at h
          · simp only [hcl, Bool.false_eq_true, if_false] at h ⊢
            by_cases hexp : d.expiresAt < s.now
            · simp [hexp, err] at h
            · simp only [hexp, if_false] at h ⊢
              cases hg : s.grants.find? (fun (g : Nat × Nat × Bool) => g.1 == d.uc) with
              | none =>
                simp only [hg] at h
                split at h <;> (try split at h) <;> simp [err] at h
              | some g =>
                obtain ⟨g0, u, ok⟩ := g
                cases ok with
                | false => simp [hg, err] at h
                | true =>
                  simp only [hg] at h ⊢
                  refine ⟨c, m, d, u, g0, rfl, ?_, hmem, ?_, hexp, hg, ?_⟩
                  · have : d.dc = n := by simpa using hdn
                    rw [this]
                  · simpa using hcl
                  · refine ⟨_, List.mem_append_right _ (List.mem_singleton_self _), ?_, ?_, ?_, ?_⟩
                    · simp only [tokenOut] at h; injection h with h
                    all_goals (unfold mkToken; simp)
      | _ => simp [err] at h

/-- pending, denied and expired device codes never yield a token -/
theorem poll_no_token_unless_approved (s : Store) (auth : Auth) (dc : Option Ref)
    (hno : ∀ d ∈ s.devices, dc = some (.dc d.dc) →
      (d.expiresAt < s.now ∨ ∀ g0 u, s.grants.find? (fun g => g.1 == d.uc) ≠ some (g0, u, true))) :
    (step s (.poll auth dc)).2.access = none := by
  cases hacc : (step s (.poll auth dc)).2.access with
  | none => rfl
  | some a =>
    obtain ⟨c, m, d, u, g0, _, hdc, hmem, _, hexp, hg, _⟩ := poll_token_implies s auth dc a hacc
    rcases hno d hmem hdc with h | h
    · exact absurd h hexp
    · exact absurd hg (h g0 u)

end Props.C06
