import Model.Provider
import Generated.Grants
/-
  C06 — the PKCE syntax checks, for EVERY string: the regenerated `CODE_VERIFIER_PATTERN` /
  `CODE_CHALLENGE_PATTERN` accept exactly the RFC 7636 §4.1 / §4.2 strings: 43 to 128 characters, each
  one of ALPHA / DIGIT / "-" / "." / "_" / "~"; nothing after them (no trailing newline).
-/
namespace Props.C06Pkce
open Model Model.Text Model.Regex

/-- RFC 7636 `unreserved = ALPHA / DIGIT / "-" / "." / "_" / "~"` -/
def unreserved (c : Char) : Bool :=
  let n := c.toNat
  (65 ≤ n && n ≤ 90) || (97 ≤ n && n ≤ 122) || (48 ≤ n && n ≤ 57) || n == 45 || n == 46 || n == 95 || n == 126

theorem takeWhile_length_le {α} (p : α → Bool) (l : List α) : (l.takeWhile p).length ≤ l.length := by
  induction l with
  | nil => simp
  | cons a l ih => simp only [List.takeWhile]; split <;> simp <;> omega

theorem takeWhile_eq_self_iff {α} (p : α → Bool) (l : List α) : (l.takeWhile p).length = l.length ↔ ∀ a ∈ l, p a = true := by
  induction l with
  | nil => simp
  | cons a l ih =>
    simp only [List.takeWhile]
    cases h : p a with
    | true =>
      simp only [List.length_cons, Nat.add_right_cancel_iff, List.mem_cons, forall_eq_or_imp, h, true_and]
      exact ih
    | false =>
      simp only [List.length_nil, List.length_cons, List.mem_cons, forall_eq_or_imp, h]
      constructor
      · intro e; omega
      · intro e; exact absurd e.1 (by simp)

/-- the anchored class-repeat match without `$`: the whole string is between `lo` and `hi` characters of the class -/
theorem matchClassRepeat_noDollar_iff (rs : List (Nat × Nat)) (lo hi : Nat) (s : Str) :
    matchClassRepeat rs lo hi false s = true ↔ lo ≤ s.length ∧ s.length ≤ hi ∧ ∀ c ∈ s, inRanges rs c = true := by
  unfold matchClassRepeat
  simp only [Bool.false_and, Bool.or_false]
  have hle := takeWhile_length_le (inRanges rs) s
  constructor
  · intro h
    split at h
    · cases h
    · rename_i hn
      simp only [List.any_eq_true, List.mem_range] at h
      obtain ⟨i, hi', hdrop⟩ := h
      have hd : s.length ≤ lo + i := by
        have : (s.drop (lo + i)) = [] := by simpa using hdrop
        simpa using List.drop_eq_nil_iff.mp this
      have hmin : lo + i ≤ min (s.takeWhile (inRanges rs)).length hi := by omega
      have h1 : lo + i ≤ (s.takeWhile (inRanges rs)).length := Nat.le_trans hmin (Nat.min_le_left _ _)
      have h2 : lo + i ≤ hi := Nat.le_trans hmin (Nat.min_le_right _ _)
      have hlen : (s.takeWhile (inRanges rs)).length = s.length := by omega
      exact ⟨by omega, by omega, (takeWhile_eq_self_iff _ _).mp hlen⟩
  · intro ⟨h1, h2, h3⟩
    have hlen : (s.takeWhile (inRanges rs)).length = s.length := (takeWhile_eq_self_iff _ _).mpr h3
    have hmin : min (s.takeWhile (inRanges rs)).length hi = s.length := by rw [hlen]; exact Nat.min_eq_left h2
    rw [hmin]
    have : ¬ s.length < lo := by omega
    simp only [this, if_false, List.any_eq_true, List.mem_range]
    refine ⟨s.length - lo, by omega, ?_⟩
    have : lo + (s.length - lo) = s.length := by omega
    simp [this]

/-- the character class of both regenerated patterns is exactly RFC 7636's `unreserved` (checked for every code point:
    below 128 by evaluation, above by the ranges' upper bounds) -/
theorem class_is_unreserved (c : Char) :
    inRanges Generated.Grants.codeVerifierRanges c = unreserved c ∧ inRanges Generated.Grants.codeChallengeRanges c = unreserved c := by
  have small : ∀ n : Fin 128, (Generated.Grants.codeVerifierRanges.any fun (a, b) => a ≤ n.val && n.val ≤ b) =
      ((65 ≤ n.val && n.val ≤ 90) || (97 ≤ n.val && n.val ≤ 122) || (48 ≤ n.val && n.val ≤ 57) || n.val == 45 || n.val == 46 || n.val == 95 || n.val == 126) ∧
      (Generated.Grants.codeChallengeRanges.any fun (a, b) => a ≤ n.val && n.val ≤ b) =
      ((65 ≤ n.val && n.val ≤ 90) || (97 ≤ n.val && n.val ≤ 122) || (48 ≤ n.val && n.val ≤ 57) || n.val == 45 || n.val == 46 || n.val == 95 || n.val == 126) := by
    decide +kernel
  have bound : ∀ p ∈ Generated.Grants.codeVerifierRanges ++ Generated.Grants.codeChallengeRanges, p.2 < 128 := by decide +kernel
  unfold inRanges unreserved
  by_cases hc : c.toNat < 128
  · exact small ⟨c.toNat, hc⟩
  · have big : ∀ rs : List (Nat × Nat), (∀ p ∈ rs, p.2 < 128) → (rs.any fun (a, b) => a ≤ c.toNat && c.toNat ≤ b) = false := by
      intro rs h
      apply Bool.eq_false_iff.mpr
      intro hany
      simp only [List.any_eq_true] at hany
      obtain ⟨p, hp, hpc⟩ := hany
      have := h p hp
      obtain ⟨a, b⟩ := p
      simp only [Bool.and_eq_true, decide_eq_true_eq] at hpc
      omega
    rw [big _ (fun p hp => bound p (by simp [hp])), big _ (fun p hp => bound p (by simp [hp]))]
    have : ¬ c.toNat ≤ 90 := by omega
    have h2 : ¬ c.toNat ≤ 122 := by omega
    have h3 : ¬ c.toNat ≤ 57 := by omega
    simp [this, h2, h3]
    omega

/-- **`code_verifier` syntax.** For every string: the provider's verifier check passes iff the string is 43–128 characters of
    RFC 7636 `unreserved` — in particular a trailing newline, 42 or 129 characters, or one character outside the alphabet fail it -/
theorem verifier_accepted_iff_rfc7636 (v : String) :
    Model.Provider.verifierWellFormed v = true ↔ 43 ≤ v.toList.length ∧ v.toList.length ≤ 128 ∧ ∀ c ∈ v.toList, unreserved c = true := by
  unfold Model.Provider.verifierWellFormed
  have hmin : Generated.Grants.codeVerifierMin = 43 := by decide
  have hmax : Generated.Grants.codeVerifierMax = 128 := by decide
  have hend : Generated.Grants.codeVerifierEndIsDollar = false := by decide
  rw [hend, matchClassRepeat_noDollar_iff, hmin, hmax]
  constructor
  · intro ⟨a, b, h⟩; exact ⟨a, b, fun c hc => by rw [← (class_is_unreserved c).1]; exact h c hc⟩
  · intro ⟨a, b, h⟩; exact ⟨a, b, fun c hc => by rw [(class_is_unreserved c).1]; exact h c hc⟩

/-- the same for `code_challenge` -/
theorem challenge_accepted_iff_rfc7636 (v : String) :
    Model.Provider.challengeWellFormed v = true ↔ 43 ≤ v.toList.length ∧ v.toList.length ≤ 128 ∧ ∀ c ∈ v.toList, unreserved c = true := by
  unfold Model.Provider.challengeWellFormed
  have hmin : Generated.Grants.codeChallengeMin = 43 := by decide
  have hmax : Generated.Grants.codeChallengeMax = 128 := by decide
  have hend : Generated.Grants.codeChallengeEndIsDollar = false := by decide
  rw [hend, matchClassRepeat_noDollar_iff, hmin, hmax]
  constructor
  · intro ⟨a, b, h⟩; exact ⟨a, b, fun c hc => by rw [← (class_is_unreserved c).2]; exact h c hc⟩
  · intro ⟨a, b, h⟩; exact ⟨a, b, fun c hc => by rw [(class_is_unreserved c).2]; exact h c hc⟩

/-- non-vacuity and the boundary cases of the property text -/
example : Model.Provider.verifierWellFormed (String.ofList (List.replicate 43 'a')) = true ∧ Model.Provider.verifierWellFormed (String.ofList (List.replicate 42 'a')) = false ∧
    Model.Provider.verifierWellFormed (String.ofList (List.replicate 43 'a' ++ ['\n'])) = false ∧ Model.Provider.verifierWellFormed (String.ofList (List.replicate 43 '-')) = true := by decide +kernel

end Props.C06Pkce
