import Model.Authorize
/-
  C05 — the authorization endpoint never sends the user agent to an unregistered URI; state is
  echoed exactly once; credentials only on approval.
-/
namespace Props.C05
open Model.Authorize

/-- what a validated redirect target is -/
def Registered (cfg : Config) (r : Req) (t : String) : Prop :=
  ∃ c id, r.clientId = some id ∧ c ∈ cfg.clients ∧ c.id = id ∧ t ∈ c.uris ∧
    (r.redirectUri = some t ∨ (truthy r.redirectUri = false ∧ c.uris.head? = some t))

theorem validateRedirect_spec (r : Req) (c : Client) (u : String) (h : validateRedirect r c = some u) :
    u ∈ c.uris ∧ (r.redirectUri = some u ∨ (truthy r.redirectUri = false ∧ c.uris.head? = some u)) := by
  unfold validateRedirect at h
  by_cases ht : truthy r.redirectUri = true
  · simp only [ht, if_true] at h
    cases hr : r.redirectUri with
    | none => simp [hr] at h
    | some v =>
      simp only [hr] at h
      split at h
      · rename_i hc
        injection h with h; subst h
        exact ⟨by simpa using hc, Or.inl rfl⟩
      · cases h
  · have hf : truthy r.redirectUri = false := by simpa using ht
    simp only [hf, Bool.false_eq_true, if_false] at h
    refine ⟨?_, Or.inr ⟨hf, h⟩⟩
    cases hu : c.uris with
    | nil => simp [hu] at h
    | cons a as => simp [hu] at h; subst h; simp

theorem find_mem {α} (p : α → Bool) : ∀ (l : List α) (a : α), l.find? p = some a → a ∈ l ∧ p a = true
  | [], a, h => by simp at h
  | x :: l, a, h => by
    simp only [List.find?_cons] at h
    split at h
    · rename_i hx; injection h with h; subst h; exact ⟨by simp, hx⟩
    · obtain ⟨h1, h2⟩ := find_mem p l a h
      exact ⟨by simp [h1], h2⟩

theorem identifyClient_spec (cfg : Config) (g : GrantKind) (r : Req) (c : Client)
    (h : identifyClient cfg g r = some c) : ∃ id, r.clientId = some id ∧ c ∈ cfg.clients ∧ c.id = id := by
  have key : ∀ id, findClient cfg id = some c → c ∈ cfg.clients ∧ c.id = id := by
    intro id hf
    obtain ⟨h1, h2⟩ := find_mem _ cfg.clients c hf
    exact ⟨h1, by simpa using h2⟩
  unfold identifyClient at h
  cases hid : r.clientId with
  | none => cases g <;> simp [hid] at h
  | some id =>
    cases g <;> simp only [hid] at h
    · exact ⟨id, rfl, key id h⟩
    · split at h
      · cases h
      · cases hf : findClient cfg id with
        | none => simp [hf] at h
        | some c' =>
          simp only [hf] at h
          split at h
          · injection h with h; subst h; exact ⟨id, rfl, key id hf⟩
          · cases h
    · split at h
      · cases h
      · cases hf : findClient cfg id with
        | none => simp [hf] at h
        | some c' =>
          simp only [hf] at h
          split at h
          · injection h with h; subst h; exact ⟨id, rfl, key id hf⟩
          · cases h
    · exact ⟨id, rfl, key id h⟩

/-- after the redirect target is fixed, validation errors go to that target and nowhere else -/
theorem validateAfterRedirect_target (cfg : Config) (g : GrantKind) (r : Req) (c : Client) (ru : String)
    (resp : Resp) (h : validateAfterRedirect cfg g r c ru = some resp) :
    ∃ m ps, resp = .redirect ru m ps := by
  unfold validateAfterRedirect at h
  cases g <;> simp only at h <;> (repeat' split at h) <;>
    first
    | (injection h with h; subst h; exact ⟨_, _, rfl⟩)
    | cases h

theorem front_spec (cfg : Config) (r : Req) :
    (∀ g c ru, front cfg r = .ok (g, c, ru) → Registered cfg r ru) ∧
    (∀ t m ps, front cfg r = .error (.redirect t m ps) → Registered cfg r t) ∧
    (front cfg r ≠ .error .consentPage) := by
  unfold front
  cases hg : findGrant cfg (normRt r.responseType) with
  | none => simp
  | some g =>
    simp only
    cases hc : identifyClient cfg g r with
    | none => simp
    | some c =>
      simp only
      cases hv : validateRedirect r c with
      | none => simp
      | some ru =>
        simp only
        obtain ⟨id, hid, hmem, hcid⟩ := identifyClient_spec cfg g r c hc
        obtain ⟨hin, hsrc⟩ := validateRedirect_spec r c ru hv
        have reg : Registered cfg r ru := ⟨c, id, hid, hmem, hcid, hin, hsrc⟩
        cases ha : validateAfterRedirect cfg g r c ru with
        | none =>
          refine ⟨?_, by simp, by simp⟩
          intro g' c' ru' h
          simp only [Except.ok.injEq, Prod.mk.injEq] at h
          obtain ⟨_, _, rfl⟩ := h
          exact reg
        | some resp =>
          obtain ⟨m, ps, rfl⟩ := validateAfterRedirect_target cfg g r c ru resp ha
          refine ⟨by simp, ?_, by simp⟩
          intro t m' ps' h
          simp only [Except.error.injEq, Resp.redirect.injEq] at h
          obtain ⟨rfl, _, _⟩ := h
          exact reg

theorem deliver_target (ru : String) (ps : List (String × String)) (mode : Option String) (dflt t : String)
    (m : Mode) (ps' : List (String × String)) (h : deliver ru ps mode dflt = .redirect t m ps') : t = ru ∧ ps' = ps := by
  unfold deliver at h
  split at h <;> first | (injection h with h1 h2 h3; exact ⟨h1.symm, h3.symm⟩) | cases h

/-- **C05 (decision step).** Whatever the request, configuration and decision: a 302 / form_post
    response goes only to a redirect URI the identified, existing client has registered — the one
    in the request if the client accepts it, else the client's default. -/
theorem redirect_only_to_registered (cfg : Config) (r : Req) (approve : Bool) (t : String) (m : Mode)
    (ps : List (String × String)) (h : respond cfg r approve = .redirect t m ps) : Registered cfg r t := by
  obtain ⟨hok, herr, _⟩ := front_spec cfg r
  unfold respond at h
  cases hf : front cfg r with
  | error resp =>
    simp only [hf] at h; subst h
    exact herr t m ps hf
  | ok v =>
    obtain ⟨g, c, ru⟩ := v
    have reg := hok g c ru hf
    simp only [hf] at h
    cases g <;> simp only at h
    · split at h <;> (injection h with h1; subst h1; exact reg)
    · split at h <;> (injection h with h1; subst h1; exact reg)
    · obtain ⟨rfl, _⟩ := deliver_target _ _ _ _ _ _ _ h; exact reg
    · obtain ⟨rfl, _⟩ := deliver_target _ _ _ _ _ _ _ h; exact reg

/-- **C05 (consent step, GET).** Same statement for `get_consent_grant` + error handler. -/
theorem consent_redirect_only_to_registered (cfg : Config) (r : Req) (user : Bool) (t : String) (m : Mode)
    (ps : List (String × String)) (h : consent cfg r user = .redirect t m ps) : Registered cfg r t := by
  obtain ⟨hok, herr, _⟩ := front_spec cfg r
  have prompt_target : ∀ ru md resp, promptCheck r user ru md = some resp → ∃ m' ps', resp = .redirect ru m' ps' := by
    intro ru md resp hp
    unfold promptCheck at hp
    cases hpr : r.prompt with
    | none => simp [hpr] at hp
    | some pv =>
      simp only [hpr] at hp
      by_cases h1 : pv.isEmpty = true
      · simp [h1] at hp
      · simp only [h1, Bool.false_eq_true, if_false] at hp
        by_cases h2 : (pv == "none" && !user) = true
        · simp only [h2, if_true] at hp
          injection hp with hp; subst hp; exact ⟨_, _, rfl⟩
        · simp only [h2, Bool.false_eq_true, if_false] at hp
          by_cases h3 : ((Model.Text.splitWs pv.toList).contains "none".toList && decide ((Model.Text.splitWs pv.toList).length > 1)) = true
          · simp only [h3, if_true] at hp
            injection hp with hp; subst hp; exact ⟨_, _, rfl⟩
          · simp only [h3, Bool.false_eq_true, if_false] at hp
            cases hp
  unfold consent at h
  cases hg : findGrant cfg (normRt r.responseType) with
  | none => simp [hg] at h
  | some g0 =>
    simp only [hg] at h
    split at h
    · cases h
    · cases hf : front cfg r with
      | error resp =>
        simp only [hf] at h; subst h
        exact herr t m ps hf
      | ok v =>
        obtain ⟨g, c, ru⟩ := v
        have reg := hok g c ru hf
        simp only [hf] at h
        split at h
        · rename_i resp hchk
          subst h
          have : ∃ m' ps', Resp.redirect t m ps = .redirect ru m' ps' := by
            cases g <;> simp only at hchk
            · split at hchk
              · exact prompt_target _ _ _ hchk
              · cases hchk
            · cases hchk
            · exact prompt_target _ _ _ hchk
            · exact prompt_target _ _ _ hchk
          obtain ⟨_, _, e⟩ := this
          injection e with e1; subst e1; exact reg
        · cases h

/-! ### state, credentials -/

def stateValues (ps : List (String × String)) : List String := (ps.filter (fun p => p.1 == "state")).map (·.2)

theorem stateValues_errorParams (e : String) (s : Option String) :
    stateValues (errorParams e s) = if truthy s then [s.getD ""] else [] := by
  cases s with
  | none => simp [errorParams, stateValues, truthy]
  | some v =>
    by_cases hv : v.isEmpty
    · simp [errorParams, stateValues, truthy, hv]
    · simp [errorParams, stateValues, truthy, hv]

theorem stateValues_granted (g : GrantKind) (rt : String) (s : Option String) :
    stateValues (grantedParams g rt ++ stateParam s) = if truthy s then [s.getD ""] else [] := by
  have hk : ∀ p ∈ grantedParams g rt, (p.1 == "state") = false := by
    intro p hp
    have : p.1 = "code" ∨ p.1 = "access_token" ∨ p.1 = "token_type" ∨ p.1 = "id_token" := by
      unfold grantedParams at hp
      cases g <;> simp only at hp
      · simp at hp; subst hp; simp
      · simp at hp; rcases hp with rfl | rfl <;> simp
      · split at hp
        · simp at hp; subst hp; simp
        · simp at hp; rcases hp with rfl | rfl | rfl <;> simp
      · simp only [List.mem_append, List.mem_cons, List.mem_nil_iff, or_false] at hp
        rcases hp with rfl | hp
        · simp
        · split at hp
          · simp only [List.mem_append, List.mem_cons, List.mem_nil_iff, or_false] at hp
            rcases hp with (rfl | rfl) | hp
            · simp
            · simp
            · split at hp
              · simp at hp; subst hp; simp
              · simp at hp
          · simp at hp; subst hp; simp
    rcases this with h | h | h | h <;> rw [h] <;> decide
  have h1 : stateValues (grantedParams g rt) = [] := by
    unfold stateValues
    rw [List.filter_eq_nil_iff.mpr (by intro p hp; simp [hk p hp])]
    rfl
  unfold stateValues at h1 ⊢
  rw [List.filter_append, List.map_append, h1]
  cases s with
  | none => simp [stateParam, truthy]
  | some v =>
    by_cases hv : v.isEmpty
    · simp [stateParam, truthy, hv]
    · simp [stateParam, truthy, hv]

/-- **state is returned unchanged, exactly once** (and not at all when the request had none) in
    every redirect the decision step produces -/
theorem state_echoed_once_unchanged (cfg : Config) (r : Req) (approve : Bool) (t : String) (m : Mode)
    (ps : List (String × String)) (h : respond cfg r approve = .redirect t m ps) :
    stateValues ps = if truthy r.state then [r.state.getD ""] else [] := by
  unfold respond at h
  cases hf : front cfg r with
  | error resp =>
    simp only [hf] at h; subst h
    -- the error came from validateAfterRedirect: all of its redirects are errorParams
    unfold front at hf
    cases hg : findGrant cfg (normRt r.responseType) with
    | none => simp [hg] at hf
    | some g =>
      simp only [hg] at hf
      cases hc : identifyClient cfg g r with
      | none => simp [hc] at hf
      | some c =>
        simp only [hc] at hf
        cases hv : validateRedirect r c with
        | none => simp [hv] at hf
        | some ru =>
          simp only [hv] at hf
          cases ha : validateAfterRedirect cfg g r c ru with
          | none => simp [ha] at hf
          | some resp =>
            simp only [ha, Except.error.injEq] at hf
            subst hf
            unfold validateAfterRedirect at ha
            cases g <;> simp only at ha <;> (repeat' split at ha) <;>
              first
              | (injection ha with ha; injection ha with _ _ hps; subst hps; exact stateValues_errorParams _ _)
              | cases ha
  | ok v =>
    obtain ⟨g, c, ru⟩ := v
    simp only [hf] at h
    cases g <;> simp only at h
    · split at h <;> (injection h with _ _ hps; subst hps) <;>
        first | exact stateValues_granted _ _ _ | exact stateValues_errorParams _ _
    · split at h <;> (injection h with _ _ hps; subst hps) <;>
        first | exact stateValues_granted _ _ _ | exact stateValues_errorParams _ _
    · obtain ⟨_, rfl⟩ := deliver_target _ _ _ _ _ _ _ h
      split <;> first | exact stateValues_granted _ _ _ | exact stateValues_errorParams _ _
    · obtain ⟨_, rfl⟩ := deliver_target _ _ _ _ _ _ _ h
      split <;> first | exact stateValues_granted _ _ _ | exact stateValues_errorParams _ _

def isCredential (k : String) : Bool := k == "code" || k == "access_token" || k == "id_token"

theorem errorParams_no_credential (e : String) (s : Option String) :
    ∀ p ∈ errorParams e s, isCredential p.1 = false := by
  intro p hp
  unfold errorParams at hp
  rcases List.mem_append.mp hp with hp | hp
  · simp at hp; subst hp; rfl
  · split at hp
    · split at hp
      · simp at hp
      · simp at hp; subst hp; rfl
    · simp at hp

/-- **a code or token appears only if the resource owner approved** -/
theorem credential_only_if_approved (cfg : Config) (r : Req) (approve : Bool) (t : String) (m : Mode)
    (ps : List (String × String)) (h : respond cfg r approve = .redirect t m ps)
    (hcred : ∃ p ∈ ps, isCredential p.1 = true) : approve = true := by
  obtain ⟨p, hp, hcr⟩ := hcred
  cases approve with
  | true => rfl
  | false =>
    exfalso
    have contra : ∀ e s, p ∈ errorParams e s → False := by
      intro e s hm
      have := errorParams_no_credential e s p hm
      rw [hcr] at this; cases this
    unfold respond at h
    cases hf : front cfg r with
    | error resp =>
      simp only [hf] at h; subst h
      unfold front at hf
      cases hg : findGrant cfg (normRt r.responseType) with
      | none => simp [hg] at hf
      | some g =>
        simp only [hg] at hf
        cases hc : identifyClient cfg g r with
        | none => simp [hc] at hf
        | some c =>
          simp only [hc] at hf
          cases hv : validateRedirect r c with
          | none => simp [hv] at hf
          | some ru =>
            simp only [hv] at hf
            cases ha : validateAfterRedirect cfg g r c ru with
            | none => simp [ha] at hf
            | some resp =>
              simp only [ha, Except.error.injEq] at hf
              subst hf
              unfold validateAfterRedirect at ha
              cases g <;> simp only at ha <;> (repeat' split at ha) <;>
                first
                | (injection ha with ha; injection ha with _ _ hps; subst hps; exact contra _ _ hp)
                | cases ha
    | ok v =>
      obtain ⟨g, c, ru⟩ := v
      simp only [hf] at h
      cases g <;> simp only [Bool.false_eq_true, if_false] at h
      · injection h with _ _ hps; subst hps; exact contra _ _ hp
      · injection h with _ _ hps; subst hps; exact contra _ _ hp
      · obtain ⟨_, rfl⟩ := deliver_target _ _ _ _ _ _ _ h; exact contra _ _ hp
      · obtain ⟨_, rfl⟩ := deliver_target _ _ _ _ _ _ _ h; exact contra _ _ hp

/-- non-vacuity and the formerly failing witness: an unregistered redirect_uri with a missing
    openid scope is now answered locally -/
def exCfg1 : Config := { grants := [GrantKind.code, GrantKind.oidcImplicit, GrantKind.hybrid, GrantKind.implicit], clients := [Client.mk "pub" ["https://good/cb"] ["id_token"] "none"], scopesSupported := none, oidcCodeExt := true, requireNonce := false, usedNonces := [] }
def exReq1 : Req := { responseType := some "id_token", clientId := some "pub", redirectUri := some "https://evil/cb", scope := some "profile", state := some "s" }
example : respond exCfg1 exReq1 true = .localError 400 "invalid_request" := by decide +kernel

def exCfg2 : Config := { grants := [GrantKind.code], clients := [Client.mk "c" ["https://good/cb"] ["code"] "client_secret_basic"], scopesSupported := none, oidcCodeExt := false, requireNonce := false, usedNonces := [] }
def exReq2 : Req := { responseType := some "code", clientId := some "c", redirectUri := none, scope := none, state := some "xyz" }
example : respond exCfg2 exReq2 true = .redirect "https://good/cb" .query [("code", "<code>"), ("state", "xyz")] := by
  decide +kernel

end Props.C05
