import Model.Jwk
import Lemmas.Base64
/-
  C16 — JWK member encodings (RFC 7518 §6), export filter (no private-key leakage), RFC 7638
  thumbprint member order, over the field lists regenerated from the key classes.
-/
namespace Props.C16
open Model Model.Jwk

/-! ### integers -/

theorem beNat_append_single (b : Bytes) (x : UInt8) : beNat (b ++ [x]) = beNat b * 256 + x.toNat := by
  unfold beNat
  rw [List.foldl_append]
  rfl

theorem beNat_minBE : ∀ n : Nat, beNat (minBE n) = n := by
  intro n
  induction n using Nat.strongRecOn with
  | _ n ih =>
    rw [minBE]
    split
    · rename_i h; subst h; rfl
    · rename_i h
      rw [beNat_append_single, ih (n / 256) (by omega)]
      have : (UInt8.ofNat (n % 256)).toNat = n % 256 := by
        simp [UInt8.toNat_ofNat]
      rw [this]; omega

theorem minBE_ne_nil {n : Nat} (h : n ≠ 0) : minBE n ≠ [] := by
  rw [minBE]; simp [h]

/-- **RSA members round-trip**: `base64_to_int(int_to_base64(n)) == n` for every positive integer -/
theorem int_b64_roundtrip (n : Nat) (h : n ≠ 0) : base64ToInt (intToBase64 n) = some n := by
  unfold base64ToInt intToBase64
  rw [Base64.urlDecode_urlEncode]
  cases hm : minBE n with
  | nil => exact absurd hm (minBE_ne_nil h)
  | cons a b => simp only; rw [← hm, beNat_minBE]

/-- **RSA members are minimal-length**: the encoded octet string never starts with a zero octet -/
theorem rsa_members_minimal_length : ∀ n : Nat, n ≠ 0 → (minBE n).head? ≠ some 0 := by
  intro n
  induction n using Nat.strongRecOn with
  | _ n ih =>
    intro hn
    rw [minBE]
    simp only [hn, dite_false]
    by_cases hq : n / 256 = 0
    · rw [hq, minBE]
      simp only [dite_true, List.nil_append, List.head?_cons]
      intro e
      injection e with e
      have : n % 256 = 0 := by
        have h2 : (UInt8.ofNat (n % 256)).toNat = n % 256 := by simp [UInt8.toNat_ofNat]
        rw [e] at h2
        simpa using h2.symm
      omega
    · have := ih (n / 256) (by omega) hq
      have hne := minBE_ne_nil hq
      cases hm : minBE (n / 256) with
      | nil => exact absurd hm hne
      | cons a b =>
        rw [hm] at this
        simpa using this

/-- **EC coordinates and private scalars are full curve-size octet strings** -/
theorem ec_members_full_length (len n : Nat) : (natBE len n).length = len := natBE_length len n

theorem beNat_natBE : ∀ (len n : Nat), n < 256 ^ len → beNat (natBE len n) = n
  | 0, n, h => by simp at h; subst h; rfl
  | len + 1, n, h => by
    rw [natBE, beNat_append_single, beNat_natBE len (n / 256) (by
      rw [Nat.pow_succ] at h
      exact Nat.div_lt_of_lt_mul (by omega))]
    have : (UInt8.ofNat (n % 256)).toNat = n % 256 := by simp [UInt8.toNat_ofNat]
    rw [this]; omega

/-- EC members round-trip for every coordinate that fits the curve -/
theorem ec_coord_roundtrip (len n : Nat) (hlen : 0 < len) (h : n < 256 ^ len) :
    base64ToInt (coordToBase64 len n) = some n := by
  unfold base64ToInt coordToBase64
  rw [Base64.urlDecode_urlEncode]
  cases hm : natBE len n with
  | nil =>
    have := natBE_length len n
    rw [hm] at this; simp at this; omega
  | cons a b => simp only; rw [← hm, beNat_natBE len n h]

/-- the encoded text decodes to exactly `len` octets (what a strict consumer checks) -/
theorem ec_coord_decodes_to_full_length (len n : Nat) :
    (Base64.urlDecode (coordToBase64 len n)).map List.length = some len := by
  unfold coordToBase64
  rw [Base64.urlDecode_urlEncode]; simp

/-! ### export filter -/

/-- **No private-key leakage.** A public export (`is_private = False`) of a key that has a private
    part (`d`) contains only public fields, `kty` and `kid` — for every member list. -/
theorem public_export_only_public_members (publicFields : List String) (kty : String) (tokens : Tokens)
    (thumb : String) (out : Tokens) (hd : (tokens.lookup "d").isSome = true)
    (h : asDict publicFields kty tokens false thumb = some out) :
    ∀ p ∈ out, p.1 ∈ publicFields ∨ p.1 = "kty" ∨ p.1 = "kid" := by
  have base : ∀ q ∈ publicPart publicFields kty tokens, q.1 ∈ publicFields ∨ q.1 = "kty" ∨ q.1 = "kid" := by
    intro q hq
    unfold publicPart at hq
    rcases List.mem_append.mp hq with hq | hq
    · have := (List.mem_filter.mp (List.mem_filter.mp hq).1).2
      exact Or.inl (by simpa using this)
    · simp at hq; subst hq; exact Or.inr (Or.inl rfl)
  unfold asDict at h
  simp only [hd, Bool.false_and, Bool.not_false, Bool.and_true, Bool.false_eq_true, if_false, if_true,
    Option.some.injEq] at h
  intro p hp
  subst h
  by_cases hk : kidTruthy tokens = true
  · simp only [hk, if_true] at hp
    rcases List.mem_append.mp hp with hp | hp
    · exact base p (List.mem_filter.mp hp).1
    · simp at hp; subst hp; exact Or.inr (Or.inr rfl)
  · simp only [hk, if_false] at hp
    rcases List.mem_append.mp hp with hp | hp
    · exact base p (List.mem_filter.mp hp).1
    · simp at hp; subst hp; exact Or.inr (Or.inr rfl)

/-- over the REGENERATED field lists: no private-only member name is a public field, `kty` or `kid` -/
theorem private_only_not_public :
    (∀ f ∈ Generated.Jose.rsaPrivateKeyFields, f ∉ Generated.Jose.rsaPublicKeyFields → f ≠ "kty" ∧ f ≠ "kid") ∧
    (∀ f ∈ ["d", "p", "q", "dp", "dq", "qi"], f ∉ Generated.Jose.rsaPublicKeyFields) ∧
    ("d" ∉ Generated.Jose.ecPublicKeyFields) ∧ ("d" ∉ Generated.Jose.okpPublicKeyFields) := by
  decide +kernel

theorem private_names_rsa : ∀ f ∈ ["d", "p", "q", "dp", "dq", "qi"],
    f ∉ Generated.Jose.rsaPublicKeyFields ∧ f ≠ "kty" ∧ f ≠ "kid" := by decide +kernel
theorem private_names_ec : ∀ f ∈ ["d", "p", "q", "dp", "dq", "qi"],
    f ∉ Generated.Jose.ecPublicKeyFields ∧ f ≠ "kty" ∧ f ≠ "kid" := by decide +kernel
theorem private_names_okp : ∀ f ∈ ["d", "p", "q", "dp", "dq", "qi"],
    f ∉ Generated.Jose.okpPublicKeyFields ∧ f ≠ "kty" ∧ f ≠ "kid" := by decide +kernel

/-- hence: a public export of a private RSA / EC / OKP key never contains `d`, `p`, `q`, `dp`, `dq`, `qi` -/
theorem public_export_has_no_private_member (kty : String) (tokens : Tokens) (thumb : String) (out : Tokens)
    (pf : List String)
    (hpf : pf = Generated.Jose.rsaPublicKeyFields ∨ pf = Generated.Jose.ecPublicKeyFields ∨ pf = Generated.Jose.okpPublicKeyFields)
    (hd : (tokens.lookup "d").isSome = true) (h : asDict pf kty tokens false thumb = some out) :
    ∀ f ∈ ["d", "p", "q", "dp", "dq", "qi"], ∀ p ∈ out, p.1 ≠ f := by
  intro f hf p hp e
  have := public_export_only_public_members pf kty tokens thumb out hd h p hp
  have hnot : f ∉ pf ∧ f ≠ "kty" ∧ f ≠ "kid" := by
    rcases hpf with rfl | rfl | rfl
    · exact private_names_rsa f hf
    · exact private_names_ec f hf
    · exact private_names_okp f hf
  rw [e] at this
  rcases this with h1 | h1 | h1
  · exact hnot.1 h1
  · exact hnot.2.1 h1
  · exact hnot.2.2 h1

/-- a private export of a public-only key is an error -/
theorem private_export_of_public_is_error (pf : List String) (kty : String) (tokens : Tokens) (thumb : String)
    (hd : (tokens.lookup "d").isSome = false) : asDict pf kty tokens true thumb = none := by
  simp [asDict, hd]

/-! ### RFC 7638 thumbprint members -/

/-- required members + kty in lexicographic order are exactly the RFC 7638 §3.2 member lists
    (RSA: e, kty, n; EC: crv, kty, x, y; oct: k, kty; OKP per RFC 8037: crv, kty, x) -/
theorem thumbprint_members_eq_rfc7638 :
    sortStrings (Generated.Jose.rsaRequiredJsonFields ++ ["kty"]) = ["e", "kty", "n"] ∧
    sortStrings (Generated.Jose.ecRequiredJsonFields ++ ["kty"]) = ["crv", "kty", "x", "y"] ∧
    sortStrings (Generated.Jose.octRequiredJsonFields ++ ["kty"]) = ["k", "kty"] ∧
    sortStrings (Generated.Jose.okpRequiredJsonFields ++ ["kty"]) = ["crv", "kty", "x"] := by
  decide +kernel

/-- RFC 7638 §3.1 example key: the model's thumbprint input is the RFC's canonical JSON -/
example : thumbprintInput Generated.Jose.rsaRequiredJsonFields [("kty", "RSA"), ("n", "0vx7"), ("e", "AQAB"), ("kid", "2011-04-29")]
    = some (strBytes "{\"e\":\"AQAB\",\"kty\":\"RSA\",\"n\":\"0vx7\"}") := by decide +kernel

end Props.C16
