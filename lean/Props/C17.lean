import Model.AsyncRefresh
/-
  C17 — for every number of coroutines, every schedule and every behaviour of the token endpoint:
  mutual exclusion of the refresh section, at most one successful refresh, callback exactly once per
  successful refresh, no protected request ever carries the expired token, a failed refresh sends
  nothing for its caller; with a succeeding endpoint exactly one refresh request is made.
-/
namespace Props.C17
open Model.AsyncRefresh

def holding (p : Pc) : Bool := p == .inLock || p == .awaitResp || p == .awaitCb

def pendingResp (s : St) : Nat := match s.lock with
  | some i => if s.pc i = .awaitResp then 1 else 0
  | none => 0

def pendingCb (s : St) : Nat := match s.lock with
  | some i => if s.pc i = .awaitCb then 1 else 0
  | none => 0

structure Inv (s : St) : Prop where
  lockOk : ∀ i, s.lock = some i ↔ holding (s.pc i) = true
  ver : s.tokenVer = s.refreshOk
  okLe : s.refreshOk ≤ 1
  respExpired : ∀ i, s.pc i = .awaitResp → s.tokenVer = 0
  cbLive : ∀ i, s.pc i = .awaitCb → s.tokenVer ≠ 0 ∧ s.hasCb = true
  readyLive : ∀ i, s.pc i = .ready → s.tokenVer ≠ 0
  sentLive : ∀ i v, s.sentBy i = some v → v ≠ 0 ∧ v ≤ s.tokenVer
  doneSent : ∀ i, s.pc i = .done ↔ s.sentBy i ≠ none
  sentCount : s.refreshSent = s.refreshOk + s.failures + pendingResp s
  cbCount : s.hasCb = true → s.callbacks + pendingCb s = s.refreshOk
  noCb : s.hasCb = false → s.callbacks = 0

theorem inv_init (hasCb : Bool) : Inv (init hasCb) := by
  refine ⟨?_, rfl, by simp [init], ?_, ?_, ?_, ?_, ?_, by simp [init, pendingResp], by simp [init, pendingCb], by simp [init]⟩
  all_goals simp [init, holding]

theorem holding_unique (s : St) (h : Inv s) (i j : Nat) (hi : holding (s.pc i) = true) (hj : holding (s.pc j) = true) : i = j := by
  have a := (h.lockOk i).mpr hi
  have b := (h.lockOk j).mpr hj
  rw [a] at b; injection b

theorem setPc_same (s : St) (i : Nat) (p : Pc) : setPc s i p i = p := by simp [setPc]
theorem setPc_other (s : St) (i j : Nat) (p : Pc) (h : j ≠ i) : setPc s i p j = s.pc j := by simp [setPc, h]

/-- every enabled step preserves the invariant -/
theorem step_preserves_inv (s s' : St) (a : Act) (h : Inv s) (hs : step s a = some s') : Inv s' := by
  cases a with
  | acquire i =>
    simp only [step] at hs
    split at hs
    · rename_i hc
      injection hs with hs; subst hs
      obtain ⟨hpi, hl⟩ := hc
      have nohold : ∀ j, holding (s.pc j) = false := by
        intro j
        cases hh : holding (s.pc j) with
        | false => rfl
        | true => have := (h.lockOk j).mpr hh; rw [hl] at this; cases this
      refine ⟨?_, h.ver, h.okLe, ?_, ?_, ?_, h.sentLive, ?_, ?_, ?_, h.noCb⟩
      · intro j
        by_cases hj : j = i
        · subst hj; simp [setPc, holding]
        · simp only [setPc, hj, if_false, nohold j]
          constructor
          · intro e; injection e with e; exact absurd e.symm hj
          · intro e; cases e
      · intro j hj'
        by_cases hj : j = i
        · subst hj; simp [setPc] at hj'
        · exact h.respExpired j (by simpa [setPc, hj] using hj')
      · intro j hj'
        by_cases hj : j = i
        · subst hj; simp [setPc] at hj'
        · exact h.cbLive j (by simpa [setPc, hj] using hj')
      · intro j hj'
        by_cases hj : j = i
        · subst hj; simp [setPc] at hj'
        · exact h.readyLive j (by simpa [setPc, hj] using hj')
      · intro j
        by_cases hj : j = i
        · subst hj
          have := h.doneSent j
          simp only [setPc, if_true]
          constructor
          · intro e; cases e
          · intro e; have := this.mpr e; rw [hpi] at this; cases this
        · simpa [setPc, hj] using h.doneSent j
      · have : pendingResp s = 0 := by simp [pendingResp, hl]
        simp only [pendingResp, setPc, if_true]
        simpa [this] using h.sentCount
      · intro hcb
        have : pendingCb s = 0 := by simp [pendingCb, hl]
        simp only [pendingCb, setPc, if_true]
        simpa [this] using h.cbCount hcb
    · cases hs
  | check i =>
    simp only [step] at hs
    split at hs
    · rename_i hpi
      have hli : s.lock = some i := (h.lockOk i).mpr (by simp [hpi, holding])
      have others : ∀ j, j ≠ i → holding (s.pc j) = false := by
        intro j hj
        cases hh : holding (s.pc j) with
        | false => rfl
        | true => exact absurd (holding_unique s h j i hh (by simp [hpi, holding])) hj
      split at hs
      · rename_i hv
        injection hs with hs; subst hs
        refine ⟨?_, h.ver, h.okLe, ?_, ?_, ?_, h.sentLive, ?_, ?_, ?_, h.noCb⟩
        · intro j
          by_cases hj : j = i
          · subst hj; simp [setPc, holding, hli]
          · simpa [setPc, hj] using h.lockOk j
        · intro j _; exact hv
        · intro j hj'
          by_cases hj : j = i
          · subst hj; simp [setPc] at hj'
          · exact h.cbLive j (by simpa [setPc, hj] using hj')
        · intro j hj'
          by_cases hj : j = i
          · subst hj; simp [setPc] at hj'
          · exact h.readyLive j (by simpa [setPc, hj] using hj')
        · intro j
          by_cases hj : j = i
          · subst hj
            simp only [setPc, if_true]
            constructor
            · intro e; cases e
            · intro e; have := (h.doneSent j).mpr e; rw [hpi] at this; cases this
          · simpa [setPc, hj] using h.doneSent j
        · have : pendingResp s = 0 := by simp [pendingResp, hli, hpi]
          have hsc := h.sentCount
          simp only [pendingResp, hli, setPc, if_true] at hsc ⊢
          simp only [hpi] at hsc
          simp at hsc ⊢
          omega
        · intro hcb
          have := h.cbCount hcb
          simp only [pendingCb, hli, setPc, if_true, hpi] at this ⊢
          simpa using this
      · rename_i hv
        injection hs with hs; subst hs
        refine ⟨?_, h.ver, h.okLe, ?_, ?_, ?_, h.sentLive, ?_, ?_, ?_, h.noCb⟩
        · intro j
          by_cases hj : j = i
          · subst hj; simp [setPc, holding]
          · simp [setPc, hj, others j hj]
        · intro j hj'
          by_cases hj : j = i
          · subst hj; simp [setPc] at hj'
          · exact h.respExpired j (by simpa [setPc, hj] using hj')
        · intro j hj'
          by_cases hj : j = i
          · subst hj; simp [setPc] at hj'
          · exact h.cbLive j (by simpa [setPc, hj] using hj')
        · intro j hj'
          by_cases hj : j = i
          · exact hv
          · exact h.readyLive j (by simpa [setPc, hj] using hj')
        · intro j
          by_cases hj : j = i
          · subst hj
            simp only [setPc, if_true]
            constructor
            · intro e; cases e
            · intro e; have := (h.doneSent j).mpr e; rw [hpi] at this; cases this
          · simpa [setPc, hj] using h.doneSent j
        · have hsc := h.sentCount
          simp only [pendingResp, hli, hpi] at hsc
          simpa [pendingResp] using hsc
        · intro hcb
          have := h.cbCount hcb
          simp only [pendingCb, hli, hpi] at this
          simpa [pendingCb] using this
    · cases hs
  | respond i o =>
    simp only [step] at hs
    split at hs
    · rename_i hpi
      have hli : s.lock = some i := (h.lockOk i).mpr (by simp [hpi, holding])
      have hv0 := h.respExpired i hpi
      have hok0 : s.refreshOk = 0 := by rw [← h.ver]; exact hv0
      have others : ∀ j, j ≠ i → holding (s.pc j) = false := by
        intro j hj
        cases hh : holding (s.pc j) with
        | false => rfl
        | true => exact absurd (holding_unique s h j i hh (by simp [hpi, holding])) hj
      have hsc := h.sentCount
      simp only [pendingResp, hli, hpi, if_true] at hsc
      cases o with
      | success =>
        simp only at hs
        split at hs
        · rename_i hcb
          injection hs with hs; subst hs
          refine ⟨?_, by simp [h.ver], by simp [hok0], ?_, ?_, ?_, (fun j v hv => ⟨(h.sentLive j v hv).1, Nat.le_succ_of_le (h.sentLive j v hv).2⟩), ?_, ?_, ?_, ?_⟩
          · intro j
            by_cases hj : j = i
            · subst hj; simp [setPc, holding, hli]
            · simpa [setPc, hj] using h.lockOk j
          · intro j hj'
            by_cases hj : j = i
            · subst hj; simp [setPc] at hj'
            · have := others j hj
              simp [setPc, hj] at hj'
              simp [hj', holding] at this
          · intro j _; exact ⟨by simp, hcb⟩
          · intro j _; simp
          · intro j
            by_cases hj : j = i
            · subst hj
              simp only [setPc, if_true]
              constructor
              · intro e; cases e
              · intro e; have := (h.doneSent j).mpr e; rw [hpi] at this; cases this
            · simpa [setPc, hj] using h.doneSent j
          · simp only [pendingResp, hli, setPc, if_true]
            simp; omega
          · intro _
            have := h.cbCount hcb
            simp only [pendingCb, hli, hpi] at this
            simp only [pendingCb, hli, setPc, if_true]
            simp at this ⊢; omega
          · intro hf; rw [hcb] at hf; cases hf
        · rename_i hcb
          injection hs with hs; subst hs
          refine ⟨?_, by simp [h.ver], by simp [hok0], ?_, ?_, ?_, (fun j v hv => ⟨(h.sentLive j v hv).1, Nat.le_succ_of_le (h.sentLive j v hv).2⟩), ?_, ?_, ?_, ?_⟩
          · intro j
            by_cases hj : j = i
            · subst hj; simp [setPc, holding]
            · simp [setPc, hj, others j hj]
          · intro j hj'
            by_cases hj : j = i
            · subst hj; simp [setPc] at hj'
            · have := others j hj
              simp [setPc, hj] at hj'
              simp [hj', holding] at this
          · intro j hj'
            by_cases hj : j = i
            · subst hj; simp [setPc] at hj'
            · have := others j hj
              simp [setPc, hj] at hj'
              simp [hj', holding] at this
          · intro j _; simp
          · intro j
            by_cases hj : j = i
            · subst hj
              simp only [setPc, if_true]
              constructor
              · intro e; cases e
              · intro e; have := (h.doneSent j).mpr e; rw [hpi] at this; cases this
            · simpa [setPc, hj] using h.doneSent j
          · simp only [pendingResp]; omega
          · intro hcb'; exact absurd hcb' hcb
          · intro _; exact h.noCb (by simpa using hcb)
      | oauthError | serverError =>
        simp only at hs
        injection hs with hs; subst hs
        refine ⟨?_, h.ver, h.okLe, ?_, ?_, ?_, h.sentLive, ?_, ?_, ?_, h.noCb⟩
        · intro j
          by_cases hj : j = i
          · subst hj; simp [setPc, holding]
          · simp [setPc, hj, others j hj]
        · intro j hj'
          by_cases hj : j = i
          · subst hj; simp [setPc] at hj'
          · exact h.respExpired j (by simpa [setPc, hj] using hj')
        · intro j hj'
          by_cases hj : j = i
          · subst hj; simp [setPc] at hj'
          · exact h.cbLive j (by simpa [setPc, hj] using hj')
        · intro j hj'
          by_cases hj : j = i
          · subst hj; simp [setPc] at hj'
          · exact h.readyLive j (by simpa [setPc, hj] using hj')
        · intro j
          by_cases hj : j = i
          · subst hj
            simp only [setPc, if_true]
            constructor
            · intro e; cases e
            · intro e; have := (h.doneSent j).mpr e; rw [hpi] at this; cases this
          · simpa [setPc, hj] using h.doneSent j
        · simp only [pendingResp]; omega
        · intro hcb
          have := h.cbCount hcb
          simp only [pendingCb, hli, hpi] at this
          simpa [pendingCb] using this
    · cases hs
  | cbDone i =>
    simp only [step] at hs
    split at hs
    · rename_i hpi
      injection hs with hs; subst hs
      have hli : s.lock = some i := (h.lockOk i).mpr (by simp [hpi, holding])
      have others : ∀ j, j ≠ i → holding (s.pc j) = false := by
        intro j hj
        cases hh : holding (s.pc j) with
        | false => rfl
        | true => exact absurd (holding_unique s h j i hh (by simp [hpi, holding])) hj
      obtain ⟨hlive, hcb⟩ := h.cbLive i hpi
      refine ⟨?_, h.ver, h.okLe, ?_, ?_, ?_, h.sentLive, ?_, ?_, ?_, ?_⟩
      · intro j
        by_cases hj : j = i
        · subst hj; simp [setPc, holding]
        · simp [setPc, hj, others j hj]
      · intro j hj'
        by_cases hj : j = i
        · subst hj; simp [setPc] at hj'
        · exact h.respExpired j (by simpa [setPc, hj] using hj')
      · intro j hj'
        by_cases hj : j = i
        · subst hj; simp [setPc] at hj'
        · exact h.cbLive j (by simpa [setPc, hj] using hj')
      · intro j _; exact hlive
      · intro j
        by_cases hj : j = i
        · subst hj
          simp only [setPc, if_true]
          constructor
          · intro e; cases e
          · intro e; have := (h.doneSent j).mpr e; rw [hpi] at this; cases this
        · simpa [setPc, hj] using h.doneSent j
      · have hsc := h.sentCount
        simp only [pendingResp, hli, hpi] at hsc
        simpa [pendingResp] using hsc
      · intro _
        have := h.cbCount hcb
        simp only [pendingCb, hli, hpi, if_true] at this
        simp only [pendingCb]; omega
      · intro hf; rw [hcb] at hf; cases hf
    · cases hs
  | send i =>
    simp only [step] at hs
    split at hs
    · rename_i hpi
      injection hs with hs; subst hs
      have hlive := h.readyLive i hpi
      refine ⟨?_, h.ver, h.okLe, ?_, ?_, ?_, ?_, ?_, ?_, ?_, h.noCb⟩
      · intro j
        by_cases hj : j = i
        · subst hj
          have := h.lockOk j
          simp only [hpi, holding] at this
          simpa [setPc, holding] using this
        · simpa [setPc, hj] using h.lockOk j
      · intro j hj'
        by_cases hj : j = i
        · subst hj; simp [setPc] at hj'
        · exact h.respExpired j (by simpa [setPc, hj] using hj')
      · intro j hj'
        by_cases hj : j = i
        · subst hj; simp [setPc] at hj'
        · exact h.cbLive j (by simpa [setPc, hj] using hj')
      · intro j hj'
        by_cases hj : j = i
        · subst hj; simp [setPc] at hj'
        · exact h.readyLive j (by simpa [setPc, hj] using hj')
      · intro j v hv
        by_cases hj : j = i
        · subst hj; simp at hv; rw [← hv]; exact ⟨hlive, Nat.le_refl _⟩
        · exact h.sentLive j v (by simpa [hj] using hv)
      · intro j
        by_cases hj : j = i
        · subst hj; simp [setPc]
        · simpa [setPc, hj] using h.doneSent j
      · have hsc := h.sentCount
        have : pendingResp { s with pc := setPc s i .done, sentBy := fun j => if j = i then some s.tokenVer else s.sentBy j } = pendingResp s := by
          simp only [pendingResp]
          cases hl : s.lock with
          | none => rfl
          | some k =>
            simp only
            by_cases hk : k = i
            · subst hk; simp [setPc, hpi]
            · simp [setPc, hk]
        rw [this]; exact hsc
      · intro hcb
        have hcc := h.cbCount hcb
        have : pendingCb { s with pc := setPc s i .done, sentBy := fun j => if j = i then some s.tokenVer else s.sentBy j } = pendingCb s := by
          simp only [pendingCb]
          cases hl : s.lock with
          | none => rfl
          | some k =>
            simp only
            by_cases hk : k = i
            · subst hk; simp [setPc, hpi]
            · simp [setPc, hk]
        rw [this]; exact hcc
    · cases hs

theorem run_cons (s : St) (a : Act) (r : List Act) : run s (a :: r) = run ((step s a).getD s) r := rfl

/-- every schedule, from the initial state -/
theorem inv_run (acts : List Act) : ∀ s, Inv s → Inv (run s acts) := by
  induction acts with
  | nil => intro s h; exact h
  | cons a r ih =>
    intro s h
    rw [run_cons]
    cases hs : step s a with
    | none => exact ih s h
    | some s' => exact ih s' (step_preserves_inv s s' a h hs)

theorem inv_reachable (hasCb : Bool) (acts : List Act) : Inv (run (init hasCb) acts) :=
  inv_run acts _ (inv_init hasCb)

/-! ### the statements -/

/-- **no protected request ever carries the expired token**, for every N, schedule and endpoint behaviour -/
theorem no_protected_request_with_expired_token (hasCb : Bool) (acts : List Act) (i v : Nat)
    (h : (run (init hasCb) acts).sentBy i = some v) : v ≠ 0 :=
  ((inv_reachable hasCb acts).sentLive i v h).1

/-- **mutual exclusion** of check-expired-then-refresh -/
theorem mutual_exclusion (hasCb : Bool) (acts : List Act) (i j : Nat)
    (hi : holding ((run (init hasCb) acts).pc i) = true) (hj : holding ((run (init hasCb) acts).pc j) = true) : i = j :=
  holding_unique _ (inv_reachable hasCb acts) i j hi hj

/-- **at most one successful refresh** for the expiry, and the callback fires at most once -/
theorem at_most_one_successful_refresh (hasCb : Bool) (acts : List Act) :
    (run (init hasCb) acts).refreshOk ≤ 1 ∧ (run (init hasCb) acts).callbacks ≤ 1 := by
  have h := inv_reachable hasCb acts
  refine ⟨h.okLe, ?_⟩
  cases hc : (run (init hasCb) acts).hasCb with
  | true => have := h.cbCount hc; have := h.okLe; omega
  | false => have := h.noCb hc; omega

/-- when nobody is inside the refresh section, the callback has fired exactly once per successful refresh -/
theorem callback_exactly_once_per_refresh (acts : List Act) (hq : (run (init true) acts).lock = none) :
    (run (init true) acts).callbacks = (run (init true) acts).refreshOk := by
  have h := inv_reachable true acts
  have hcb : (run (init true) acts).hasCb = true := by
    have : ∀ (l : List Act) (s : St), (run s l).hasCb = s.hasCb := by
      intro l
      induction l with
      | nil => intro s; rfl
      | cons a r ih =>
        intro s
        rw [run_cons]
        cases hs : step s a with
        | none => exact ih s
        | some s' =>
          have e : s'.hasCb = s.hasCb := by
            cases a <;> simp only [step] at hs <;> (repeat' split at hs) <;>
              first | (injection hs with hs; subst hs; rfl) | cases hs
          exact (ih s').trans e
    exact this acts _
  have := h.cbCount hcb
  simpa [pendingCb, hq] using this

/-- a coroutine whose refresh failed never sends its protected request; one that sent it is done -/
theorem failed_refresh_sends_nothing (hasCb : Bool) (acts : List Act) (i : Nat)
    (hf : (run (init hasCb) acts).pc i = .failed) : (run (init hasCb) acts).sentBy i = none := by
  have h := inv_reachable hasCb acts
  cases hs : (run (init hasCb) acts).sentBy i with
  | none => rfl
  | some v =>
    have := (h.doneSent i).mpr (by rw [hs]; simp)
    rw [hf] at this; cases this

/-- the number of refresh requests: one per success, one per failure, one in flight -/
theorem refresh_requests_accounted (hasCb : Bool) (acts : List Act) :
    (run (init hasCb) acts).refreshSent =
      (run (init hasCb) acts).refreshOk + (run (init hasCb) acts).failures + pendingResp (run (init hasCb) acts) :=
  (inv_reachable hasCb acts).sentCount

def allSuccess (acts : List Act) : Prop := ∀ i o, Act.respond i o ∈ acts → o = .success

theorem failures_zero (acts : List Act) (hall : allSuccess acts) : ∀ s, s.failures = 0 → (run s acts).failures = 0 := by
  induction acts with
  | nil => intro s h; exact h
  | cons a r ih =>
    intro s h
    rw [run_cons]
    have hr : allSuccess r := fun i o hm => hall i o (List.mem_cons_of_mem _ hm)
    cases hs : step s a with
    | none => exact ih hr s h
    | some s' =>
      have e : s'.failures = 0 := by
        cases a with
        | respond i o =>
          have := hall i o List.mem_cons_self
          subst this
          simp only [step] at hs
          repeat' split at hs
          all_goals first | (injection hs with hs; subst hs; exact h) | cases hs
        | acquire i => simp only [step] at hs; split at hs <;> first | (injection hs with hs; subst hs; exact h) | cases hs
        | check i =>
          simp only [step] at hs
          split at hs
          · split at hs <;> (injection hs with hs; subst hs; exact h)
          · cases hs
        | cbDone i => simp only [step] at hs; split at hs <;> first | (injection hs with hs; subst hs; exact h) | cases hs
        | send i => simp only [step] at hs; split at hs <;> first | (injection hs with hs; subst hs; exact h) | cases hs
      exact ih hr s' e

/-- **exactly one refresh**: with a token endpoint that answers successfully, under every schedule at
    most one refresh request is ever made, and as soon as any coroutine has sent its protected request
    exactly one was made, it succeeded, and that request carried the new token (version 1) -/
theorem exactly_one_refresh_when_endpoint_succeeds (hasCb : Bool) (acts : List Act) (hall : allSuccess acts) :
    (run (init hasCb) acts).refreshSent ≤ 1 ∧
    ∀ i v, (run (init hasCb) acts).sentBy i = some v →
      v = 1 ∧ (run (init hasCb) acts).refreshOk = 1 ∧
      (run (init hasCb) acts).refreshSent = 1 := by
  have h := inv_reachable hasCb acts
  have hf := failures_zero acts hall (init hasCb) rfl
  have hsc := h.sentCount
  have hok := h.okLe
  have hp : pendingResp (run (init hasCb) acts) ≤ 1 := by
    simp only [pendingResp]; split <;> (try split) <;> omega
  have hexcl : pendingResp (run (init hasCb) acts) = 1 → (run (init hasCb) acts).refreshOk = 0 := by
    intro hp1
    simp only [pendingResp] at hp1
    split at hp1
    · rename_i k _
      split at hp1
      · rename_i hk
        have := h.respExpired k hk
        rw [h.ver] at this; exact this
      · cases hp1
    · cases hp1
  refine ⟨?_, ?_⟩
  · rw [hsc, hf]
    by_cases hp1 : pendingResp (run (init hasCb) acts) = 1
    · rw [hexcl hp1, hp1]; exact Nat.le_refl _
    · omega
  · intro i v hv
    obtain ⟨hne, hle⟩ := h.sentLive i v hv
    -- the version sent is the token version at that moment ≤ the final one = refreshOk ≤ 1
    rw [h.ver] at hle
    have hv1 : v = 1 := by omega
    have hok1 : (run (init hasCb) acts).refreshOk = 1 := by omega
    refine ⟨hv1, hok1, ?_⟩
    rw [hsc, hf, hok1]
    by_cases hp1 : pendingResp (run (init hasCb) acts) = 1
    · have := hexcl hp1; omega
    · omega

/-- non-vacuity: a concrete schedule of two coroutines in which both requests go out with the new token
    after exactly one refresh, and one in which the endpoint fails for the first caller -/
example : let s := run (init true) [.acquire 0, .acquire 1, .check 0, .respond 0 .success, .cbDone 0, .acquire 1, .send 0, .check 1, .send 1]
    s.sentBy 0 = some 1 ∧ s.sentBy 1 = some 1 ∧ s.refreshSent = 1 ∧ s.callbacks = 1 := by decide
example : let s := run (init false) [.acquire 0, .check 0, .respond 0 .oauthError, .acquire 1, .check 1, .respond 1 .success, .send 1, .send 0]
    s.pc 0 = .failed ∧ s.sentBy 0 = none ∧ s.sentBy 1 = some 1 ∧ s.refreshSent = 2 := by decide

end Props.C17
