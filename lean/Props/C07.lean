import Props.C07Jwt
import Model.ClientAuth
import Generated.Grants
/-
  C07 — a request is treated as coming from a client only with that client's identifier, valid
  credentials and a method both the endpoint permits and the client is registered for; everything
  else is invalid_client (401 + challenge when Basic was the only mechanism and is permitted).
  Secret-based methods and `none`; the JWT assertion method is covered by correspondence only.
-/
namespace Props.C07
open Model Model.ClientEmit Model.ClientAuth

/-- what "valid credentials through method m" means, from the property statement -/
def ValidCredentials (clients : List Client) (r : Req) (c : Client) : String → Prop
  | "client_secret_basic" => extractBasic r.authorization = (some c.id, some c.secret) ∧ c.id ≠ [] ∧ c.secret ≠ []
  | "client_secret_post" => r.formClientId = some c.id ∧ r.formSecret = some c.secret ∧ c.id ≠ [] ∧ c.secret ≠ []
  | "none" => r.dataClientId = some c.id ∧ c.id ≠ [] ∧ truthyB r.dataSecret = false
  | _ => False

theorem find_spec (clients : List Client) (id : Bytes) (c : Client) (h : find clients id = some c) :
    c ∈ clients ∧ c.id = id := by
  unfold find at h
  induction clients with
  | nil => simp at h
  | cons x xs ih =>
    simp only [List.find?_cons] at h
    split at h
    · rename_i hx; injection h with h; subst h; exact ⟨by simp, by simpa using hx⟩
    · obtain ⟨h1, h2⟩ := ih h; exact ⟨by simp [h1], h2⟩

theorem tryMethod_client (clients : List Client) (r : Req) (m : String) (c : Client)
    (h : tryMethod clients r m = .client c) : c ∈ clients ∧ ValidCredentials clients r c m := by
  unfold tryMethod at h
  split at h
  · -- basic
    unfold tryBasic at h
    split at h
    · rename_i id secret heq
      split at h
      · cases h
      · rename_i hne
        cases hf : find clients id with
        | none => simp [hf] at h
        | some c' =>
          simp only [hf] at h
          split at h
          · rename_i hs
            injection h with h; subst h
            obtain ⟨hm, hid⟩ := find_spec clients id c' hf
            have hs' : c'.secret = secret := by simpa using hs
            have hne' : id ≠ [] ∧ secret ≠ [] := by
              simp only [Bool.or_eq_true, not_or] at hne
              exact ⟨by simpa using hne.1, by simpa using hne.2⟩
            refine ⟨hm, ?_, ?_, ?_⟩
            · rw [heq, hid, hs']
            · rw [hid]; exact hne'.1
            · rw [hs']; exact hne'.2
          · cases h
    · cases h
  · -- post
    unfold tryPost at h
    split at h
    · rename_i hcond
      simp only [Bool.and_eq_true] at hcond
      cases hf : find clients (r.formClientId.getD []) with
      | none => simp [hf] at h
      | some c' =>
        simp only [hf] at h
        split at h
        · rename_i hs
          injection h with h; subst h
          obtain ⟨hm, hid⟩ := find_spec clients _ c' hf
          have hs' : c'.secret = r.formSecret.getD [] := by simpa using hs
          cases hfi : r.formClientId with
          | none => simp [truthyB, hfi] at hcond
          | some fid =>
            cases hfs : r.formSecret with
            | none => simp [truthyB, hfs] at hcond
            | some fs =>
              simp only [hfi, hfs, Option.getD_some] at hid hs'
              simp only [truthyB, hfi, hfs] at hcond
              refine ⟨hm, ?_, ?_, ?_, ?_⟩
              · rw [hid]; exact hfi
              · rw [hs']; exact hfs
              · rw [hid]; simpa using hcond.1
              · rw [hs']; simpa using hcond.2
        · cases h
    · cases h
  · -- none
    unfold tryNone at h
    split at h
    · rename_i hcond
      simp only [Bool.and_eq_true] at hcond
      cases hf : find clients (r.dataClientId.getD []) with
      | none => simp [hf] at h
      | some c' =>
        simp only [hf] at h
        injection h with h; subst h
        obtain ⟨hm, hid⟩ := find_spec clients _ c' hf
        cases hdi : r.dataClientId with
        | none => simp [truthyB, hdi] at hcond
        | some did =>
          simp only [hdi, Option.getD_some] at hid
          simp only [truthyB, hdi] at hcond
          refine ⟨hm, ?_, ?_, ?_⟩
          · rw [hid]; exact hdi
          · rw [hid]; simpa using hcond.1
          · simpa [truthyB] using hcond.2
    · cases h
  · cases h

/-- **Core statement.** Authentication succeeds only for an existing client, with valid credentials
    of that very client, through a method on the endpoint's list that the client is registered for. -/
theorem authenticated_implies_valid_credentials_and_permitted_method (clients : List Client) (r : Req)
    (methods : List String) (endpoint : String) (id : Bytes) (m : String)
    (h : authenticate clients r methods endpoint = .authenticated id m) :
    m ∈ methods ∧ ∃ c ∈ clients, c.id = id ∧ ValidCredentials clients r c m ∧ methodPermitted c m endpoint = true := by
  unfold authenticate at h
  generalize hall : methods = all at h
  have key : ∀ ms : List String, authLoop clients r endpoint all ms = .authenticated id m →
      m ∈ ms ∧ ∃ c ∈ clients, c.id = id ∧ ValidCredentials clients r c m ∧ methodPermitted c m endpoint = true := by
    intro ms
    induction ms with
    | nil =>
      intro h
      simp only [authLoop] at h
      split at h <;> cases h
    | cons m0 ms ih =>
      intro h
      simp only [authLoop] at h
      cases ht : tryMethod clients r m0 with
      | raised st => simp [ht] at h
      | nothing =>
        simp only [ht] at h
        obtain ⟨h1, h2⟩ := ih h
        exact ⟨by simp [h1], h2⟩
      | client c =>
        simp only [ht] at h
        split at h
        · rename_i hperm
          injection h with h1 h2
          subst h2
          obtain ⟨hm, hv⟩ := tryMethod_client clients r m0 c ht
          exact ⟨by simp, c, hm, h1, hv, hperm⟩
        · obtain ⟨h1, h2⟩ := ih h
          exact ⟨by simp [h1], h2⟩
  obtain ⟨h1, h2⟩ := key all h
  exact ⟨h1, h2⟩

/-- the permitted-method lists the built-in grants ship with (regenerated from the grant classes after the whole
    library is imported): the password, client-credentials and refresh grants permit HTTP Basic only, the
    authorization-code grant Basic and POST, the front-channel grants `none`, the device grant all three -/
theorem shipped_method_lists :
    Generated.Grants.passwordAuthMethods = ["client_secret_basic"] ∧
    Generated.Grants.clientCredentialsAuthMethods = ["client_secret_basic"] ∧
    Generated.Grants.refreshAuthMethods = ["client_secret_basic"] ∧
    Generated.Grants.codeAuthMethods = ["client_secret_basic", "client_secret_post"] ∧
    Generated.Grants.implicitAuthMethods = ["none"] ∧
    Generated.Grants.oidcImplicitAuthMethods = ["none"] ∧
    Generated.Grants.hybridAuthMethods = ["none"] ∧
    Generated.Grants.deviceAuthMethods = ["client_secret_basic", "client_secret_post", "none"] := by decide

/-- at a built-in grant that keeps its shipped list, a client is authenticated through HTTP Basic only
    (password, client credentials, refresh), whatever it presents and whatever it is registered for -/
theorem shipped_basic_only_grants (clients : List Client) (r : Req) (id : Bytes) (m : String) (methods : List String)
    (hg : methods = Generated.Grants.passwordAuthMethods ∨ methods = Generated.Grants.clientCredentialsAuthMethods ∨
          methods = Generated.Grants.refreshAuthMethods)
    (h : authenticate clients r methods "token" = .authenticated id m) : m = "client_secret_basic" := by
  obtain ⟨hm, _⟩ := authenticated_implies_valid_credentials_and_permitted_method clients r methods "token" id m h
  obtain ⟨h1, h2, h3, _⟩ := shipped_method_lists
  rcases hg with hg | hg | hg <;> subst hg
  · rw [h1] at hm; simpa using hm
  · rw [h2] at hm; simpa using hm
  · rw [h3] at hm; simpa using hm

/-- the shipped authorization-code grant never authenticates a client through `none` -/
theorem shipped_code_grant_not_none (clients : List Client) (r : Req) (id : Bytes) (m : String)
    (h : authenticate clients r Generated.Grants.codeAuthMethods "token" = .authenticated id m) : m ≠ "none" := by
  obtain ⟨hm, _⟩ := authenticated_implies_valid_credentials_and_permitted_method clients r _ "token" id m h
  rw [shipped_method_lists.2.2.2.1] at hm
  intro hn; subst hn; simp at hm

/-- a public client that also supplies a secret is never authenticated through `none` -/
theorem public_client_with_secret_rejected (clients : List Client) (r : Req) (hs : truthyB r.dataSecret = true) :
    tryNone clients r = .nothing := by
  simp [tryNone, hs]

/-- a wrong secret never authenticates through Basic or POST -/
theorem wrong_secret_rejected (clients : List Client) (r : Req) (methods : List String) (endpoint : String)
    (id : Bytes) (m : String) (h : authenticate clients r methods endpoint = .authenticated id m)
    (hm : m = "client_secret_post") : ∃ c ∈ clients, c.id = id ∧ r.formSecret = some c.secret := by
  obtain ⟨_, c, hc, hid, hv, _⟩ := authenticated_implies_valid_credentials_and_permitted_method clients r methods endpoint id m h
  subst hm
  exact ⟨c, hc, hid, hv.2.1⟩

/-- at the token endpoint a client is never authenticated through a method it is not registered for -/
theorem unregistered_method_rejected (clients : List Client) (r : Req) (methods : List String) (id : Bytes) (m : String)
    (h : authenticate clients r methods "token" = .authenticated id m) :
    ∃ c ∈ clients, c.id = id ∧ c.method = m := by
  obtain ⟨_, c, hc, hid, _, hp⟩ := authenticated_implies_valid_credentials_and_permitted_method clients r methods "token" id m h
  exact ⟨c, hc, hid, by simpa [methodPermitted] using hp⟩

/-- when nothing matches and Basic is permitted, the answer is 401 with a WWW-Authenticate challenge;
    when Basic is not permitted it is a plain 400 -/
theorem exhausted_status (clients : List Client) (r : Req) (methods : List String) (endpoint : String)
    (hnone : ∀ m ∈ methods, tryMethod clients r m = .nothing) :
    authenticate clients r methods endpoint =
      (if methods.contains "client_secret_basic" then .invalidClient 401 true else .invalidClient 400 false) := by
  unfold authenticate
  generalize hall : methods = all at hnone ⊢
  have : ∀ ms : List String, (∀ m ∈ ms, tryMethod clients r m = .nothing) →
      authLoop clients r endpoint all ms = (if all.contains "client_secret_basic" then .invalidClient 401 true else .invalidClient 400 false) := by
    intro ms
    induction ms with
    | nil => intro _; rfl
    | cons m0 ms ih =>
      intro h
      simp only [authLoop, h m0 (by simp)]
      exact ih (fun m hm => h m (by simp [hm]))
  exact this all hnone

/-- every outcome that is not an authentication is `invalid_client` with status 400 or 401, and the
    challenge header accompanies exactly the 401 -/
theorem otherwise_invalid_client (clients : List Client) (r : Req) (methods : List String) (endpoint : String) :
    (∃ id m, authenticate clients r methods endpoint = .authenticated id m) ∨
    (∃ st, authenticate clients r methods endpoint = .invalidClient st (st == 401) ∧ (st = 400 ∨ st = 401)) := by
  unfold authenticate
  generalize methods = all
  have : ∀ ms : List String, (∃ id m, authLoop clients r endpoint all ms = .authenticated id m) ∨
      (∃ st, authLoop clients r endpoint all ms = .invalidClient st (st == 401) ∧ (st = 400 ∨ st = 401)) := by
    intro ms
    induction ms with
    | nil =>
      simp only [authLoop]
      split
      · exact Or.inr ⟨401, rfl, Or.inr rfl⟩
      · exact Or.inr ⟨400, rfl, Or.inl rfl⟩
    | cons m0 ms ih =>
      simp only [authLoop]
      cases ht : tryMethod clients r m0 with
      | raised st =>
        simp only
        have : st = 400 ∨ st = 401 := by
          unfold tryMethod at ht
          split at ht
          · unfold tryBasic at ht
            repeat' split at ht
            all_goals first | (injection ht with ht; exact Or.inr ht.symm) | cases ht
          · unfold tryPost at ht
            repeat' split at ht
            all_goals first | (injection ht with ht; exact Or.inl ht.symm) | cases ht
          · unfold tryNone at ht
            repeat' split at ht
            all_goals first | (injection ht with ht; exact Or.inl ht.symm) | cases ht
          · cases ht
        exact Or.inr ⟨st, rfl, this⟩
      | nothing => simpa using ih
      | client c =>
        simp only
        split
        · exact Or.inl ⟨_, _, rfl⟩
        · exact ih
  exact this all

/-- non-vacuity: Basic credentials of a registered confidential client authenticate at the token endpoint -/
example : authenticate [⟨s "app", s "s3cret", "client_secret_basic"⟩]
    { authorization := some (encodeSecretBasic (s "app") (s "s3cret")), formClientId := none, formSecret := none,
      dataClientId := none, dataSecret := none } ["client_secret_basic", "client_secret_post"] "token"
    = .authenticated (s "app") "client_secret_basic" := by decide +kernel

end Props.C07
