import Props.C08Core
import Props.C08Hist
/-
  C08 — scope of issued tokens. `Props.C08Core` (namespace `Props.C08`): one request, every grant and
  generator. `Props.C08Hist`: histories of token and refresh requests under changing configuration.
-/
