import Props.C20Keys
import Model.ErrorResponse
import Generated.Errors
/-
  C20 — protocol errors become well-formed responses.

  The regenerated layer (Generated/Errors.lean, re-extracted from the source by AST on every run)
  lists every OAuth2Error subclass, every description literal the library passes when raising one,
  and every site where the description is computed.  Theorems over it:
  * the character ranges are RFC 6749's;
  * every class-level and every literal description is inside them (class-level texts bypass the
    constructor check, so this is what keeps them out of trouble);
  * every error code is registered, every status is a 4xx that fits the code;
  * the computed-description sites are exactly the reviewed list below;
  * the default JSON headers carry Cache-Control: no-store and Pragma: no-cache.
  And over the model of the error path (Model/ErrorResponse.lean): `response_wellformed`,
  `no_crash_partial`.

  PARTIAL: that the body of an endpoint raises nothing but OAuth2Error for any input is not a theorem
  — Python code is not total by construction; it is the hostile-input correspondence / oracle run
  that searches for such an escape, and the reviewed list of computed descriptions that bounds where
  request data can reach the constructor check.
-/
namespace Props.C20
open Model.ErrorResponse

def rfc6749Ranges : List (Nat × Nat) := [(0x20, 0x21), (0x23, 0x5B), (0x5D, 0x7E)]

/-- error codes registered for OAuth 2 provider responses: RFC 6749 §4.1.2.1 / §5.2, RFC 6750 §3.1, RFC 7009 §2.2.1,
    RFC 7591 §3.2.2, RFC 8628 §3.5, OpenID Connect Core §3.1.2.6 and Registration §3.3, and the library's own
    insecure_transport / missing_authorization -/
def registeredCodes : List String :=
  ["invalid_request", "invalid_client", "invalid_grant", "unauthorized_client", "unsupported_grant_type", "invalid_scope", "access_denied",
   "unsupported_response_type", "server_error", "temporarily_unavailable", "invalid_token", "insufficient_scope", "unsupported_token_type",
   "invalid_redirect_uri", "invalid_client_metadata", "invalid_software_statement", "unapproved_software_statement", "authorization_pending",
   "slow_down", "expired_token", "interaction_required", "login_required", "account_selection_required", "consent_required",
   "invalid_request_uri", "invalid_request_object", "request_not_supported", "request_uri_not_supported", "registration_not_supported",
   "missing_authorization", "insecure_transport"]

/-- the error classes a provider can answer with: abstract bases (no code) and the client-side `…Exception` classes excluded -/
def providerClasses : List ErrClass :=
  (Generated.Errors.classes.filter fun c => c.2.1 != "" && !c.1.endsWith "Exception").map fun c => ⟨c.2.1, c.2.2.1, c.2.2.2⟩

def statusFits (c : ErrClass) : Bool :=
  400 ≤ c.status && c.status < 500 &&
  (c.code != "invalid_token" || c.status == 401) &&
  (c.code != "missing_authorization" || c.status == 401) &&
  (c.code != "insufficient_scope" || c.status == 403) &&
  (c.code != "invalid_client" || c.status == 400 || c.status == 401)

theorem ranges_are_rfc6749 : Generated.Errors.validRanges = rfc6749Ranges := by decide

theorem static_descriptions_in_charset :
    Generated.Errors.staticDescriptions.all (descOk rfc6749Ranges) = true := by decide +kernel

theorem class_descriptions_in_charset :
    providerClasses.all (fun c => descOk rfc6749Ranges c.classDesc) = true := by decide +kernel

theorem error_codes_registered : providerClasses.all (fun c => registeredCodes.contains c.code) = true := by decide +kernel

theorem statuses_fit : providerClasses.all statusFits = true := by decide +kernel

/-- the sites where an OAuth 2 error description is computed rather than literal — each reviewed:
    configuration values (methods, GRANT_TYPE), a response_type / parameter name already matched
    against a fixed set, or a JOSE / claims error text that is sanitised (`_error_description`) or
    names a fixed claim -/
def reviewedDynamicSites : List String :=
  ["oauth2/rfc6749/authenticate_client.py: f\"The client cannot authenticate with methods: {methods}\"",
   "oauth2/rfc6749/grants/authorization_code.py: f\"The client is not authorized to use 'grant_type={self.GRANT_TYPE}'\"",
   "oauth2/rfc6749/grants/authorization_code.py: f\"The client is not authorized to use 'response_type={response_type}'\"",
   "oauth2/rfc6749/grants/base.py: f\"Multiple '{param}' in request.\"",
   "oauth2/rfc6749/grants/client_credentials.py: f\"The client is not authorized to use 'grant_type={self.GRANT_TYPE}'\"",
   "oauth2/rfc6749/grants/implicit.py: f\"The client is not authorized to use 'response_type={response_type}'\"",
   "oauth2/rfc6749/grants/refresh_token.py: f\"The client is not authorized to use 'grant_type={self.GRANT_TYPE}'\"",
   "oauth2/rfc6749/grants/resource_owner_password_credentials.py: f\"The client is not authorized to use 'grant_type={self.GRANT_TYPE}'\"",
   "oauth2/rfc7523/client.py: _error_description(e.description)",
   "oauth2/rfc7523/client.py: f\"The client cannot authenticate with method: {self.CLIENT_AUTH_METHOD}\"",
   "oauth2/rfc7523/jwt_bearer.py: _error_description(e.description)",
   "oauth2/rfc7523/jwt_bearer.py: f\"The client is not authorized to use 'grant_type={self.GRANT_TYPE}'\"",
   "oauth2/rfc7591/endpoint.py: error.description",
   "oauth2/rfc7592/endpoint.py: error.description",
   "oauth2/rfc8628/device_code.py: f\"The client is not authorized to use 'response_type={self.GRANT_TYPE}'\""]

theorem dynamic_description_sites_reviewed : Generated.Errors.dynamicDescriptionSites = reviewedDynamicSites := by decide +kernel

theorem json_responses_not_cacheable :
    Generated.Errors.defaultJsonHeaders.contains ("Cache-Control", "no-store") = true ∧
    Generated.Errors.defaultJsonHeaders.contains ("Pragma", "no-cache") = true := by decide +kernel

/-! ### the error path -/

theorem construct_ok (r : List (Nat × Nat)) (c : ErrClass) (arg : Option String) (d : String)
    (h : construct r c arg = .ok d) : (arg = none ∧ d = c.classDesc) ∨ (arg = some d ∧ (d = "" ∨ descOk r d = true)) := by
  unfold construct at h
  cases arg with
  | none => injection h with h; exact Or.inl ⟨rfl, h.symm⟩
  | some a =>
    simp only at h
    split at h
    · cases h
    · rename_i hc
      injection h with h
      subst h
      refine Or.inr ⟨rfl, ?_⟩
      by_cases he : a = ""
      · exact Or.inl he
      · right
        have : (a != "") = true := by simpa using he
        simpa [this] using hc

/-- **every response built from a protocol error is well-formed**: a registered code, a fitting 4xx
    status, and a description (when there is one) inside the RFC 6749 character set -/
theorem response_wellformed (c : ErrClass) (hc : c ∈ providerClasses) (arg : Option String) (d : String) (hs : List (String × String))
    (h : construct rfc6749Ranges c arg = .ok d) :
    registeredCodes.contains (respond c d hs).error = true ∧ statusFits c = true ∧ (respond c d hs).status = c.status ∧
    ∀ t, (respond c d hs).description = some t → descOk rfc6749Ranges t = true := by
  have hreg := List.all_eq_true.mp error_codes_registered c hc
  have hst := List.all_eq_true.mp statuses_fit c hc
  have hcd := List.all_eq_true.mp class_descriptions_in_charset c hc
  refine ⟨hreg, hst, rfl, ?_⟩
  intro t ht
  simp only [respond] at ht
  split at ht
  · injection ht with ht
    subst ht
    rcases construct_ok _ _ _ _ h with ⟨_, rfl⟩ | ⟨_, he | hok⟩
    · exact hcd
    · subst he; rfl
    · exact hok
  · cases ht

/-- **no crash on the modelled error path**: when the endpoint body raises nothing but OAuth 2 errors
    whose description is absent, one of the library's literals, or already inside the character set,
    the endpoint returns a response (well-formed by the theorem above) and never an exception -/
theorem no_crash_partial (hs : List (String × String)) (c : ErrClass) (arg : Option String)
    (harg : arg = none ∨ (∃ d, arg = some d ∧ (d ∈ Generated.Errors.staticDescriptions ∨ descOk rfc6749Ranges d = true))) :
    ∃ r, endpoint rfc6749Ranges hs (.error (.oauth c arg)) = .ok r := by
  simp only [endpoint]
  rcases harg with rfl | ⟨d, rfl, hd⟩
  · exact ⟨_, rfl⟩
  · have hok : descOk rfc6749Ranges d = true := by
      rcases hd with hm | h
      · exact List.all_eq_true.mp static_descriptions_in_charset d hm
      · exact h
    simp [construct, hok]

/-- the complement, stated: a description argument with a forbidden character makes the error
    constructor itself raise — the request leaves the endpoint as ValueError (this is how a raw request
    value embedded in a description became a crash; replayed on the real code by the oracle) -/
theorem forbidden_character_crashes (hs : List (String × String)) (c : ErrClass) (d : String)
    (hne : d ≠ "") (hbad : descOk rfc6749Ranges d = false) :
    endpoint rfc6749Ranges hs (.error (.oauth c (some d))) = .error "ValueError" := by
  have : (d != "") = true := by simpa using hne
  simp [endpoint, construct, hbad, this]

example : descOk rfc6749Ranges "Redirect URI \"x is not supported" = false := by decide
example : providerClasses.length > 20 := by decide +kernel

end Props.C20
