import Model.NonceStore
import Generated.OAuth1
/-
  C12, sentence 3 ("each combination of client, token, timestamp and nonce is accepted at most once, timestamps older
  than the configured window are refused") for the replay guard the integrations ship: a timestamp window without an
  upper bound over a nonce memory of finite duration.

  * `stale_timestamp_refused`: a timestamp older than the window is refused and the store is untouched.
  * `second_acceptance_needs_expired_memory`: over EVERY history of other requests in between, a key that was accepted at
    clock t1 is accepted again at t2 only if t2 ≥ t1 + ttl and the timestamp is still inside the window at t2 — i.e. the
    timestamp was at least ttl − window ahead of the server clock when it was first accepted.
  * `accepted_at_most_once_partial`: hence for timestamps less than ttl − window ahead of the clock the sentence holds.
  * `future_timestamp_accepted_twice`: and for the rest it is false (the known finding C12-future-timestamp…), with the
    shipped constants window = 300, ttl = 86400.
-/
namespace Props.C12Nonce
open Model.NonceStore

theorem stale_timestamp_refused (c : Cfg) (s : Store) (now ts : Int) (k : String) (h : now - ts > c.window) :
    step c s now ts k = (s, .staleTimestamp) := by
  simp [step, h]

/-- the store holds an entry for `k` that the cache will not forget before `E` -/
def Remembered (k : String) (E : Int) (s : Store) : Prop := ∃ e ∈ s, e.key = k ∧ E ≤ e.exp

theorem remembered_not_accepted (c : Cfg) (s : Store) (k : String) (E now ts : Int) (h : Remembered k E s) (hn : now < E) :
    (step c s now ts k).2 ≠ .accepted := by
  obtain ⟨e, he, hk, hE⟩ := h
  have hl : live now s k = true := by
    simp only [live, List.any_eq_true]
    exact ⟨e, he, by simp [hk]; omega⟩
  unfold step
  by_cases h1 : now - ts > c.window
  · simp [h1]
  · simp [h1, hl]

theorem step_keeps_remembered (c : Cfg) (s : Store) (k k' : String) (E now ts : Int) (h : Remembered k E s)
    (hnow : k' = k → E ≤ now + c.ttl) : Remembered k E (step c s now ts k').1 := by
  obtain ⟨e, he, hk, hE⟩ := h
  unfold step
  by_cases h1 : now - ts > c.window
  · simp only [h1, if_true]; exact ⟨e, he, hk, hE⟩
  · simp only [h1, if_false]
    by_cases hkk : k' = k
    · subst hkk
      have hnew : Remembered k' E (⟨k', now + c.ttl⟩ :: s.filter (fun e => e.key != k')) :=
        ⟨⟨k', now + c.ttl⟩, by simp, rfl, hnow rfl⟩
      split <;> exact hnew
    · have hkeep : Remembered k E (⟨k', now + c.ttl⟩ :: s.filter (fun e => e.key != k')) := by
        refine ⟨e, ?_, hk, hE⟩
        apply List.mem_cons_of_mem
        apply List.mem_filter.mpr
        refine ⟨he, ?_⟩
        simp only [bne_iff_ne, ne_eq]
        rw [hk]; exact fun h => hkk h.symm
      split <;> exact hkeep

theorem run_keeps_remembered (c : Cfg) (k : String) (E : Int) :
    ∀ (rs : List Req) (s : Store), Remembered k E s → (∀ r ∈ rs, r.key = k → E ≤ r.now + c.ttl) → Remembered k E (run c s rs).1
  | [], s, h, _ => by simpa [run] using h
  | r :: rs, s, h, hr => by
    simp only [run]
    exact run_keeps_remembered c k E rs _ (step_keeps_remembered c s k r.key E r.now r.ts h (hr r (by simp)))
      (fun r' hm => hr r' (List.mem_cons_of_mem _ hm))

theorem accepted_is_remembered (c : Cfg) (s : Store) (now ts : Int) (k : String) (h : (step c s now ts k).2 = .accepted) :
    Remembered k (now + c.ttl) (step c s now ts k).1 := by
  unfold step at h ⊢
  by_cases h1 : now - ts > c.window
  · simp [h1] at h
  · simp only [h1, if_false] at h ⊢
    split
    · rename_i hl; simp [hl] at h
    · exact ⟨⟨k, now + c.ttl⟩, by simp, rfl, Int.le_refl _⟩

/-- **Every history in between**: a second acceptance of the same key needs the nonce memory to have expired while
    the timestamp is still inside the window -/
theorem second_acceptance_needs_expired_memory (c : Cfg) (s : Store) (t1 t2 ts : Int) (k : String) (mid : List Req)
    (hmid : ∀ r ∈ mid, t1 ≤ r.now)
    (h1 : (step c s t1 ts k).2 = .accepted)
    (h2 : (step c (run c (step c s t1 ts k).1 mid).1 t2 ts k).2 = .accepted) :
    t1 + c.ttl ≤ t2 ∧ t2 - ts ≤ c.window := by
  have hrem := run_keeps_remembered c k (t1 + c.ttl) mid _ (accepted_is_remembered c s t1 ts k h1)
    (fun r hr _ => by have := hmid r hr; omega)
  constructor
  · by_cases hlt : t2 < t1 + c.ttl
    · exact absurd h2 (remembered_not_accepted c _ k _ t2 ts hrem hlt)
    · omega
  · by_cases hw : t2 - ts > c.window
    · rw [stale_timestamp_refused c _ t2 ts k hw] at h2; cases h2
    · omega

/-- the sentence as stated holds for every timestamp less than ttl − window ahead of the server clock -/
theorem accepted_at_most_once_partial (c : Cfg) (s : Store) (t1 t2 ts : Int) (k : String) (mid : List Req)
    (hmid : ∀ r ∈ mid, t1 ≤ r.now) (hts : ts - t1 < c.ttl - c.window)
    (h1 : (step c s t1 ts k).2 = .accepted) :
    (step c (run c (step c s t1 ts k).1 mid).1 t2 ts k).2 ≠ .accepted := by
  intro h2
  obtain ⟨ha, hb⟩ := second_acceptance_needs_expired_memory c s t1 t2 ts k mid hmid h1 h2
  omega

def shipped : Cfg := ⟨300, 86400⟩

/-- the constants the code ships NOW (regenerated): a 300 s timestamp window, HMAC-SHA1 as the only default signature
    method, and a nonce memory of one day in the Flask cache hooks and in both Django classes -/
theorem shipped_constants :
    Generated.OAuth1.expiryTime = 300 ∧ Generated.OAuth1.defaultSignatureMethods = ["HMAC-SHA1"] ∧
    Generated.OAuth1.flaskNonceExpires = 86400 ∧ Generated.OAuth1.flaskRegisterNonceExpires = 86400 ∧
    Generated.OAuth1.djangoServerNonceExpires = 86400 ∧ Generated.OAuth1.djangoProtectorNonceExpires = 86400 := by decide

theorem shipped_eq_generated : shipped.window = Generated.OAuth1.expiryTime ∧ shipped.ttl = Generated.OAuth1.flaskNonceExpires := by decide

/-- with the shipped constants: a request whose timestamp is less than 86 100 s ahead of the server clock is accepted at
    most once, whatever else the server sees in between -/
theorem shipped_accepted_at_most_once (s : Store) (t1 t2 ts : Int) (k : String) (mid : List Req)
    (hmid : ∀ r ∈ mid, t1 ≤ r.now) (hts : ts - t1 < 86100)
    (h1 : (step shipped s t1 ts k).2 = .accepted) :
    (step shipped (run shipped (step shipped s t1 ts k).1 mid).1 t2 ts k).2 ≠ .accepted :=
  accepted_at_most_once_partial shipped s t1 t2 ts k mid hmid (by simp only [shipped]; omega) h1

/-- … and it is false beyond: the shipped constants, a timestamp 90 000 s ahead, the same request 86 500 s later -/
theorem future_timestamp_accepted_twice :
    (run shipped [] [⟨1000000, 1090000, "n-1090000-ca"⟩, ⟨1086500, 1090000, "n-1090000-ca"⟩]).2 = [.accepted, .accepted] := by
  decide

/-- non-vacuity of the partial theorem: an ordinary request is accepted once and its replay refused -/
example : (run shipped [] [⟨1000000, 1000000, "n"⟩, ⟨1000010, 1000000, "n"⟩, ⟨1000400, 1000000, "n"⟩]).2
    = [.accepted, .replay, .staleTimestamp] := by decide

end Props.C12Nonce
