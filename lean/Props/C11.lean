import Model.OAuth1Sig
import Lemmas.Percent
import Lemmas.Base64
/-
  C11 — OAuth 1.0 signature base string: injectivity (what it determines), tamper detection as a
  reduction to a MAC collision, secrets, and the two places where the code deviates from
  RFC 5849 §3.4.1 (negation witnesses; see known_findings.json).
-/
namespace Props.C11
open Model Model.Percent Model.OAuth1Sig

/-! ### escape -/

theorem escape_injective {a b : Bytes} (h : escape a = escape b) : a = b := by
  have ha := unquote_quote safeTilde (by decide) a
  have hb := unquote_quote safeTilde (by decide) b
  unfold escape at h
  rw [h] at ha
  exact ha.symm.trans hb

/-- `x` never occurs in `quote safe b` when it is not safe, not `%` and not a hex digit -/
theorem quote_no (safe : UInt8 → Bool) (x : UInt8) (hx : alwaysSafe x = false) (hs : safe x = false)
    (h37 : x ≠ 37) (hhex : ∀ n : Fin 16, hexUp n.val ≠ x) : ∀ b : Bytes, x ∉ quote safe b
  | [] => by simp [quote]
  | c :: rest => by
    have ih := quote_no safe x hx hs h37 hhex rest
    have hc := UInt8.toNat_lt c
    simp only [quote]
    split
    · rename_i h
      simp only [List.mem_cons, not_or]
      refine ⟨?_, ih⟩
      intro e; subst e; simp [hx, hs] at h
    · simp only [List.mem_cons, not_or]
      exact ⟨h37, fun e => hhex ⟨c.toNat / 16, by omega⟩ e.symm,
             fun e => hhex ⟨c.toNat % 16, by omega⟩ e.symm, ih⟩

theorem amp_not_in_escape (b : Bytes) : (38 : UInt8) ∉ escape b :=
  quote_no safeTilde 38 (by decide) (by decide) (by decide) (by decide +kernel) b

theorem eq_not_in_escape (b : Bytes) : (61 : UInt8) ∉ escape b :=
  quote_no safeTilde 61 (by decide) (by decide) (by decide) (by decide +kernel) b

/-! ### the base string determines method, URI and the normalised parameter string -/

theorem base_string_injective (m m' u u' p p' : Bytes)
    (h : baseStringOf m u p = baseStringOf m' u' p') :
    m.map upperB = m'.map upperB ∧ u = u' ∧ p = p' := by
  unfold baseStringOf at h
  have h1 := splitOn_join 38 [escape (m.map upperB), escape u, escape p] (by simp)
    (by intro x hx; simp at hx; rcases hx with rfl | rfl | rfl <;> exact amp_not_in_escape _)
  have h2 := splitOn_join 38 [escape (m'.map upperB), escape u', escape p'] (by simp)
    (by intro x hx; simp at hx; rcases hx with rfl | rfl | rfl <;> exact amp_not_in_escape _)
  rw [h] at h1
  rw [h1] at h2
  simp only [List.cons.injEq, and_true] at h2
  exact ⟨escape_injective h2.1, escape_injective h2.2.1, escape_injective h2.2.2⟩

/-- the normalised parameter string determines the sorted list of escaped pairs -/
theorem normalized_determines_sorted (ps qs : List (Bytes × Bytes))
    (h : normalizeParameters ps = normalizeParameters qs) : sortedEscaped ps = sortedEscaped qs := by
  unfold normalizeParameters at h
  -- every piece is `escape k ++ '=' :: escape v`: no '&', and split on the first '=' recovers the pair
  have pieces : ∀ rs : List (Bytes × Bytes), ∀ x ∈ sortedEscaped rs, ∃ k v, x = (escape k, escape v) := by
    intro rs x hx
    have := (List.mergeSort_perm (rs.map fun (k, v) => (escape k, escape v)) lePair).mem_iff.mp hx
    simp only [List.mem_map] at this
    obtain ⟨⟨k, v⟩, _, rfl⟩ := this
    exact ⟨k, v, rfl⟩
  have noamp : ∀ rs : List (Bytes × Bytes), ∀ y ∈ (sortedEscaped rs).map (fun (k, v) => k ++ 61 :: v), (38 : UInt8) ∉ y := by
    intro rs y hy
    simp only [List.mem_map] at hy
    obtain ⟨x, hx, rfl⟩ := hy
    obtain ⟨k, v, rfl⟩ := pieces rs x hx
    simp only [List.mem_append, List.mem_cons, not_or]
    exact ⟨amp_not_in_escape k, by decide, amp_not_in_escape v⟩
  have recover : ∀ rs : List (Bytes × Bytes),
      ((sortedEscaped rs).map (fun (k, v) => k ++ 61 :: v)).map (fun y => ((split1 61 y).1, ((split1 61 y).2).getD [])) =
        sortedEscaped rs := by
    intro rs
    rw [List.map_map]
    conv => rhs; rw [← List.map_id (sortedEscaped rs)]
    apply List.map_congr_left
    intro x hx
    obtain ⟨k, v, rfl⟩ := pieces rs x hx
    simp only [Function.comp, id]
    rw [split1_append 61 _ _ (eq_not_in_escape k)]
    rfl
  by_cases hp : sortedEscaped ps = []
  · by_cases hq : sortedEscaped qs = []
    · rw [hp, hq]
    · exfalso
      rw [hp] at h
      simp only [List.map_nil, join] at h
      -- right side is non-empty because its first piece contains '='
      cases hqs : sortedEscaped qs with
      | nil => exact hq hqs
      | cons x xs =>
        obtain ⟨k, v⟩ := x
        rw [hqs] at h
        cases xs with
        | nil => simp [join] at h
        | cons y ys => simp [join] at h
  · by_cases hq : sortedEscaped qs = []
    · exfalso
      rw [hq] at h
      simp only [List.map_nil, join] at h
      cases hps : sortedEscaped ps with
      | nil => exact hp hps
      | cons x xs =>
        obtain ⟨k, v⟩ := x
        rw [hps] at h
        cases xs with
        | nil => simp [join] at h
        | cons y ys => simp [join] at h
    · have s1 := splitOn_join 38 _ (by simpa using hp) (noamp ps)
      have s2 := splitOn_join 38 _ (by simpa using hq) (noamp qs)
      rw [h] at s1
      rw [s1] at s2
      rw [← recover ps, ← recover qs, s2]

/-- …hence the two parameter collections are the same multiset (after escaping) -/
theorem normalized_determines_multiset (ps qs : List (Bytes × Bytes))
    (h : normalizeParameters ps = normalizeParameters qs) :
    (ps.map fun (k, v) => (escape k, escape v)).Perm (qs.map fun (k, v) => (escape k, escape v)) := by
  have := normalized_determines_sorted ps qs h
  unfold sortedEscaped at this
  exact ((List.mergeSort_perm _ lePair).symm.trans (this ▸ List.Perm.refl _)).trans (List.mergeSort_perm _ lePair)

/-! ### secrets and tamper detection -/

/-- changing either shared secret changes the signing key -/
theorem secret_change_changes_key (cs ts cs' ts' : Bytes) (h : sigKey cs ts = sigKey cs' ts') :
    cs = cs' ∧ ts = ts' := by
  unfold sigKey at h
  have h1 := split1_append 38 (escape cs) (escape ts) (amp_not_in_escape cs)
  have h2 := split1_append 38 (escape cs') (escape ts') (amp_not_in_escape cs')
  rw [h] at h1
  rw [h1] at h2
  simp only [Prod.mk.injEq, Option.some.injEq] at h2
  exact ⟨escape_injective h2.1, escape_injective h2.2⟩

theorem stdEncode_injective {a b : Bytes} (h : Base64.stdEncode a = Base64.stdEncode b) : a = b := by
  -- strip the padding: encode output has no '=' and stdDecode-free argument via lengths
  have key : ∀ x : Bytes, Base64.a2b false (Base64.stdEncode x) 0 0 0 = some x := by
    intro x
    have := Base64.a2b_stdEncode x
    exact this
  have ha := key a
  rw [h, key b] at ha
  exact (Option.some.inj ha).symm

/-- **Tamper detection, as a reduction.** If a signature made for base string `bs` under secrets
    `(cs, ts)` is accepted for a *different* base string `bs'` under the same secrets, then `bs`, `bs'`
    is an explicit collision of the MAC `H` under that key. (HMAC-SHA1 is the instance used.) -/
theorem hmac_tamper_reduces_to_collision (H : Bytes → Bytes → Bytes) (bs bs' cs ts : Bytes)
    (hacc : verifyHmac H bs' cs ts (hmacSignature H bs cs ts) = true) :
    H (sigKey cs ts) bs' = H (sigKey cs ts) bs := by
  unfold verifyHmac hmacSignature at hacc
  exact stdEncode_injective (by simpa using hacc)

/-- …and with the base-string injectivity: an accepted request that differs in method (up to case),
    normalised URI or normalised parameters from the signed one yields a collision on two
    *different* MAC inputs. -/
theorem tampered_request_is_collision (H : Bytes → Bytes → Bytes) (m u p m' u' p' cs ts : Bytes)
    (hdiff : m.map upperB ≠ m'.map upperB ∨ u ≠ u' ∨ p ≠ p')
    (hacc : verifyHmac H (baseStringOf m' u' p') cs ts (hmacSignature H (baseStringOf m u p) cs ts) = true) :
    baseStringOf m u p ≠ baseStringOf m' u' p' ∧
    H (sigKey cs ts) (baseStringOf m' u' p') = H (sigKey cs ts) (baseStringOf m u p) := by
  refine ⟨?_, hmac_tamper_reduces_to_collision H _ _ cs ts hacc⟩
  intro e
  obtain ⟨a, b, c⟩ := base_string_injective m m' u u' p p' e
  rcases hdiff with h | h | h
  · exact h a
  · exact h b
  · exact h c

/-! ### RFC 5849 §3.4.1.3 parameter collection: spec, agreement under guards, negation witnesses -/

/-- RFC 5849 §3.4.1.3.1: query and body parameters are all included; from the Authorization header
    everything except `realm`; `oauth_signature` excluded everywhere; values are used as decoded. -/
def specCollect (queryBody header : List (Bytes × Bytes)) : List (Bytes × Bytes) :=
  (queryBody.filter fun p => p.1 != kSignature) ++
  (header.filter fun p => p.1 != kSignature && p.1 != kRealm)

/-- guard 1: no query/body parameter is called `realm` -/
def NoNonHeaderRealm (queryBody : List (Bytes × Bytes)) : Prop := ∀ p ∈ queryBody, p.1 ≠ kRealm
/-- guard 2: no `oauth_*` value contains `%` (so the extra `unescape` is the identity) -/
def NoPercentInOauthValues (ps : List (Bytes × Bytes)) : Prop :=
  ∀ p ∈ ps, startsWith oauthPrefix p.1 = true → (37 : UInt8) ∉ p.2

theorem unquote_no_pct : ∀ b : Bytes, (37 : UInt8) ∉ b → unquote b = b
  | [], _ => by simp [unquote]
  | [a], _ => by simp [unquote]
  | [a, b], _ => by simp [unquote]
  | c :: h :: l :: rest, hn => by
    simp only [List.mem_cons, not_or] at hn
    have ih := unquote_no_pct (h :: l :: rest) (by simp only [List.mem_cons, not_or]; exact ⟨hn.2.1, hn.2.2.1, hn.2.2.2⟩)
    have : c ≠ 37 := fun e => hn.1 e.symm
    simp [unquote, this, ih]

theorem filterMap_eq_filter_of {α} (f : α → Option α) (q : α → Bool) :
    ∀ l : List α, (∀ a ∈ l, f a = if q a then some a else none) → l.filterMap f = l.filter q
  | [], _ => rfl
  | a :: l, h => by
    have ih := filterMap_eq_filter_of f q l (fun b hb => h b (by simp [hb]))
    have ha := h a (by simp)
    by_cases hq : q a = true
    · simp [List.filterMap_cons, List.filter_cons, ha, hq, ih]
    · have hq' : q a = false := by simpa using hq
      simp [List.filterMap_cons, List.filter_cons, ha, hq', ih]

theorem base_string_eq_rfc_partial (queryBody header : List (Bytes × Bytes))
    (h1 : NoNonHeaderRealm queryBody) (h2 : NoPercentInOauthValues (queryBody ++ header)) :
    collect (queryBody ++ header) = specCollect queryBody header := by
  unfold collect specCollect
  rw [List.filterMap_append]
  have hv : ∀ p ∈ queryBody ++ header,
      (if startsWith oauthPrefix p.1 then unescape p.2 else p.2) = p.2 := by
    intro p hp
    split
    · rename_i hs
      exact unquote_no_pct p.2 (h2 p hp hs)
    · rfl
  congr 1
  · apply filterMap_eq_filter_of
    intro p hp
    have hr : (p.1 == kRealm) = false := by simpa using h1 p hp
    rw [hv p (by simp [hp])]
    by_cases hk : p.1 = kSignature
    · simp [hk]
    · have : (p.1 == kSignature) = false := by simpa using hk
      simp [this, hr, hk]
  · apply filterMap_eq_filter_of
    intro p hp
    rw [hv p (by simp [hp])]
    by_cases hk : p.1 = kSignature
    · simp [hk]
    · have hk' : (p.1 == kSignature) = false := by simpa using hk
      by_cases hr : p.1 = kRealm
      · simp [hr]
      · have hr' : (p.1 == kRealm) = false := by simpa using hr
        simp [hk', hr', hk, hr]

/-- **Negation 1** (known finding): a *query* parameter named `realm` is dropped from the base
    string, so its value can be changed without invalidating the signature. -/
theorem base_string_eq_rfc_false_realm :
    collect [(kRealm, [102, 111, 111])] = collect [(kRealm, [98, 97, 114])] ∧
    specCollect [(kRealm, [102, 111, 111])] [] ≠ specCollect [(kRealm, [98, 97, 114])] [] := by
  decide +kernel

/-- **Negation 2** (known finding): an `oauth_*` value is percent-decoded a second time, so
    `oauth_callback = "a%20b"` and `"a b"` give the same base string, unlike RFC 5849. -/
theorem base_string_eq_rfc_false_double_unescape :
    let k := oauthPrefix ++ [99, 97, 108, 108, 98, 97, 99, 107]
    collect [(k, [97, 37, 50, 48, 98])] = collect [(k, [97, 32, 98])] ∧
    specCollect [(k, [97, 37, 50, 48, 98])] [] ≠ specCollect [(k, [97, 32, 98])] [] := by
  decide +kernel

end Props.C11
