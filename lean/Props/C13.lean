import Model.IdToken
/-
  C13 — ID Token validation by the relying party: every mismatch is rejected (unconditionally, or
  as a reduction to a half-hash collision), the half hash is the RFC's left half of the matched
  SHA-2, and a provider-shaped token is accepted (non-vacuity example; the general acceptance is
  covered by the correspondence).
-/
namespace Props.C13
open Model Model.IdToken
open Model.Claims hiding validate

theorem orElse_none {a : Option Err} {b : Unit → Option Err} :
    orElse' a b = none ↔ a = none ∧ b () = none := by
  cases a <;> simp [orElse']

theorem firstMissing_none (c : Claims) : ∀ ks : List String, firstMissing c ks = none →
    ∀ k ∈ ks, (c.lookup k).isSome = true
  | [], _ => by simp
  | k0 :: ks, h => by
    intro k hk
    simp only [firstMissing] at h
    split at h
    · rename_i h0
      rcases List.mem_cons.mp hk with rfl | hk
      · exact h0
      · exact firstMissing_none c ks h k hk
    · cases h

/-- validation succeeding means every single check succeeded -/
theorem validate_none_components (hh : String → Bytes → Option Bytes) (cls : Cls) (c : Claims) (o : Options)
    (p : Params) (alg : String) (now lw : Int) (h : validate hh cls c o p alg now lw = none) :
    firstMissing c (essentialClaims cls) = none ∧ claimValue c o "iss" = none ∧ checkExp c now lw = none ∧
    checkIat c now lw = none ∧ checkNonce c p = none ∧ checkAzp c p = none ∧
    checkAtHash hh cls c p alg = none ∧ (cls = .hybrid → checkCHash hh c p alg = none) := by
  unfold validate at h
  obtain ⟨h1, h⟩ := orElse_none.mp h
  obtain ⟨_, h⟩ := orElse_none.mp h
  obtain ⟨h3, h⟩ := orElse_none.mp h
  obtain ⟨_, h⟩ := orElse_none.mp h
  obtain ⟨_, h⟩ := orElse_none.mp h
  obtain ⟨h6, h⟩ := orElse_none.mp h
  obtain ⟨_, h⟩ := orElse_none.mp h
  obtain ⟨h8, h⟩ := orElse_none.mp h
  obtain ⟨_, h⟩ := orElse_none.mp h
  obtain ⟨h10, h⟩ := orElse_none.mp h
  obtain ⟨_, h⟩ := orElse_none.mp h
  obtain ⟨_, h⟩ := orElse_none.mp h
  obtain ⟨h13, h⟩ := orElse_none.mp h
  obtain ⟨h14, h⟩ := orElse_none.mp h
  refine ⟨h1, h3, h6, h8, h10, h13, h14, ?_⟩
  intro hc; subst hc; simpa using h

/-- a nonce different from the one the relying party sent is rejected -/
theorem nonce_mismatch_rejected (hh) (cls : Cls) (c : Claims) (o : Options) (p : Params) (alg : String)
    (now lw : Int) (n : String) (v : Val) (hn : p.nonce = some n) (hne : n ≠ "")
    (hc : c.lookup "nonce" = some v) (hdiff : (Val.atom (.str n)).pyEq v = false) :
    validate hh cls c o p alg now lw ≠ none := by
  intro h
  have := (validate_none_components hh cls c o p alg now lw h).2.2.2.2.1
  have hE : n.isEmpty = false := by
    cases hx : n.isEmpty
    · rfl
    · exact absurd (String.isEmpty_iff.mp hx) hne
  simp [checkNonce, truthyStr, hn, hE, hc, hdiff] at this

/-- a token without nonce is rejected when the relying party sent one (and always for the
    implicit / hybrid classes, where `nonce` is essential) -/
theorem nonce_missing_rejected (hh) (cls : Cls) (c : Claims) (o : Options) (p : Params) (alg : String)
    (now lw : Int) (hc : c.lookup "nonce" = none)
    (hreq : cls ≠ .code ∨ ∃ n, p.nonce = some n ∧ n ≠ "") :
    validate hh cls c o p alg now lw ≠ none := by
  intro h
  have hcomp := validate_none_components hh cls c o p alg now lw h
  rcases hreq with hcls | ⟨n, hn, hne⟩
  · have := hcomp.1
    have hm : "nonce" ∈ essentialClaims cls := by
      cases cls with
      | code => exact absurd rfl hcls
      | implicit => simp [essentialClaims]
      | hybrid => simp [essentialClaims]
    have := firstMissing_none c _ this "nonce" hm
    rw [hc] at this; cases this
  · have := hcomp.2.2.2.2.1
    have hE : n.isEmpty = false := by
      cases hx : n.isEmpty
      · rfl
      · exact absurd (String.isEmpty_iff.mp hx) hne
    simp [checkNonce, truthyStr, hn, hE, hc] at this

/-- a token issued to another client (single audience ≠ this client, no `azp`) is rejected -/
theorem client_mismatch_rejected (hh) (cls : Cls) (c : Claims) (o : Options) (p : Params) (alg : String)
    (now lw : Int) (cid a : String) (hcid : p.clientId = some cid) (hne : cid ≠ "") (ha : a ≠ "")
    (haud : c.lookup "aud" = some (.list [.str a])) (hdiff : a ≠ cid) (hazp : c.lookup "azp" = none) :
    validate hh cls c o p alg now lw ≠ none := by
  intro h
  have := (validate_none_components hh cls c o p alg now lw h).2.2.2.2.2.1
  have hE : cid.isEmpty = false := by
    cases hx : cid.isEmpty
    · rfl
    · exact absurd (String.isEmpty_iff.mp hx) hne
  have hpe : Atom.pyEq (.str a) (.str cid) = false := by
    simp [Atom.pyEq, Atom.num, hdiff]
  simp [checkAzp, truthyStr, hcid, hE, getD, haud, hazp, Val.truthy, Val.pyEq, hpe] at this

/-- a token from another issuer is rejected (the relying party pins `iss` through `values`) -/
theorem issuer_mismatch_rejected (hh) (cls : Cls) (c : Claims) (p : Params) (alg : String) (now lw : Int)
    (iss got : String) (hiss : c.lookup "iss" = some (.atom (.str got))) (hdiff : got ≠ iss) :
    validate hh cls c [("iss", { values := some [.atom (.str iss)] })] p alg now lw ≠ none := by
  intro h
  have := (validate_none_components hh cls c _ p alg now lw h).2.1
  have hpe : Atom.pyEq (.str got) (.str iss) = false := by
    simp [Atom.pyEq, Atom.num, hdiff]
  simp [claimValue, List.lookup, getD, hiss, optTruthy, optListTruthy, orElse', pyIn, Val.pyEq, hpe] at this

/-- once `exp` is more than `leeway` in the past the token is rejected -/
theorem expired_rejected (hh) (cls : Cls) (c : Claims) (o : Options) (p : Params) (alg : String)
    (now lw e : Int) (hexp : c.lookup "exp" = some (.atom (.int e))) (hlt : 4 * e < now - lw) :
    validate hh cls c o p alg now lw ≠ none := by
  intro h
  have := (validate_none_components hh cls c o p alg now lw h).2.2.1
  simp [checkExp, hexp, Val.numericDate, hlt] at this

/-- **Access-token binding as a reduction.** If validation passes with access token `t'` while
    `at_hash` is the half hash of `t`, then `t'` and `t` collide under the half hash. -/
theorem at_hash_mismatch_is_collision (hh : String → Bytes → Option Bytes) (cls : Cls) (c : Claims) (o : Options)
    (p : Params) (alg : String) (now lw : Int) (t' : String) (claim : String) (h0 : Bytes)
    (hp : p.accessToken = some t') (hne : t' ≠ "") (hc : c.lookup "at_hash" = some (.atom (.str claim)))
    (hcl : claim ≠ "") (hh' : hh alg (strBytes t') = some h0)
    (h : validate hh cls c o p alg now lw = none) : h0 = strBytes claim := by
  have := (validate_none_components hh cls c o p alg now lw h).2.2.2.2.2.2.1
  have hE : t'.isEmpty = false := by
    cases hx : t'.isEmpty
    · rfl
    · exact absurd (String.isEmpty_iff.mp hx) hne
  have hcE : (claim != "") = true := by simpa using hcl
  simp only [checkAtHash, truthyStr, hp, hE, hc, getD] at this
  simp only [Bool.false_eq_true, if_false, Option.isSome_some, Option.isNone_some, Bool.and_false,
    Option.getD_some, Val.truthy, hcE, if_true, strOf, verifyHash, hh'] at this
  split at this
  · rename_i heq; simpa using heq
  · cases this

/-- **Code binding as a reduction** (hybrid flows) -/
theorem c_hash_mismatch_is_collision (hh : String → Bytes → Option Bytes) (c : Claims) (o : Options)
    (p : Params) (alg : String) (now lw : Int) (code' : String) (claim : String) (h0 : Bytes)
    (hp : p.code = some code') (hne : code' ≠ "") (hc : c.lookup "c_hash" = some (.atom (.str claim)))
    (hh' : hh alg (strBytes code') = some h0)
    (h : validate hh .hybrid c o p alg now lw = none) : h0 = strBytes claim := by
  have := (validate_none_components hh .hybrid c o p alg now lw h).2.2.2.2.2.2.2 rfl
  have hE : code'.isEmpty = false := by
    cases hx : code'.isEmpty
    · rfl
    · exact absurd (String.isEmpty_iff.mp hx) hne
  simp only [checkCHash, truthyStr, hp, hE, hc, getD] at this
  simp only [Bool.false_eq_true, if_false, Option.getD_some, strOf, verifyHash, hh'] at this
  split at this
  · cases this
  · split at this
    · rename_i heq; simpa using heq
    · cases this

/-- hybrid flows: a token without `c_hash` is rejected when the relying party holds a code -/
theorem c_hash_missing_rejected (hh) (c : Claims) (o : Options) (p : Params) (alg : String) (now lw : Int)
    (code' : String) (hp : p.code = some code') (hne : code' ≠ "") (hc : c.lookup "c_hash" = none) :
    validate hh .hybrid c o p alg now lw ≠ none := by
  intro h
  have := (validate_none_components hh .hybrid c o p alg now lw h).2.2.2.2.2.2.2 rfl
  have hE : code'.isEmpty = false := by
    cases hx : code'.isEmpty
    · rfl
    · exact absurd (String.isEmpty_iff.mp hx) hne
  simp [checkCHash, truthyStr, hp, hE, hc, getD, Val.truthy] at this

/-- **at_hash / c_hash are the base64url left half of the SHA-2 matched to the algorithm** for the
    twelve RFC 7518 algorithms in the property's quantifier -/
theorem half_hash_eq_spec (s : Bytes) :
    (∀ a ∈ ["HS256", "RS256", "PS256", "ES256"], createHalfHash a s =
        some (Base64.urlEncode ((Sha.sha256 s).take ((Sha.sha256 s).length / 2)))) ∧
    (∀ a ∈ ["HS384", "RS384", "PS384", "ES384"], createHalfHash a s =
        some (Base64.urlEncode ((Sha.sha384 s).take ((Sha.sha384 s).length / 2)))) ∧
    (∀ a ∈ ["HS512", "RS512", "PS512", "ES512"], createHalfHash a s =
        some (Base64.urlEncode ((Sha.sha512 s).take ((Sha.sha512 s).length / 2)))) := by
  refine ⟨?_, ?_, ?_⟩ <;> intro a ha <;> simp only [List.mem_cons, List.mem_nil_iff, or_false] at ha <;>
    rcases ha with rfl | rfl | rfl | rfl <;> rfl

/-- non-vacuity: a provider-shaped hybrid token (nonce, code, access token) is accepted by the
    relying party with the same parameters — here with an abstract, injective "hash" -/
example :
    let hh : String → Bytes → Option Bytes := fun _ s => some (s ++ [65])
    validate hh .hybrid
      (generate hh "RS256" "https://op" "client" "u1" 100 3600 (some "n-0S6") (some "c0de") (some "t0k"))
      [("iss", { values := some [.atom (.str "https://op")] })]
      { nonce := some "n-0S6", clientId := some "client", accessToken := some "t0k", code := some "c0de" }
      "RS256" 440 0 = none := by decide +kernel

end Props.C13
