import Model.Fault
import Generated.Flows
import Props.C09
import Props.C12
/-
  C19 — a storage fault in the middle of a request.

  1. Script discipline (`orderOk`) implies, for EVERY fault position k, that the exchanged credential
     is consumed only after the replacement was stored, and that nothing is written once the response
     has been built (so no response carries an unpersisted credential).
  2. The scripts traced from the current code (Generated/Flows.lean) satisfy the discipline and use
     only callbacks the model classifies.
  3. The store after a faulted request (`stepFault`, the state machines of C06/C09/C12 masked by the
     completed events): nothing completed ⇒ the store is unchanged; not stored ⇒ no new credential;
     not consumed ⇒ every earlier credential still there; everything completed ⇒ exactly `step`.
  The real provider is compared with `stepFault` at every fault position and through the retries by
  the correspondence check.
-/
namespace Props.C19
open Model Model.Fault

/-! ### 1. scripts -/

def progressFrom (p : Progress) (ks : List Kind) : Progress := ks.foldl Progress.add p

theorem progressK_eq (ks : List Kind) : progressK ks = progressFrom {} ks := rfl

/-- the invariant carried along a disciplined script -/
theorem orderOkFrom_prefix (ks : List Kind) : ∀ (p : Progress) (k : Nat),
    orderOkFrom p.stored p.responded ks = true → (p.consumed = true → p.stored = true) →
    ((progressFrom p (ks.take k)).consumed = true → (progressFrom p (ks.take k)).stored = true) := by
  induction ks with
  | nil => intro p k _ hp; simpa [progressFrom] using hp
  | cons a r ih =>
    intro p k h hp
    cases k with
    | zero => simpa [progressFrom] using hp
    | succ k =>
      simp only [List.take_succ_cons, progressFrom, List.foldl_cons]
      cases a <;> simp only [orderOkFrom, Bool.and_eq_true, Bool.not_eq_true'] at h
      · exact ih (p.add .lookup) k (by simpa [Progress.add] using h) (by simpa [Progress.add] using hp)
      · exact ih (p.add .gen) k (by simpa [Progress.add] using h.2) (by simpa [Progress.add] using hp)
      · exact ih (p.add .storeNew) k (by simpa [Progress.add] using h.2) (by simp [Progress.add])
      · exact ih (p.add .consumeOld) k (by simpa [Progress.add] using h.2) (by simp [Progress.add, h.1.1])
      · exact ih (p.add .destroy) k (by simpa [Progress.add] using h.2) (by simpa [Progress.add] using hp)
      · exact ih (p.add .touch) k (by simpa [Progress.add] using h.2) (by simpa [Progress.add] using hp)
      · exact ih (p.add .respond) k (by simpa [Progress.add] using h) (by simpa [Progress.add] using hp)
      · cases h

/-- **for every fault position**: in a disciplined script the old credential is consumed only after
    the replacement is stored -/
theorem orderOk_consume_only_after_store (ks : List Kind) (h : orderOk ks = true) (k : Nat) :
    (progressK (ks.take k)).consumed = true → (progressK (ks.take k)).stored = true :=
  orderOkFrom_prefix ks {} k h (by simp)

/-- writes a progress summary records, apart from the response flag -/
def writes (p : Progress) : Nat × Bool × Bool × Bool × Bool := (p.gens, p.stored, p.consumed, p.destroyed, p.touched)
def sameWrites (p q : Progress) : Prop := writes p = writes q

theorem orderOkFrom_no_write_after_respond (ks : List Kind) : ∀ (p : Progress),
    p.responded = true → orderOkFrom p.stored true ks = true → sameWrites (progressFrom p ks) p := by
  induction ks with
  | nil => intro p _ _; simp [progressFrom, sameWrites]
  | cons a r ih =>
    intro p hr h
    simp only [progressFrom, List.foldl_cons]
    cases a <;> simp [orderOkFrom] at h
    · have := ih (p.add .lookup) (by simpa [Progress.add] using hr) (by simpa [Progress.add] using h)
      simpa [Progress.add, progressFrom, sameWrites, writes] using this
    · have := ih (p.add .respond) (by simp [Progress.add]) (by simpa [Progress.add] using h)
      simpa [Progress.add, progressFrom, sameWrites, writes] using this

/-- once the response has been built, nothing is written any more: whatever the response hands out
    was persisted before (for every prefix that contains the `respond` event) -/
theorem orderOkFrom_respond_last (ks : List Kind) : ∀ (p : Progress) (k : Nat),
    orderOkFrom p.stored p.responded ks = true → p.responded = false →
    (progressFrom p (ks.take k)).responded = true →
    sameWrites (progressFrom p ks) (progressFrom p (ks.take k)) := by
  induction ks with
  | nil => intro p k _ _ _; simp [progressFrom, sameWrites]
  | cons a r ih =>
    intro p k h hr hk
    cases k with
    | zero => simp [progressFrom, hr] at hk
    | succ k =>
      simp only [List.take_succ_cons, progressFrom, List.foldl_cons] at hk ⊢
      cases a <;> simp only [orderOkFrom, Bool.and_eq_true, Bool.not_eq_true'] at h
      · exact ih (p.add .lookup) k (by simpa [Progress.add] using h) (by simpa [Progress.add] using hr) hk
      · exact ih (p.add .gen) k (by simpa [Progress.add] using h.2) (by simpa [Progress.add] using hr) hk
      · exact ih (p.add .storeNew) k (by simpa [Progress.add] using h.2) (by simpa [Progress.add] using hr) hk
      · exact ih (p.add .consumeOld) k (by simpa [Progress.add] using h.2) (by simpa [Progress.add] using hr) hk
      · exact ih (p.add .destroy) k (by simpa [Progress.add] using h.2) (by simpa [Progress.add] using hr) hk
      · exact ih (p.add .touch) k (by simpa [Progress.add] using h.2) (by simpa [Progress.add] using hr) hk
      · -- the response event itself: everything after it writes nothing
        have hw := orderOkFrom_no_write_after_respond r (p.add .respond) (by simp [Progress.add]) (by simpa [Progress.add] using h)
        have hw' := orderOkFrom_no_write_after_respond (r.take k) (p.add .respond) (by simp [Progress.add])
          (by
            have : ∀ (l : List Kind) (st : Bool) (n : Nat), orderOkFrom st true l = true → orderOkFrom st true (l.take n) = true := by
              intro l
              induction l with
              | nil => intro st n h; simpa using h
              | cons b l ihl =>
                intro st n h
                cases n with
                | zero => simp [orderOkFrom]
                | succ n =>
                  cases b <;> simp [orderOkFrom] at h ⊢
                  · exact ihl _ _ h
                  · exact ihl _ _ h
            exact this r _ k (by simpa [Progress.add] using h))
        exact hw.trans hw'.symm
      · cases h

/-- nothing is written after the response was built (script level, every prefix) -/
theorem orderOk_respond_last (ks : List Kind) (h : orderOk ks = true) (k : Nat)
    (hk : (progressK (ks.take k)).responded = true) : sameWrites (progressK ks) (progressK (ks.take k)) :=
  orderOkFrom_respond_last ks {} k h rfl hk

/-! ### 2. the scripts of the current code -/

/-- every traced flow uses only classified callbacks and obeys the order discipline -/
theorem generated_flows_ordered :
    ∀ f ∈ Generated.Flows.flows, orderOk (f.2.map kindOf) = true := by decide +kernel

/-- **For every flow of the current code and every fault position k**: if the fault left the exchanged
    credential (authorization code, refresh token, temporary credential) consumed, the replacement had
    been stored. -/
theorem generated_flow_consume_only_after_store (f : String × List String) (hf : f ∈ Generated.Flows.flows) (k : Nat) :
    (progress (f.2.take k)).consumed = true → (progress (f.2.take k)).stored = true := by
  have h := orderOk_consume_only_after_store (f.2.map kindOf) (generated_flows_ordered f hf) k
  simpa [progress, List.map_take] using h

/-- **… and the response is the last thing built**: once `respond` happened, every write of the flow
    has happened — a response never refers to a credential whose persistence is still to come. -/
theorem generated_flow_respond_last (f : String × List String) (hf : f ∈ Generated.Flows.flows) (k : Nat)
    (hk : (progress (f.2.take k)).responded = true) : sameWrites (progress f.2) (progress (f.2.take k)) := by
  have h := orderOk_respond_last (f.2.map kindOf) (generated_flows_ordered f hf) k (by simpa [progress, List.map_take] using hk)
  simpa [progress, List.map_take] using h

/-- the flows the statement names are all present in the traced table -/
theorem generated_flows_cover :
    ["authorize_code", "redeem_code", "implicit", "password", "client_credentials", "refresh", "device_authorize",
     "device_poll_token", "revoke", "oauth1_initiate", "oauth1_authorize", "oauth1_exchange", "oauth1_resource"].all
      (fun n => Generated.Flows.flows.any (fun f => f.1 == n)) = true := by decide +kernel

/-- the exchanging flows really contain a consume step (the theorem above is not vacuous for them) -/
theorem generated_exchanges_consume :
    ["redeem_code", "refresh", "oauth1_exchange"].all
      (fun n => Generated.Flows.flows.any (fun f => f.1 == n && (progress f.2).consumed && (progress f.2).stored)) = true := by
  decide +kernel

/-! ### 3. the store after a faulted request -/

section provider
open Model.Provider

theorem tokens_grow (s : Store) (op : Op) : s.tokens.length ≤ (step s op).1.tokens.length := by
  cases op <;> simp only [step]
  all_goals (repeat' split)
  all_goals first
    | exact Nat.le_refl _
    | simp [revokeTok]

/-- nothing completed ⇒ the store is exactly what it was -/
theorem provider_fault_before_any_write (s : Store) (op : Op) (hop : ∀ a b c, op ≠ .userDecide a b c) (hop' : ∀ d, op ≠ .advance d) :
    stepFault s op {} = s := by
  cases op
  case userDecide a b c => exact absurd rfl (hop a b c)
  case advance d => exact absurd rfl (hop' d)
  all_goals (simp only [stepFault, step])
  all_goals (repeat' split)
  all_goals first | contradiction | simp

/-- replacement not stored ⇒ no new token, code or device credential exists -/
theorem provider_fault_unstored_nothing_new (s : Store) (op : Op) (p : Progress) (hp : p.stored = false) :
    (stepFault s op p).tokens.length = s.tokens.length ∧ (stepFault s op p).devices = s.devices ∧
    (stepFault s op p).codes.length ≤ s.codes.length := by
  have hg := tokens_grow s op
  refine ⟨?_, by simp [stepFault, hp], ?_⟩
  · simp only [stepFault, hp, Bool.false_eq_true, if_false, List.append_nil]
    split
    · simp [List.length_take]; omega
    · rfl
  · cases op <;> simp only [stepFault, hp, Bool.false_eq_true, if_false, step]
    all_goals (repeat' split)
    all_goals first
      | exact Nat.le_refl _
      | exact List.length_filter_le _ _

/-- exchanged credential not consumed (and nothing revoked) ⇒ every token and code that was in the
    store is still there, unchanged -/
theorem provider_fault_unconsumed_kept (s : Store) (op : Op) (p : Progress) (hc : p.consumed = false) (hd : p.destroyed = false) :
    (∀ t ∈ s.tokens, t ∈ (stepFault s op p).tokens) ∧ (∀ c ∈ s.codes, c ∈ (stepFault s op p).codes) := by
  constructor
  · intro t ht
    simp only [stepFault, hc, hd, Bool.or_self, Bool.false_eq_true, if_false]
    exact List.mem_append_left _ ht
  · intro c hcm
    cases op <;> simp only [stepFault, hc, Bool.false_eq_true, if_false, step]
    case authorize =>
      repeat' split
      all_goals first
        | exact hcm
        | exact List.mem_append_left _ hcm
    all_goals exact hcm

/-- everything completed ⇒ the faulted-step model is the step itself -/
theorem provider_fault_after_everything (s : Store) (op : Op) :
    stepFault s op { gens := (step s op).1.fresh - s.fresh, stored := true, consumed := true, destroyed := true, touched := true }
      = (step s op).1 := by
  have hf := Props.C09.fresh_mono s op
  have hg := tokens_grow s op
  have hfr : s.fresh + ((step s op).1.fresh - s.fresh) = (step s op).1.fresh := by omega
  simp only [stepFault, Bool.or_self, if_true, List.take_append_drop, hfr]
  cases op <;> rfl

end provider

section oauth1
open Model.OAuth1Flow

theorem oauth1_fault_before_any_write (s : Store) (op : Op) (hop : ∀ d, op ≠ .advance d) :
    Model.OAuth1Flow.stepFault s op {} = s := by
  cases op
  case advance d => exact absurd rfl (hop d)
  all_goals (simp only [Model.OAuth1Flow.stepFault, step])
  all_goals (repeat' split)
  all_goals first | contradiction | simp

theorem oauth1_fault_unstored_nothing_new (s : Store) (op : Op) (p : Progress) (hp : p.stored = false) :
    (Model.OAuth1Flow.stepFault s op p).creds = s.creds := by
  simp [Model.OAuth1Flow.stepFault, hp]

theorem oauth1_fault_unconsumed_kept (s : Store) (client : Option String) (token verifier : Option Ref) (sg : Sig) (p : Progress)
    (hc : p.consumed = false) :
    (Model.OAuth1Flow.stepFault s (.exchange client token verifier sg) p).temps = s.temps := by
  simp [Model.OAuth1Flow.stepFault, hc]

end oauth1

end Props.C19
