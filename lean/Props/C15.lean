import Model.ClientEmit
import Lemmas.Percent
import Lemmas.Base64
/-
  C15 — what the client half emits, the server half reads back unchanged.
  Everything is a corollary of `parse_qsl ∘ urlencode = id` (Lemmas/Percent) and of the Base64
  round trip (Lemmas/Base64), for EVERY octet string in every position.
-/
namespace Props.C15
open Model Model.Percent Model.ClientEmit

/-- Adding protocol parameters to a query / fragment / form body never drops, reorders or alters
    the parameters already there: the decoded sequence is `old ++ new`. -/
theorem add_params_preserves_existing (existing : Bytes) (params : Params) :
    parseQsl (addParamsToQs existing params) = parseQsl existing ++ params :=
  parseQsl_addParamsToQs existing params

/-- token request body: the server's form parser recovers grant_type, redirect_uri and every
    truthy keyword parameter (code, code_verifier, scope, username, …) unchanged and in order. -/
theorem token_body_roundtrip (gt body : Bytes) (redirect : Option Bytes) (kwargs : Params) :
    parseQsl (prepareTokenRequest gt body redirect kwargs) =
      parseQsl body ++ ([(s "grant_type", gt)] ++
        (match redirect with | some r => if r.isEmpty then [] else [(s "redirect_uri", r)] | none => []) ++
        kwargs.filter (fun p => !p.2.isEmpty)) := by
  unfold prepareTokenRequest; exact parseQsl_addParamsToQs _ _

/-- authorization URL: the server's query parser recovers exactly the parameters the client
    added (after whatever the URL already carried) -/
theorem grant_uri_roundtrip (q cid rt : Bytes) (redirect scope state : Option Bytes) (kw : Params) :
    parseQsl (prepareGrantQuery q cid rt redirect scope state kw) =
      parseQsl q ++ grantParams cid rt redirect scope state kw := by
  unfold prepareGrantQuery; exact parseQsl_addParamsToQs _ _

theorem post_roundtrip (body cid secret : Bytes) :
    parseQsl (encodeSecretPost body cid secret) =
      parseQsl body ++ [(s "client_id", cid), (s "client_secret", secret)] := by
  unfold encodeSecretPost; exact parseQsl_addParamsToQs _ _

theorem none_roundtrip (body cid : Bytes) :
    parseQsl (encodeNone body cid) = parseQsl body ++ [(s "client_id", cid)] := by
  unfold encodeNone; exact parseQsl_addParamsToQs _ _

theorem bearer_query_body_roundtrip (existing tok : Bytes) :
    parseQsl (bearerQueryOrBody existing tok) = parseQsl existing ++ [(s "access_token", tok)] := by
  unfold bearerQueryOrBody; exact parseQsl_addParamsToQs _ _

/-! ### HTTP Basic -/

theorem unquote_no_pct : ∀ b : Bytes, (37 : UInt8) ∉ b → unquote b = b
  | [], _ => by simp [unquote]
  | [a], _ => by simp [unquote]
  | [a, b], _ => by simp [unquote]
  | c :: h :: l :: rest, hn => by
    simp only [List.mem_cons, not_or] at hn
    have ih := unquote_no_pct (h :: l :: rest) (by
      simp only [List.mem_cons, not_or]; exact ⟨hn.2.1, hn.2.2.1, hn.2.2.2⟩)
    have : c ≠ 37 := fun e => hn.1 e.symm
    simp [unquote, this, ih]

/-- base64 alphabet characters and `=` are not whitespace -/
theorem ch_not_ws : ∀ n : Fin 64, isWs (Base64.ch false n.val) = false := by decide +kernel

theorem encode_no_ws : ∀ b : Bytes, ∀ c ∈ Base64.encode false b, isWs c = false
  | [], c, h => by simp [Base64.encode] at h
  | [a], c, h => by
    have ha := UInt8.toNat_lt a
    simp only [Base64.encode, List.mem_cons, List.mem_nil_iff, or_false] at h
    rcases h with rfl | rfl
    · exact ch_not_ws ⟨a.toNat / 4, by omega⟩
    · exact ch_not_ws ⟨a.toNat % 4 * 16, by omega⟩
  | [a, b], c, h => by
    have ha := UInt8.toNat_lt a
    have hb := UInt8.toNat_lt b
    simp only [Base64.encode, List.mem_cons, List.mem_nil_iff, or_false] at h
    rcases h with rfl | rfl | rfl
    · exact ch_not_ws ⟨a.toNat / 4, by omega⟩
    · exact ch_not_ws ⟨a.toNat % 4 * 16 + b.toNat / 16, by omega⟩
    · exact ch_not_ws ⟨b.toNat % 16 * 4, by omega⟩
  | a :: b :: d :: rest, c, h => by
    have ha := UInt8.toNat_lt a
    have hb := UInt8.toNat_lt b
    have hd := UInt8.toNat_lt d
    simp only [Base64.encode, List.mem_cons] at h
    rcases h with rfl | rfl | rfl | rfl | h
    · exact ch_not_ws ⟨a.toNat / 4, by omega⟩
    · exact ch_not_ws ⟨a.toNat % 4 * 16 + b.toNat / 16, by omega⟩
    · exact ch_not_ws ⟨b.toNat % 16 * 4 + d.toNat / 64, by omega⟩
    · exact ch_not_ws ⟨d.toNat % 64, by omega⟩
    · exact encode_no_ws rest c h

theorem stdEncode_no_ws (b : Bytes) : ∀ c ∈ Base64.stdEncode b, isWs c = false := by
  intro c h
  unfold Base64.stdEncode at h
  simp only [List.mem_append, List.mem_replicate] at h
  rcases h with h | ⟨_, rfl⟩
  · exact encode_no_ws b c h
  · decide

theorem takeWord_noWs (w : Bytes) (hw : ∀ c ∈ w, isWs c = false) : takeWord w = (w, []) := by
  induction w with
  | nil => rfl
  | cons c w ih =>
    have hc := hw c (by simp)
    simp [takeWord, hc, ih (fun d hd => hw d (by simp [hd]))]

theorem dropWs_noWs (w : Bytes) (c : UInt8) (hc : isWs c = false) : dropWs (c :: w) = c :: w := by
  simp [dropWs, hc]

theorem takeWord_append (w : Bytes) (hw : ∀ c ∈ w, isWs c = false) (c : UInt8) (hc : isWs c = true) (t : Bytes) :
    takeWord (w ++ c :: t) = (w, c :: t) := by
  induction w with
  | nil => simp [takeWord, hc]
  | cons d w ih =>
    have hd := hw d (by simp)
    simp [takeWord, hd, ih (fun e he => hw e (by simp [he]))]

theorem dropWs_head (w : Bytes) (hne : w ≠ []) (hw : ∀ c ∈ w, isWs c = false) (t : Bytes) :
    dropWs (w ++ t) = w ++ t := by
  cases w with
  | nil => exact absurd rfl hne
  | cons d w => simp [dropWs, hw d (by simp)]

theorem splitNone1_word_sp_rest (w rest : Bytes) (hwne : w ≠ []) (hw : ∀ c ∈ w, isWs c = false)
    (hrne : rest ≠ []) (hr : ∀ c ∈ rest, isWs c = false) :
    splitNone1 (w ++ 32 :: rest) = some (w, rest) := by
  unfold splitNone1
  rw [dropWs_head w hwne hw, takeWord_append w hw 32 (by decide)]
  have h1 : dropWs (32 :: rest) = rest := by
    have : dropWs (32 :: rest) = dropWs rest := by simp [dropWs, isWs]
    rw [this]
    have := dropWs_head rest hrne hr []
    simpa using this
  simp only [h1]
  have a : w.isEmpty = false := by simpa using hwne
  have b : rest.isEmpty = false := by simpa using hrne
  simp [a, b]

theorem stdEncode_ne_nil (b : Bytes) (h : b ≠ []) : Base64.stdEncode b ≠ [] := by
  unfold Base64.stdEncode
  match b, h with
  | [a], _ => simp [Base64.encode]
  | [a, c], _ => simp [Base64.encode]
  | a :: c :: d :: r, _ => simp [Base64.encode]

/-- **HTTP Basic round trip** under the property's own side conditions (credentials are ASCII text
    that is valid UTF-8, no `%`, no `:` in the identifier): the server recovers exactly the
    identifier and secret the client encoded. -/
theorem basic_roundtrip (cid secret : Bytes) (hcolon : (58 : UInt8) ∉ cid)
    (hp1 : (37 : UInt8) ∉ cid) (hp2 : (37 : UInt8) ∉ secret)
    (hutf : utf8Valid (cid ++ 58 :: secret) = true) :
    extractBasic (some (encodeSecretBasic cid secret)) = (some cid, some secret) := by
  unfold extractBasic encodeSecretBasic
  have henc_ws := stdEncode_no_ws (cid ++ 58 :: secret)
  have hne : Base64.stdEncode (cid ++ 58 :: secret) ≠ [] := stdEncode_ne_nil _ (by simp)
  have hsplit : splitNone1 (s "Basic " ++ Base64.stdEncode (cid ++ 58 :: secret)) =
      some (s "Basic", Base64.stdEncode (cid ++ 58 :: secret)) := by
    have hs : s "Basic " = s "Basic" ++ [32] := by decide +kernel
    rw [hs, List.append_assoc]
    exact splitNone1_word_sp_rest (s "Basic") _ (by decide +kernel) (by decide +kernel) hne henc_ws
  have hcont : (s "Basic " ++ Base64.stdEncode (cid ++ 58 :: secret)).contains 32 = true := by
    have hs : s "Basic " = [66, 97, 115, 105, 99, 32] := by decide +kernel
    simp [hs]
  have hempty : (s "Basic " ++ Base64.stdEncode (cid ++ 58 :: secret)).isEmpty = false := by
    have hs : s "Basic " = [66, 97, 115, 105, 99, 32] := by decide +kernel
    simp [hs]
  have hlow : (s "Basic").map lowerB = s "basic" := by decide +kernel
  have hdec : Base64.stdDecode (Base64.stdEncode (cid ++ 58 :: secret)) = some (cid ++ 58 :: secret) :=
    Base64.a2b_stdEncode _
  simp only [hcont, hempty, hsplit, hlow, hdec, hutf, Bool.not_true, Bool.or_false,
    bne_self_eq_false, Bool.false_eq_true, if_false]
  rw [split1_append 58 cid secret hcolon]
  simp [unquote_no_pct cid hp1, unquote_no_pct secret hp2]

/-- bearer token in the header: the resource server's `split(None, 1)` recovers the token
    (for tokens that are non-empty and contain no whitespace, i.e. RFC 6750 b64token). -/
theorem bearer_header_roundtrip (tok : Bytes) (hne : tok ≠ []) (hws : ∀ c ∈ tok, isWs c = false) :
    splitNone1 (bearerHeader tok) = some (s "Bearer", tok) := by
  unfold bearerHeader
  have hs : s "Bearer " = s "Bearer" ++ [32] := by decide +kernel
  rw [hs, List.append_assoc]
  exact splitNone1_word_sp_rest (s "Bearer") tok (by decide +kernel) (by decide +kernel) hne hws

/-- the general form: only white space at the FRONT of the token is lost to the header's framing — a token whose first
    character is not white space is recovered unchanged, whatever it contains after it (inner or trailing white space too) -/
theorem splitNone1_word_sp_any (w rest : Bytes) (hwne : w ≠ []) (hw : ∀ c ∈ w, isWs c = false)
    (c0 : UInt8) (hc0 : isWs c0 = false) :
    splitNone1 (w ++ 32 :: c0 :: rest) = some (w, c0 :: rest) := by
  unfold splitNone1
  rw [dropWs_head w hwne hw, takeWord_append w hw 32 (by decide)]
  have h1 : dropWs (32 :: c0 :: rest) = c0 :: rest := by
    have h32 : isWs 32 = true := by decide
    simp only [dropWs, h32, hc0, if_true, Bool.false_eq_true, if_false]
  simp only [h1]
  have a : w.isEmpty = false := by simpa using hwne
  simp [a]

theorem bearer_header_roundtrip_general (c0 : UInt8) (rest : Bytes) (hc0 : isWs c0 = false) :
    splitNone1 (bearerHeader (c0 :: rest)) = some (s "Bearer", c0 :: rest) := by
  unfold bearerHeader
  have hs : s "Bearer " = s "Bearer" ++ [32] := by decide +kernel
  rw [hs, List.append_assoc]
  exact splitNone1_word_sp_any (s "Bearer") rest (by decide +kernel) (by decide +kernel) c0 hc0

/-! ### responses parsed back by the client -/

theorem lookup_reverse_append_single (ps : Params) (k v : Bytes) :
    (ps ++ [(k, v)]).reverse.lookup k = some v := by
  simp [List.reverse_append, List.lookup]

/-- authorization-code response: whatever query the registered redirect URI already had, the
    client reads back the code the server appended (codes are non-empty) and the state -/
theorem code_response_roundtrip (existing code state : Bytes) (hc : code ≠ []) (hs : state ≠ [])
    (hks : s "code" ≠ s "state") :
    parseCodeResponse (addParamsToQs existing [(s "code", code), (s "state", state)]) (some state)
      = .ok (code, some state) := by
  unfold parseCodeResponse dictGet
  rw [parseQsl_addParamsToQs]
  have hcE : code.isEmpty = false := by simpa using hc
  have hsE : state.isEmpty = false := by simpa using hs
  have hne : (s "code" == s "state") = false := by simpa using hks
  have hne' : (s "state" == s "code") = false := by
    simp only [beq_eq_false_iff_ne]; exact fun e => hks e.symm
  simp [List.filter_append, List.filter_cons, hcE, hsE, List.reverse_append, List.lookup, hne, hne']

/-- a differing state is reported as a mismatch -/
theorem state_mismatch_reported (existing code state expected : Bytes) (hc : code ≠ []) (hs : state ≠ [])
    (he : expected ≠ []) (hdiff : state ≠ expected) (hks : s "code" ≠ s "state") :
    parseCodeResponse (addParamsToQs existing [(s "code", code), (s "state", state)]) (some expected)
      = .error .mismatchingState := by
  unfold parseCodeResponse dictGet
  rw [parseQsl_addParamsToQs]
  have hcE : code.isEmpty = false := by simpa using hc
  have hsE : state.isEmpty = false := by simpa using hs
  have heE : expected.isEmpty = false := by simpa using he
  have hne : (s "code" == s "state") = false := by simpa using hks
  have hne' : (s "state" == s "code") = false := by
    simp only [beq_eq_false_iff_ne]; exact fun e => hks e.symm
  simp [List.filter_append, List.filter_cons, hcE, hsE, heE, List.reverse_append, List.lookup, hne, hne', hdiff]

theorem code_ne_state : s "code" ≠ s "state" := by decide +kernel

/-- non-vacuity / sanity -/
example : extractBasic (some (encodeSecretBasic (s "app") (s "p:w d"))) = (some (s "app"), some (s "p:w d")) := by
  decide +kernel

end Props.C15
