import Model.Scope
import Lemmas.Text
/-
  C08 — Issued scope never exceeds what was requested, allowed and originally granted.
-/
namespace Props.C08
open Model.Text Model.Scope

theorem words_clientAllowed (allowed s : Str) :
    scopeToList (clientAllowed allowed s) =
      if s.isEmpty then [] else (scopeToList s).filter (fun w => (splitWs allowed).contains w) := by
  unfold clientAllowed
  split
  · simp [scopeToList, splitWs, splitWsAux]
  · unfold scopeToList listToScope
    apply splitWs_joinSp
    intro w hw
    exact splitWs_isWord s w (List.mem_filter.mp hw).1

theorem words_getAllowed_sub (allowed : Str) (scope : Option Str) :
    ∀ w ∈ words (getAllowedScope allowed scope), w ∈ words scope ∧ w ∈ splitWs allowed := by
  intro w hw
  unfold getAllowedScope at hw
  split at hw
  · cases scope with
    | none => simp [truthy] at *
    | some s =>
      simp only [Option.map, words, words_clientAllowed] at hw
      split at hw
      · simp at hw
      · have := List.mem_filter.mp hw
        exact ⟨this.1, by simpa using this.2⟩
  · rename_i h
    cases scope with
    | none => simp [words] at hw
    | some s =>
      simp [truthy] at h; subst h
      simp [words, scopeToList, splitWs, splitWsAux] at hw

/-- Whatever the generator, both the response scope and the embedded scope consist only of
    words that were passed in AND that the client is allowed. -/
theorem generate_subset (g : Gen) (allowed : Str) (scope : Option Str) :
    (∀ w ∈ words (generate g allowed scope).response, w ∈ words scope ∧ w ∈ splitWs allowed) ∧
    (∀ w ∈ words (generate g allowed scope).embedded, w ∈ words scope ∧ w ∈ splitWs allowed) := by
  have key := words_getAllowed_sub allowed scope
  have resp : ∀ w ∈ words (if truthy (getAllowedScope allowed scope) then getAllowedScope allowed scope else none),
      w ∈ words scope ∧ w ∈ splitWs allowed := by
    intro w hw
    split at hw
    · exact key w hw
    · simp [words] at hw
  constructor
  · cases g <;> exact resp
  · cases g
    · intro w hw; simp [generate, words] at hw
    · intro w hw
      have h2 := words_getAllowed_sub allowed (getAllowedScope allowed scope) w hw
      exact key w h2.1
    · exact key

/-- Response scope and embedded scope name the same words (JWT generators). -/
theorem embedded_eq_response (allowed : Str) (scope : Option Str) (g : Gen) (hg : g ≠ .bearer) :
    ∀ w, w ∈ words (generate g allowed scope).embedded ↔ w ∈ words (generate g allowed scope).response := by
  intro w
  have h0 : ∀ o : Option Str, w ∈ words (if truthy o then o else none) ↔ w ∈ words o := by
    intro o
    cases o with
    | none => simp [truthy]
    | some s =>
      by_cases hs : s.isEmpty
      · have : s = [] := by simpa using hs
        subst this; simp [truthy, words, scopeToList, splitWs, splitWsAux]
      · simp [truthy, hs]
  cases g with
  | bearer => exact absurd rfl hg
  | jwt9068 => simp only [generate]; exact (h0 _).symm
  | jwt7523 =>
    simp only [generate]
    rw [h0]
    constructor
    · intro hw; exact (words_getAllowed_sub allowed _ w hw).1
    · intro hw
      -- filtering an already filtered scope keeps every word
      have hsub := words_getAllowed_sub allowed scope w hw
      generalize hsc : getAllowedScope allowed scope = sc at hw
      cases sc with
      | none => simp [words] at hw
      | some s =>
        unfold getAllowedScope
        by_cases ht : truthy (some s)
        · simp only [ht, if_true, Option.map, words, words_clientAllowed]
          have hs : s.isEmpty = false := by simpa [truthy] using ht
          simp only [hs]
          exact List.mem_filter.mpr ⟨hw, by simpa using hsub.2⟩
        · simp only [ht]; exact hw

/-- Core statement: for every grant, generator, supported set, client allowance, requested and
    original scope: a token is issued only with words that are requested-or-original, allowed,
    supported (when configured and the request named a scope), and — for refresh — original. -/
theorem issued_subset (gr : Grant) (g : Gen) (supported : Option (List Str)) (allowed : Str)
    (requested original : Option Str) (i : Issued)
    (h : tokenRequest gr g supported allowed requested original = .issued i) :
    ∀ w, (w ∈ words i.response ∨ w ∈ words i.embedded) →
      w ∈ splitWs allowed ∧
      (gr ≠ .refresh → w ∈ words requested ∧
          (∀ sup, supported = some sup → sup ≠ [] → w ∈ sup)) ∧
      (gr = .refresh → w ∈ words original ∧ (truthy requested → w ∈ words requested)) := by
  intro w hw
  unfold tokenRequest at h
  cases gr with
  | refresh =>
    simp only at h
    split at h
    · rename_i hv
      injection h with h; subst h
      have hs := generate_subset g allowed (if truthy requested then requested else original)
      have hw' := hw.elim (hs.1 w) (hs.2 w)
      refine ⟨hw'.2, fun hne => absurd rfl hne, fun _ => ?_⟩
      by_cases hr : truthy requested
      · simp only [hr, if_true] at hw'
        refine ⟨?_, fun _ => hw'.1⟩
        cases requested with
        | none => simp [truthy] at hr
        | some r =>
          cases original with
          | none =>
            simp [validateTokenScope, truthy, hr] at hv
            subst hv; simp [truthy] at hr
          | some o =>
            simp only [words] at hw' ⊢
            unfold validateTokenScope at hv
            simp only [hr, Bool.not_true, Bool.false_eq_true, if_false] at hv
            split at hv
            · cases hv
            · exact by
                have := List.all_eq_true.mp hv w hw'.1
                simpa using this
      · simp only [hr] at hw'
        exact ⟨hw'.1, fun h => absurd h hr⟩
    · cases h
  | direct | stored =>
    simp only at h
    split at h
    · rename_i hv
      injection h with h; subst h
      have hs := generate_subset g allowed requested
      have hw' := hw.elim (hs.1 w) (hs.2 w)
      refine ⟨hw'.2, fun _ => ⟨hw'.1, ?_⟩, fun e => by cases e⟩
      intro sup hsup hne
      subst hsup
      cases requested with
      | none => simp [words] at hw'
      | some s =>
        simp only [validateRequested] at hv
        have hs' : s.isEmpty = false := by
          cases hsE : s.isEmpty
          · rfl
          · have : s = [] := by simpa using hsE
            subst this; simp [words, scopeToList, splitWs, splitWsAux] at hw'
        have hsupE : sup.isEmpty = false := by simpa using hne
        simp only [hs', hsupE, Bool.not_false, Bool.and_self, if_true] at hv
        have := List.all_eq_true.mp hv w hw'.1
        simpa using this
    · cases h

/-- A request naming a scope outside the configured supported set fails with invalid_scope. -/
theorem unsupported_is_invalid_scope (gr : Grant) (hgr : gr ≠ .refresh) (g : Gen) (sup : List Str)
    (allowed : Str) (s : Str) (original : Option Str) (w : Str)
    (hw : w ∈ scopeToList s) (hns : w ∉ sup) (hsup : sup ≠ []) :
    tokenRequest gr g (some sup) allowed (some s) original = .invalidScope := by
  have hs : s.isEmpty = false := by
    cases hsE : s.isEmpty
    · rfl
    · have : s = [] := by simpa using hsE
      subst this; simp [scopeToList, splitWs, splitWsAux] at hw
  have hsupE : sup.isEmpty = false := by simpa using hsup
  have hv : validateRequested (some sup) (some s) = false := by
    simp only [validateRequested, hs, hsupE, Bool.not_false, Bool.and_self, if_true]
    apply Bool.eq_false_iff.mpr
    intro hall
    have := List.all_eq_true.mp hall w hw
    exact hns (by simpa using this)
  cases gr with
  | refresh => exact absurd rfl hgr
  | direct => simp [tokenRequest, hv]
  | stored => simp [tokenRequest, hv]

/-- A refresh request that tries to widen the original scope fails with invalid_scope. -/
theorem refresh_widen_is_invalid_scope (g : Gen) (supported : Option (List Str)) (allowed s : Str)
    (original : Option Str) (w : Str) (hw : w ∈ scopeToList s) (hno : w ∉ words original) :
    tokenRequest .refresh g supported allowed (some s) original = .invalidScope := by
  have hs : s.isEmpty = false := by
    cases hsE : s.isEmpty
    · rfl
    · have : s = [] := by simpa using hsE
      subst this; simp [scopeToList, splitWs, splitWsAux] at hw
  have : validateTokenScope (some s) original = false := by
    unfold validateTokenScope
    simp only [truthy, hs, Bool.not_false, Bool.not_true]
    cases original with
    | none => simp [truthy]
    | some o =>
      by_cases ho : o.isEmpty
      · simp [truthy, ho]
      · simp only [truthy, ho]
        simp only [Bool.not_false, Bool.not_true, Bool.false_eq_true, if_false]
        apply Bool.eq_false_iff.mpr
        intro hall
        have := List.all_eq_true.mp hall w hw
        exact hno (by simpa [words] using this)
  simp [tokenRequest, this]

/-- non-vacuity: a concrete request where something is issued and something is filtered out -/
example : tokenRequest .direct .jwt7523 (some ["a".toList, "b".toList, "z".toList]) "a b".toList
    (some "a z".toList) none = .issued { response := some "a".toList, embedded := some "a".toList } := by
  decide +kernel

end Props.C08

namespace Props.C08
open Model.Text Model.Scope

/-- RFC 6749 §3.3 `scope-token = 1*NQCHAR` (%x21 / %x23-5B / %x5D-7E): no such character is white space to `str.split()` -/
theorem nqchar_not_space (c : Char) (h : 0x21 ≤ c.toNat ∧ c.toNat ≤ 0x7e) : isPySpace c = false := by
  unfold isPySpace
  simp only [Bool.or_eq_false_iff, Bool.and_eq_false_iff, decide_eq_false_iff_not]
  omega

/-- hence a scope token is never split, whatever punctuation it contains (`,` `;` `+` `:` `/` …): the scope string of
    tokens joined by single spaces splits into exactly those tokens -/
theorem scope_tokens_roundtrip (ws : List Str) (h : ∀ w ∈ ws, w ≠ [] ∧ ∀ c ∈ w, 0x21 ≤ c.toNat ∧ c.toNat ≤ 0x7e) :
    scopeToList (listToScope ws) = ws := by
  unfold scopeToList listToScope
  exact splitWs_joinSp ws (fun w hw => ⟨(h w hw).1, fun c hc => nqchar_not_space c ((h w hw).2 c hc)⟩)

/-- in particular a comma-joined name is ONE scope token -/
example : scopeToList "read,write admin".toList = ["read,write".toList, "admin".toList] := by decide

end Props.C08
