import Model.Jwe
import Lemmas.Base64
import Props.C03Registry
/-
  C03 — JWE: round trip, and every accepted serialization authenticated its exact components.

  The AEAD / key-wrap primitives are parameters (`Prims`, the `cryptography` library on both sides of
  the correspondence).  What is proved is everything the library adds around them:
  * the compact round trip (under the primitives' own round-trip hypotheses);
  * an accepted serialization made the AEAD primitive accept exactly the received IV, ciphertext
    and tag with AAD = the received protected segment and the CEK unwrapped from the received
    encrypted key — so accepting an ALTERED component is a forgery against the primitive
    (`accepted_altered_component_is_a_forgery`);
  * for AES_CBC_HMAC_SHA2, which the library composes itself: the tag is checked in full before AES
    is touched, a wrong, shortened or lengthened tag is refused, and an accepted
    (aad, iv, ciphertext) altered in any way is an HMAC collision on distinct messages
    (`cbc_tamper_reduces_to_mac_collision` — the AL field makes the MAC input injective);
  * the Concat KDF other-info is injective in (AlgorithmID, apu, apv, keydatalen).
-/
namespace Props.C03
open Model Model.Jwe

/-! ### the compact serialization -/

/-- an accepted serialization: the primitives accepted exactly what was received -/
theorem accept_implies_primitives_accepted (P : Prims) (segs : List (List UInt8)) (h : Header) (pt : Bytes)
    (hacc : deserializeCompact P segs = .ok (h, pt)) :
    ∃ ps eks ivs cts tags hb ek iv ct tag cek msg,
      segs = [ps, eks, ivs, cts, tags] ∧
      Base64.urlDecode ps = some hb ∧ Base64.urlDecode eks = some ek ∧ Base64.urlDecode ivs = some iv ∧
      Base64.urlDecode cts = some ct ∧ Base64.urlDecode tags = some tag ∧
      P.parseHeader hb = some h ∧ P.unwrap h ek = some cek ∧
      P.dec h cek (ascii ps) iv ct tag = some msg ∧
      ((h.zip = none ∧ pt = msg) ∨ (h.zip ≠ none ∧ P.inflate msg = some pt)) := by
  unfold deserializeCompact at hacc
  match segs, hacc with
  | [ps, eks, ivs, cts, tags], hacc =>
    simp only at hacc
    cases h1 : Base64.urlDecode ps with
    | none => simp [h1] at hacc
    | some hb =>
      cases h2 : Base64.urlDecode eks with
      | none => simp [h1, h2] at hacc
      | some ek =>
        cases h3 : Base64.urlDecode ivs with
        | none => simp [h1, h2, h3] at hacc
        | some iv =>
          cases h4 : Base64.urlDecode cts with
          | none => simp [h1, h2, h3, h4] at hacc
          | some ct =>
            cases h5 : Base64.urlDecode tags with
            | none => simp [h1, h2, h3, h4, h5] at hacc
            | some tag =>
              simp only [h1, h2, h3, h4, h5] at hacc
              cases h6 : P.parseHeader hb with
              | none => simp [h6] at hacc
              | some h' =>
                simp only [h6] at hacc
                cases h7 : P.unwrap h' ek with
                | none => simp [h7] at hacc
                | some cek =>
                  simp only [h7] at hacc
                  cases h8 : P.dec h' cek (ascii ps) iv ct tag with
                  | none => simp [h8] at hacc
                  | some msg =>
                    simp only [h8] at hacc
                    cases hz : h'.zip with
                    | none =>
                      simp only [hz] at hacc
                      injection hacc with hacc
                      simp only [Prod.mk.injEq] at hacc
                      obtain ⟨rfl, rfl⟩ := hacc
                      exact ⟨ps, eks, ivs, cts, tags, hb, ek, iv, ct, tag, cek, msg, rfl, h1, h2, h3, h4, h5, h6, h7, h8, Or.inl ⟨hz, rfl⟩⟩
                    | some z =>
                      simp only [hz] at hacc
                      cases hi : P.inflate msg with
                      | none => simp [hi] at hacc
                      | some p =>
                        simp only [hi] at hacc
                        injection hacc with hacc
                        simp only [Prod.mk.injEq] at hacc
                        obtain ⟨rfl, rfl⟩ := hacc
                        exact ⟨ps, eks, ivs, cts, tags, hb, ek, iv, ct, tag, cek, msg, rfl, h1, h2, h3, h4, h5, h6, h7, h8,
                          Or.inr ⟨by rw [hz]; simp, hi⟩⟩

/-- **round trip** of the compact serialization: what the sender's primitives produced, the recipient's
    primitives accept, and the original header and plaintext come back -/
theorem roundtrip_compact (P : Prims) (headerOctets ek iv ct tag cek pt : Bytes) (h : Header)
    (hparse : P.parseHeader headerOctets = some h) (hunwrap : P.unwrap h ek = some cek) (hz : h.zip = none)
    (hdec : P.dec h cek (ascii (Base64.urlEncode headerOctets)) iv ct tag = some pt) :
    deserializeCompact P (serializeCompact headerOctets ek iv ct tag) = .ok (h, pt) := by
  simp [deserializeCompact, serializeCompact, Base64.urlDecode_urlEncode, hparse, hunwrap, hdec, hz]

theorem roundtrip_compact_zip (P : Prims) (headerOctets ek iv ct tag cek pt msg : Bytes) (h : Header) (z : String)
    (hparse : P.parseHeader headerOctets = some h) (hunwrap : P.unwrap h ek = some cek) (hz : h.zip = some z)
    (hdec : P.dec h cek (ascii (Base64.urlEncode headerOctets)) iv ct tag = some msg) (hinf : P.inflate msg = some pt) :
    deserializeCompact P (serializeCompact headerOctets ek iv ct tag) = .ok (h, pt) := by
  simp [deserializeCompact, serializeCompact, Base64.urlDecode_urlEncode, hparse, hunwrap, hdec, hz, hinf]

/-- the AEAD primitive is unforgeable for the sender's outputs: it accepts under `cek` only the
    (aad, iv, ct, tag) tuples in `produced` -/
def Unforgeable (P : Prims) (cek : Bytes) (produced : List (Bytes × Bytes × Bytes × Bytes)) : Prop :=
  ∀ h aad iv ct tag msg, P.dec h cek aad iv ct tag = some msg → (aad, iv, ct, tag) ∈ produced

/-- **tamper rejection as a reduction**: if the sender produced one message under `cek`, and the key
    management is injective enough that the received encrypted key still unwraps to `cek`, then an
    accepted serialization carries exactly the produced protected segment, IV, ciphertext and tag —
    any accepted alteration of one of them contradicts the unforgeability of the AEAD primitive -/
theorem accepted_altered_component_is_a_forgery (P : Prims) (ps eks ivs cts tags : List UInt8) (h : Header) (pt : Bytes)
    (cek aad0 iv0 ct0 tag0 : Bytes)
    (hunf : Unforgeable P cek [(aad0, iv0, ct0, tag0)])
    (hcek : ∀ h' ek c, P.unwrap h' ek = some c → c = cek)
    (hacc : deserializeCompact P [ps, eks, ivs, cts, tags] = .ok (h, pt)) :
    ascii ps = aad0 ∧ Base64.urlDecode ivs = some iv0 ∧ Base64.urlDecode cts = some ct0 ∧ Base64.urlDecode tags = some tag0 := by
  obtain ⟨ps', eks', ivs', cts', tags', hb, ek, iv, ct, tag, cek', msg, hs, _, _, h3, h4, h5, _, h7, h8, _⟩ :=
    accept_implies_primitives_accepted P _ h pt hacc
  simp only [List.cons.injEq, and_true] at hs
  obtain ⟨rfl, rfl, rfl, rfl, rfl⟩ := hs
  have hc := hcek h ek cek' h7
  subst hc
  have := hunf h _ _ _ _ msg h8
  simp only [List.mem_singleton, Prod.mk.injEq] at this
  obtain ⟨ha, hi, hc, ht⟩ := this
  exact ⟨ha, by rw [h3, hi], by rw [h4, hc], by rw [h5, ht]⟩

/-! ### AES_CBC_HMAC_SHA2 -/

/-- acceptance means: 128-bit IV and the received tag equals the computed one, in full -/
theorem cbc_accept_implies_tag_eq (c : CbcHs) (aes : Bytes → Bytes → Bytes → Option Bytes) (cek aad iv ct tag pt : Bytes)
    (h : cbcDecrypt c aes cek aad iv ct tag = some pt) :
    iv.length = 16 ∧ tag = cbcTag c (cek.take c.keyLen) aad iv ct ∧ aes (cek.drop c.keyLen) iv ct = some pt := by
  unfold cbcDecrypt at h
  split at h
  · cases h
  · rename_i hiv
    split at h
    · cases h
    · rename_i ht
      refine ⟨by simpa using hiv, ?_, h⟩
      have : cbcTag c (cek.take c.keyLen) aad iv ct = tag := by simpa using ht
      exact this.symm

/-- a wrong tag is refused, and AES-CBC is not even invoked (the verdict does not depend on it) -/
theorem cbc_wrong_tag_rejected (c : CbcHs) (aes aes' : Bytes → Bytes → Bytes → Option Bytes) (cek aad iv ct tag : Bytes)
    (hne : tag ≠ cbcTag c (cek.take c.keyLen) aad iv ct) :
    cbcDecrypt c aes cek aad iv ct tag = none ∧ cbcDecrypt c aes' cek aad iv ct tag = none := by
  have hb : (cbcTag c (cek.take c.keyLen) aad iv ct != tag) = true := by
    simp only [bne_iff_ne, ne_eq]; exact fun e => hne e.symm
  constructor <;> (unfold cbcDecrypt; split <;> simp [hb])

/-- a shortened (or lengthened) tag is refused whenever the MAC output is at least T_LEN long -/
theorem cbc_tag_length_enforced (c : CbcHs) (aes : Bytes → Bytes → Bytes → Option Bytes) (cek aad iv ct tag pt : Bytes)
    (hmac : ∀ k m, c.keyLen ≤ (c.mac k m).length)
    (h : cbcDecrypt c aes cek aad iv ct tag = some pt) : tag.length = c.keyLen := by
  obtain ⟨_, ht, _⟩ := cbc_accept_implies_tag_eq c aes cek aad iv ct tag pt h
  rw [ht, cbcTag, List.length_take]
  exact Nat.min_eq_left (hmac _ _)

theorem al64_length (aad : Bytes) : (al64 aad).length = 8 := by simp [al64]

/-- the MAC input aad ‖ iv ‖ ct ‖ AL is injective in (aad, iv, ct) for 128-bit IVs and AAD shorter
    than 2^61 octets: AL pins the length of the AAD, the IV has fixed length -/
theorem mac_input_injective (aad iv ct aad' iv' ct' : Bytes) (hiv : iv.length = 16) (hiv' : iv'.length = 16)
    (hlen : aad.length = aad'.length)
    (h : aad ++ iv ++ ct ++ al64 aad = aad' ++ iv' ++ ct' ++ al64 aad') : aad = aad' ∧ iv = iv' ∧ ct = ct' := by
  have h1 : aad ++ (iv ++ (ct ++ al64 aad)) = aad' ++ (iv' ++ (ct' ++ al64 aad')) := by simpa [List.append_assoc] using h
  obtain ⟨ha, h2⟩ := List.append_inj h1 hlen
  obtain ⟨hi, h3⟩ := List.append_inj h2 (by rw [hiv, hiv'])
  have h4 : ct.length = ct'.length := by
    have := congrArg List.length h3
    simp only [List.length_append, al64_length] at this
    omega
  exact ⟨ha, hi, (List.append_inj h3 h4).1⟩

/-- AL determines the AAD length below 2^64 bits -/
theorem al64_injective_length (a b : Bytes) (ha : a.length * 8 < 2 ^ 64) (hb : b.length * 8 < 2 ^ 64)
    (h : al64 a = al64 b) : a.length = b.length := by
  have key : ∀ (len n m : Nat), n < 256 ^ len → m < 256 ^ len → natBE len n = natBE len m → n = m := by
    intro len
    induction len with
    | zero => intro n m hn hm _; simp at hn hm; omega
    | succ k ih =>
      intro n m hn hm hnm
      simp only [natBE] at hnm
      have hl : (natBE k (n / 256)).length = (natBE k (m / 256)).length := by simp
      obtain ⟨h1, h2⟩ := List.append_inj hnm hl
      have hq := ih (n / 256) (m / 256) (by rw [Nat.pow_succ] at hn; omega) (by rw [Nat.pow_succ] at hm; omega) h1
      have hr : n % 256 = m % 256 := by
        have := congrArg (fun l => l.head?.map UInt8.toNat) h2
        simp at this
        omega
      omega
  have e : (256 : Nat) ^ 8 = 2 ^ 64 := by decide
  have := key 8 (a.length * 8) (b.length * 8) (by rw [e]; exact ha) (by rw [e]; exact hb) h
  omega

/-- **tampering with an AES_CBC_HMAC_SHA2 message reduces to a MAC collision**: if an altered
    (aad, iv, ciphertext) is accepted with the tag of the original, the MAC returned the same T_LEN
    octets on two DIFFERENT inputs -/
theorem cbc_tamper_reduces_to_mac_collision (c : CbcHs) (aes : Bytes → Bytes → Bytes → Option Bytes)
    (cek aad iv ct aad' iv' ct' tag pt : Bytes)
    (horig : tag = cbcTag c (cek.take c.keyLen) aad iv ct) (hiv : iv.length = 16)
    (hsz : aad.length * 8 < 2 ^ 64) (hsz' : aad'.length * 8 < 2 ^ 64)
    (halt : (aad', iv', ct') ≠ (aad, iv, ct))
    (hacc : cbcDecrypt c aes cek aad' iv' ct' tag = some pt) :
    aad' ++ iv' ++ ct' ++ al64 aad' ≠ aad ++ iv ++ ct ++ al64 aad ∧
    (c.mac (cek.take c.keyLen) (aad' ++ iv' ++ ct' ++ al64 aad')).take c.keyLen =
      (c.mac (cek.take c.keyLen) (aad ++ iv ++ ct ++ al64 aad)).take c.keyLen := by
  obtain ⟨hiv', ht, _⟩ := cbc_accept_implies_tag_eq c aes cek aad' iv' ct' tag pt hacc
  refine ⟨?_, ?_⟩
  · intro heq
    -- equal MAC inputs force equal AL (the last 8 octets), hence equal AAD lengths, hence equal components
    have hl : (aad' ++ iv' ++ ct').length = (aad ++ iv ++ ct).length := by
      have := congrArg List.length heq
      simp only [List.length_append, al64_length] at this ⊢
      omega
    have hal := (List.append_inj heq hl).2
    have hlen := al64_injective_length aad' aad hsz' hsz hal
    obtain ⟨ha, hi, hc⟩ := mac_input_injective aad' iv' ct' aad iv ct hiv' hiv hlen heq
    exact halt (by rw [ha, hi, hc])
  · rw [horig] at ht
    simpa [cbcTag] using ht.symm

/-! ### Concat KDF other-info -/

theorem u32_length (n : Nat) : (u32 n).length = 4 := by simp [u32]

theorem u32_injective (n m : Nat) (hn : n < 2 ^ 32) (hm : m < 2 ^ 32) (h : u32 n = u32 m) : n = m := by
  have key : ∀ (len n m : Nat), n < 256 ^ len → m < 256 ^ len → natBE len n = natBE len m → n = m := by
    intro len
    induction len with
    | zero => intro n m hn hm _; simp at hn hm; omega
    | succ k ih =>
      intro n m hn hm hnm
      simp only [natBE] at hnm
      have hl : (natBE k (n / 256)).length = (natBE k (m / 256)).length := by simp
      obtain ⟨h1, h2⟩ := List.append_inj hnm hl
      have hq := ih (n / 256) (m / 256) (by rw [Nat.pow_succ] at hn; omega) (by rw [Nat.pow_succ] at hm; omega) h1
      have hr : n % 256 = m % 256 := by
        have := congrArg (fun l => l.head?.map UInt8.toNat) h2
        simp at this
        omega
      omega
  have e : (256 : Nat) ^ 4 = 2 ^ 32 := by decide
  exact key 4 n m (by rw [e]; exact hn) (by rw [e]; exact hm) h

theorem lenPrefixed_append_inj (a b ra rb : Bytes) (ha : a.length < 2 ^ 32) (hb : b.length < 2 ^ 32)
    (h : lenPrefixed a ++ ra = lenPrefixed b ++ rb) : a = b ∧ ra = rb := by
  simp only [lenPrefixed, List.append_assoc] at h
  obtain ⟨hl, hr⟩ := List.append_inj h (by simp [u32_length])
  have hlen := u32_injective _ _ ha hb hl
  obtain ⟨hab, hrr⟩ := List.append_inj hr hlen
  exact ⟨hab, hrr⟩

/-- **the KDF other-info is injective**: distinct (AlgorithmID, apu, apv, key length) never share a
    derivation context (fields below 2^32 octets, as the 32-bit length prefix requires) -/
theorem fixedInfo_injective (alg apu apv alg' apu' apv' : Bytes) (bits bits' : Nat)
    (h1 : alg.length < 2 ^ 32) (h1' : alg'.length < 2 ^ 32) (h2 : apu.length < 2 ^ 32) (h2' : apu'.length < 2 ^ 32)
    (h3 : apv.length < 2 ^ 32) (h3' : apv'.length < 2 ^ 32) (hb : bits < 2 ^ 32) (hb' : bits' < 2 ^ 32)
    (h : fixedInfo alg apu apv bits = fixedInfo alg' apu' apv' bits') :
    alg = alg' ∧ apu = apu' ∧ apv = apv' ∧ bits = bits' := by
  simp only [fixedInfo, List.append_assoc] at h
  obtain ⟨ha, r1⟩ := lenPrefixed_append_inj alg alg' _ _ h1 h1' h
  obtain ⟨hu, r2⟩ := lenPrefixed_append_inj apu apu' _ _ h2 h2' r1
  obtain ⟨hv, r3⟩ := lenPrefixed_append_inj apv apv' (u32 bits) (u32 bits') h3 h3' r2
  exact ⟨ha, hu, hv, u32_injective _ _ hb hb' r3⟩

/-! ### general JSON serialization -/

theorem firstAuthentic_spec (P : JPrims) (aad : Bytes) : ∀ (rs : List Recipient) (cek : Bytes),
    firstAuthentic P aad rs = some cek → ∃ r ∈ rs, P.unwrap r = some cek ∧ (P.dec cek aad).isSome = true := by
  intro rs
  induction rs with
  | nil => intro cek h; cases h
  | cons r rest ih =>
    intro cek h
    simp only [firstAuthentic] at h
    cases hu : P.unwrap r with
    | none =>
      simp only [hu] at h
      obtain ⟨r', hm, h'⟩ := ih cek h
      exact ⟨r', List.mem_cons_of_mem _ hm, h'⟩
    | some c =>
      simp only [hu] at h
      split at h
      · rename_i hd
        injection h with h; subst h
        exact ⟨r, List.mem_cons_self, hu, hd⟩
      · obtain ⟨r', hm, h'⟩ := ih cek h
        exact ⟨r', List.mem_cons_of_mem _ hm, h'⟩

/-- an accepted JSON serialization: some recipient entry unwrapped to a CEK under which the content
    authenticated with AAD = received protected text (+ "." + received aad text) -/
theorem json_accept_implies_authenticated (P : JPrims) (j : JsonJwe) (keyKid : Option String) (pt : Bytes)
    (h : deserializeJson P j keyKid = some pt) :
    ∃ r ∈ j.recipients, ∃ cek, P.unwrap r = some cek ∧ P.dec cek (jsonAad j) = some pt := by
  unfold deserializeJson at h
  cases hc : chooseCek P j keyKid with
  | none => simp [hc] at h
  | some cek =>
    simp only [hc] at h
    unfold chooseCek at hc
    simp only at hc
    split at hc
    · rename_i r hfind
      have hm : r ∈ j.recipients := by
        cases keyKid with
        | none => simp at hfind
        | some k => exact List.mem_of_find?_eq_some hfind
      exact ⟨r, hm, cek, hc, h⟩
    · obtain ⟨r, hm, hu, _⟩ := firstAuthentic_spec P _ _ _ hc
      exact ⟨r, hm, cek, hu, h⟩

/-- **every recipient can decrypt**: if the recipient's own entry unwraps to a CEK that authenticates
    the content, and no EARLIER entry does (foreign entries either fail to unwrap or — RSA1_5's
    implicit rejection — unwrap to a key that does not authenticate), the loop finds it. This is the
    statement the pre-fix loop ("first entry that unwraps") violated. -/
theorem json_every_recipient_decrypts (P : JPrims) (aad : Bytes) (pre : List Recipient) (own : Recipient) (post : List Recipient)
    (cek pt : Bytes) (hown : P.unwrap own = some cek) (hdec : P.dec cek aad = some pt)
    (hpre : ∀ r ∈ pre, ∀ c, P.unwrap r = some c → P.dec c aad = none) :
    firstAuthentic P aad (pre ++ own :: post) = some cek := by
  induction pre with
  | nil => simp [firstAuthentic, hown, hdec]
  | cons r rest ih =>
    have ih' := ih (fun r' hr' => hpre r' (List.mem_cons_of_mem _ hr'))
    simp only [List.cons_append, firstAuthentic]
    cases hu : P.unwrap r with
    | none => exact ih'
    | some c =>
      have := hpre r List.mem_cons_self c hu
      simp [this, ih']

theorem json_recipient_gets_plaintext (P : JPrims) (j : JsonJwe) (pre : List Recipient) (own : Recipient) (post : List Recipient)
    (cek pt : Bytes) (hrec : j.recipients = pre ++ own :: post)
    (hown : P.unwrap own = some cek) (hdec : P.dec cek (jsonAad j) = some pt)
    (hpre : ∀ r ∈ pre, ∀ c, P.unwrap r = some c → P.dec c (jsonAad j) = none) :
    deserializeJson P j none = some pt := by
  have := json_every_recipient_decrypts P (jsonAad j) pre own post cek pt hown hdec hpre
  simp [deserializeJson, chooseCek, hrec, this, hdec]

/-- the pre-fix loop — the first entry that merely unwraps — loses a legitimate recipient: a concrete
    two-entry message on which it fails while the repaired loop succeeds -/
def firstUnwrapping (P : JPrims) : List Recipient → Option Bytes
  | [] => none
  | r :: rest => match P.unwrap r with | some c => some c | none => firstUnwrapping P rest

def implicitRejection : JPrims :=
  { unwrap := fun r => if r.ek = [1] then some [0xAA] else if r.ek = [2] then some [0xBB] else none,   -- entry 1 is foreign: a random key comes out
    dec := fun cek _ => if cek = [0xBB] then some [112, 116] else none }

theorem first_unwrapping_loop_loses_recipient :
    (firstUnwrapping implicitRejection [⟨none, [1]⟩, ⟨none, [2]⟩]).bind (fun c => implicitRejection.dec c []) = none ∧
    (firstAuthentic implicitRejection [] [⟨none, [1]⟩, ⟨none, [2]⟩]).bind (fun c => implicitRejection.dec c []) = some [112, 116] := by decide

/-- the AAD binds both texts: with base64url texts (no '.') the pair (protected, aad) is determined by the AAD -/
theorem jsonAad_injective (p a p' a' : List UInt8) (hp : (46 : UInt8) ∉ p) (hp' : (46 : UInt8) ∉ p')
    (h : p ++ [46] ++ a = p' ++ [46] ++ a') : p = p' ∧ a = a' := by
  have key : ∀ (x y b b' : List UInt8), (46 : UInt8) ∉ x → (46 : UInt8) ∉ y → x ++ 46 :: b = y ++ 46 :: b' → x = y ∧ b = b' := by
    intro x
    induction x with
    | nil =>
      intro y b b' _ hy h
      cases y with
      | nil => simp at h; exact ⟨rfl, h⟩
      | cons c y => simp at h; exact absurd (h.1 ▸ List.mem_cons_self) hy
    | cons c x ih =>
      intro y b b' hx hy h
      cases y with
      | nil => simp at h; exact absurd (h.1 ▸ List.mem_cons_self) hx
      | cons d y =>
        simp only [List.cons_append, List.cons.injEq] at h
        obtain ⟨rfl, h⟩ := h
        have := ih y b b' (fun hm => hx (List.mem_cons_of_mem _ hm)) (fun hm => hy (List.mem_cons_of_mem _ hm)) h
        exact ⟨by rw [this.1], this.2⟩
  exact key p p' a a' hp hp' (by simpa [List.append_assoc] using h)

/-- … and a message with an "aad" member never has the AAD of one without (for the same or any dot-free protected text) -/
theorem jsonAad_present_ne_absent (p a p' : List UInt8) (hp' : (46 : UInt8) ∉ p') : p ++ [46] ++ a ≠ p' := by
  intro h
  apply hp'
  rw [← h]
  simp

/-- non-vacuity: a concrete Prims instance and token for which acceptance holds -/
def toyPrims : Prims :=
  { parseHeader := fun _ => some ⟨"dir", "A128GCM", none⟩, unwrap := fun _ _ => some [1, 2, 3],
    dec := fun _ cek _ _ ct tag => if tag = [9] then some (cek ++ ct) else none, inflate := fun b => some b }
example : (deserializeCompact toyPrims (serializeCompact [123, 125] [] [0] [7, 7] [9])).toOption = some (⟨"dir", "A128GCM", none⟩, [1, 2, 3, 7, 7]) := by decide
example : (deserializeCompact toyPrims (serializeCompact [123, 125] [] [0] [7, 7] [8])).toOption = none := by decide

end Props.C03
