import Generated.KeyFamily
/-
  C02 — "an algorithm that … belongs to the same family as the supplied key": symmetric and asymmetric material never
  cross. Over the table of `prepare_key` outcomes regenerated from the current code (see Props/C20Keys):
  a symmetric algorithm (HMAC, AES key wrap, AES-GCM key wrap, dir) takes nothing but an oct key — in particular never
  the PEM text of an asymmetric key — and an asymmetric algorithm never takes an oct key.
-/
namespace Props.C02Keys
open Generated.KeyFamily

def cls (r : String × String × String × String × String × String) : String := r.2.2.1
def kty (r : String × String × String × String × String × String) : String := r.2.2.2.1
def form (r : String × String × String × String × String × String) : String := r.2.2.2.2.1
def outcome (r : String × String × String × String × String × String) : String := r.2.2.2.2.2

def symmetric (c : String) : Bool := c == "HMACAlgorithm" || c == "AESAlgorithm" || c == "AESGCMAlgorithm" || c == "DirectAlgorithm"
def asymmetric (c : String) : Bool :=
  c == "RSAAlgorithm" || c == "RSAPSSAlgorithm" || c == "ECAlgorithm" || c == "EdDSAAlgorithm" || c == "ECDHESAlgorithm" || c == "ECDH1PUAlgorithm"

theorem symmetric_alg_takes_only_oct_keys :
    ∀ r ∈ prepareKey, symmetric (cls r) = true → outcome r = "ok" → kty r = "oct" := by
  decide +kernel

theorem asymmetric_alg_refuses_oct_keys :
    ∀ r ∈ prepareKey, asymmetric (cls r) = true → kty r = "oct" → outcome r = "ValueError" := by
  decide +kernel

theorem rsa_alg_takes_only_rsa_keys :
    ∀ r ∈ prepareKey, (cls r = "RSAAlgorithm" ∨ cls r = "RSAPSSAlgorithm") → outcome r = "ok" → kty r = "RSA" := by
  decide +kernel

theorem ec_signature_alg_takes_only_ec_keys :
    ∀ r ∈ prepareKey, cls r = "ECAlgorithm" → outcome r = "ok" → kty r = "EC" := by
  decide +kernel

/-- every implementing class in the table is classified (so the theorems above leave no algorithm out, `none` apart) -/
theorem classes_covered : ∀ r ∈ prepareKey, symmetric (cls r) = true ∨ asymmetric (cls r) = true ∨ cls r = "NoneAlgorithm" := by
  decide +kernel

/-- non-vacuity: the matching cells succeed -/
example : ∃ r ∈ prepareKey, cls r = "HMACAlgorithm" ∧ kty r = "oct" ∧ outcome r = "ok" := by decide +kernel
example : ∃ r ∈ prepareKey, cls r = "ECAlgorithm" ∧ kty r = "EC" ∧ outcome r = "ok" := by decide +kernel

end Props.C02Keys
