import Generated.KeyFamily
import Generated.KeyOps
import Model.KeyOps
/-
  C02 — "an algorithm that … belongs to the same family as the supplied key": symmetric and asymmetric material never
  cross. Over the table of `prepare_key` outcomes regenerated from the current code (see Props/C20Keys):
  a symmetric algorithm (HMAC, AES key wrap, AES-GCM key wrap, dir) takes nothing but an oct key — in particular never
  the PEM text of an asymmetric key — and an asymmetric algorithm never takes an oct key.
-/
namespace Props.C02Keys
open Generated.KeyFamily

def cls (r : String × String × String × String × String × String) : String := r.2.2.1
def kty (r : String × String × String × String × String × String) : String := r.2.2.2.1
def form (r : String × String × String × String × String × String) : String := r.2.2.2.2.1
def outcome (r : String × String × String × String × String × String) : String := r.2.2.2.2.2

def symmetric (c : String) : Bool := c == "HMACAlgorithm" || c == "AESAlgorithm" || c == "AESGCMAlgorithm" || c == "DirectAlgorithm"
def asymmetric (c : String) : Bool :=
  c == "RSAAlgorithm" || c == "RSAPSSAlgorithm" || c == "ECAlgorithm" || c == "EdDSAAlgorithm" || c == "ECDHESAlgorithm" || c == "ECDH1PUAlgorithm"

theorem symmetric_alg_takes_only_oct_keys :
    ∀ r ∈ prepareKey, symmetric (cls r) = true → outcome r = "ok" → kty r = "oct" := by
  decide +kernel

theorem asymmetric_alg_refuses_oct_keys :
    ∀ r ∈ prepareKey, asymmetric (cls r) = true → kty r = "oct" → outcome r = "ValueError" := by
  decide +kernel

theorem rsa_alg_takes_only_rsa_keys :
    ∀ r ∈ prepareKey, (cls r = "RSAAlgorithm" ∨ cls r = "RSAPSSAlgorithm") → outcome r = "ok" → kty r = "RSA" := by
  decide +kernel

theorem ec_signature_alg_takes_only_ec_keys :
    ∀ r ∈ prepareKey, cls r = "ECAlgorithm" → outcome r = "ok" → kty r = "EC" := by
  decide +kernel

/-- every implementing class in the table is classified (so the theorems above leave no algorithm out, `none` apart) -/
theorem classes_covered : ∀ r ∈ prepareKey, symmetric (cls r) = true ∨ asymmetric (cls r) = true ∨ cls r = "NoneAlgorithm" := by
  decide +kernel

/-- non-vacuity: the matching cells succeed -/
example : ∃ r ∈ prepareKey, cls r = "HMACAlgorithm" ∧ kty r = "oct" ∧ outcome r = "ok" := by decide +kernel
example : ∃ r ∈ prepareKey, cls r = "ECAlgorithm" ∧ kty r = "EC" ∧ outcome r = "ok" := by decide +kernel

end Props.C02Keys

/-! ### `use` / `key_ops` restrictions (C02: "restricting a key by use or key_ops is honoured") -/
namespace Props.C02Keys
open Model.KeyOps Generated.KeyOps

theorem check_restricted (k : Restr) (op : String) (l : List String) (hk : k.keyOps = some l) (hl : op ∉ l) : check k op = .unsupportedKeyOp := by
  have : opsForbid k op = true := by simp [opsForbid, hk, hl]
  simp [check, this]

/-- a key whose key_ops does not list an operation the algorithm asks about is refused -/
theorem restricted_key_refused (requested : List String) (k : Restr) (op : String) (l : List String)
    (hop : op ∈ requested) (hk : k.keyOps = some l) (hl : op ∉ l) : performs requested k = false := by
  unfold performs
  rw [List.all_eq_false]
  exact ⟨op, hop, by rw [check_restricted k op l hk hl]; decide⟩

theorem useVerdict_mismatch (k : Restr) (op u : String) (hu : k.use = some u) (hne : u.isEmpty = false)
    (hmis : (op ∈ encOps ∧ op ∉ sigOps ∧ u ≠ "enc") ∨ (op ∈ sigOps ∧ u ≠ "sig")) :
    useVerdict k op = .invalidUse := by
  unfold useVerdict
  rw [hu]
  rcases hmis with ⟨he, hs, hn⟩ | ⟨hs, hn⟩
  · simp [hne, hs, he, hn]
  · simp [hne, hs, hn]

theorem check_use_mismatch (k : Restr) (op u : String) (hu : k.use = some u) (hne : u.isEmpty = false)
    (hmis : (op ∈ encOps ∧ op ∉ sigOps ∧ u ≠ "enc") ∨ (op ∈ sigOps ∧ u ≠ "sig")) :
    check k op ≠ .ok := by
  unfold check
  by_cases h1 : opsForbid k op = true
  · rw [if_pos h1]; decide
  · rw [if_neg h1]
    by_cases h2 : (privateOps.contains op && k.publicOnly) = true
    · rw [if_pos h2]; decide
    · rw [if_neg h2, useVerdict_mismatch k op u hu hne hmis]; decide

/-- a key marked for signatures is refused by everything that asks about an encryption operation, and vice versa -/
theorem use_mismatch_refused (requested : List String) (k : Restr) (op u : String) (hop : op ∈ requested) (hu : k.use = some u) (hne : u.isEmpty = false)
    (hmis : (op ∈ encOps ∧ op ∉ sigOps ∧ u ≠ "enc") ∨ (op ∈ sigOps ∧ u ≠ "sig")) :
    performs requested k = false := by
  unfold performs
  rw [List.all_eq_false]
  refine ⟨op, hop, ?_⟩
  have := check_use_mismatch k op u hu hne hmis
  cases hc : check k op <;> simp_all

def prod (r : String × String × String × List String × List String) : List String := r.2.2.2.1
def cons (r : String × String × String × List String × List String) : List String := r.2.2.2.2
def kcls (r : String × String × String × List String × List String) : String := r.2.2.1

/-- regenerated table: every signature algorithm asks "sign" to produce and "verify" to consume -/
theorem jws_asks_sign_and_verify : ∀ r ∈ keyOps, r.1 = "jws" → prod r = ["sign"] ∧ cons r = ["verify"] := by
  decide +kernel

/-- every key-management algorithm asks an encryption-side operation of the key it produces with … -/
theorem jwe_producing_side_asks : ∀ r ∈ keyOps, r.1 = "jwe" → prod r = ["wrapKey"] ∨ prod r = ["encrypt"] := by
  decide +kernel

/-- … and the matching one of the key it consumes with — except the ECDH-ES family -/
theorem jwe_consuming_side_asks_partial : ∀ r ∈ keyOps, r.1 = "jwe" → kcls r ≠ "ECDHESAlgorithm" →
    (prod r = ["wrapKey"] → cons r = ["unwrapKey"]) ∧ (prod r = ["encrypt"] → cons r = ["decrypt"]) := by
  decide +kernel

/-- hence (with `use_mismatch_refused`) no algorithm outside the ECDH-ES family decrypts with a `use: sig` key -/
theorem sig_key_never_decrypts_partial : ∀ r ∈ keyOps, r.1 = "jwe" → kcls r ≠ "ECDHESAlgorithm" →
    ∀ k : Restr, k.use = some "sig" → performs (cons r) k = false := by
  intro r hr hj hc k hu
  have h := jwe_consuming_side_asks_partial r hr hj hc
  rcases jwe_producing_side_asks r hr hj with hp | hp
  · rw [(h.1 hp)]
    exact use_mismatch_refused _ k "unwrapKey" "sig" (by simp) hu (by decide) (Or.inl ⟨by decide, by decide, by decide⟩)
  · rw [(h.2 hp)]
    exact use_mismatch_refused _ k "decrypt" "sig" (by simp) hu (by decide) (Or.inl ⟨by decide, by decide, by decide⟩)

/-- the full sentence is false: ECDH-ES decryption asks nothing of the recipient key, so every key "performs" (known finding
    C02-ecdh-decrypt-ignores-use-and-key_ops) -/
theorem ecdh_consuming_side_asks_nothing :
    (∃ r ∈ keyOps, kcls r = "ECDHESAlgorithm" ∧ cons r = []) ∧ ∀ k : Restr, performs [] k = true := by
  constructor
  · decide +kernel
  · intro k; rfl

example : performs ["unwrapKey"] ⟨some "enc", some ["unwrapKey"], false⟩ = true := by decide
example : performs ["unwrapKey"] ⟨none, some ["wrapKey"], false⟩ = false := by decide

end Props.C02Keys
