import Props.C05Core
/-
  C05 with the RFC 9207 extension (authlib/oauth2/rfc9207/parameter.py) registered on the grants: the
  `iss` response parameter is added to what the decision step answers — the redirect target stays a
  registered URI, state is still echoed exactly once, credentials still need approval, and `iss`
  appears exactly once.
-/
namespace Props.C05Issuer
open Model.Authorize Props.C05

theorem withIssuer_redirect (issuer : Option String) (resp : Resp) (t : String) (m : Mode) (ps : List (String × String))
    (h : withIssuer issuer resp = .redirect t m ps) :
    ∃ ps0, resp = .redirect t m ps0 ∧
      (ps = ps0 ∨ (truthy issuer = true ∧ m ≠ .formPost ∧ ps = ps0 ++ [("iss", issuer.getD "")])) := by
  cases resp with
  | redirect t0 m0 ps0 =>
    simp only [withIssuer] at h
    split at h
    · rename_i hc
      injection h with h1 h2 h3
      subst h1; subst h2
      have hc' : truthy issuer = true ∧ (t0 = t0 → m0 ≠ .formPost) := by
        simp only [Bool.and_eq_true, bne_iff_ne, ne_eq] at hc
        exact ⟨hc.1, fun _ => hc.2⟩
      exact ⟨ps0, rfl, Or.inr ⟨hc'.1, hc'.2 rfl, h3.symm⟩⟩
    · injection h with h1 h2 h3
      subst h1; subst h2
      exact ⟨ps0, rfl, Or.inl h3.symm⟩
  | localError s e => simp [withIssuer] at h
  | consentPage => simp [withIssuer] at h

/-- with the extension registered, a 302 still goes only to a registered redirect URI -/
theorem issuer_redirect_only_to_registered (cfg : Config) (issuer : Option String) (r : Req) (approve : Bool) (t : String) (m : Mode)
    (ps : List (String × String)) (h : respondIss cfg issuer r approve = .redirect t m ps) : Registered cfg r t := by
  obtain ⟨ps0, h0, _⟩ := withIssuer_redirect issuer _ t m ps h
  exact redirect_only_to_registered cfg r approve t m ps0 h0

/-- … state is still returned unchanged, exactly once -/
theorem issuer_state_echoed_once_unchanged (cfg : Config) (issuer : Option String) (r : Req) (approve : Bool) (t : String) (m : Mode)
    (ps : List (String × String)) (h : respondIss cfg issuer r approve = .redirect t m ps) :
    stateValues ps = if truthy r.state then [r.state.getD ""] else [] := by
  obtain ⟨ps0, h0, hps⟩ := withIssuer_redirect issuer _ t m ps h
  have := state_echoed_once_unchanged cfg r approve t m ps0 h0
  rcases hps with rfl | ⟨_, _, rfl⟩
  · exact this
  · unfold stateValues at this ⊢
    rw [List.filter_append, List.map_append, this]
    simp

/-- … a code or token still appears only if the resource owner approved -/
theorem issuer_credential_only_if_approved (cfg : Config) (issuer : Option String) (r : Req) (approve : Bool) (t : String) (m : Mode)
    (ps : List (String × String)) (h : respondIss cfg issuer r approve = .redirect t m ps)
    (hcred : ∃ p ∈ ps, isCredential p.1 = true) : approve = true := by
  obtain ⟨ps0, h0, hps⟩ := withIssuer_redirect issuer _ t m ps h
  obtain ⟨p, hp, hc⟩ := hcred
  apply credential_only_if_approved cfg r approve t m ps0 h0
  rcases hps with rfl | ⟨_, _, rfl⟩
  · exact ⟨p, hp, hc⟩
  · rcases List.mem_append.mp hp with hp | hp
    · exact ⟨p, hp, hc⟩
    · simp at hp; subst hp; simp [isCredential] at hc

/-- the names the decision step itself puts into a redirect -/
def ownName (k : String) : Bool := k == "error" || k == "state" || k == "code" || k == "access_token" || k == "token_type" || k == "id_token"

theorem errorParams_own (e : String) (s : Option String) : ∀ p ∈ errorParams e s, ownName p.1 = true := by
  intro p hp
  unfold errorParams at hp
  rcases List.mem_append.mp hp with hp | hp
  · simp at hp; subst hp; rfl
  · split at hp
    · split at hp
      · simp at hp
      · simp at hp; subst hp; rfl
    · simp at hp

theorem stateParam_own (s : Option String) : ∀ p ∈ stateParam s, ownName p.1 = true := by
  intro p hp
  unfold stateParam at hp
  split at hp
  · split at hp
    · simp at hp
    · simp at hp; subst hp; rfl
  · simp at hp

theorem grantedParams_own (g : GrantKind) (rt : String) : ∀ p ∈ grantedParams g rt, ownName p.1 = true := by
  intro p hp
  have : p.1 = "code" ∨ p.1 = "access_token" ∨ p.1 = "token_type" ∨ p.1 = "id_token" := by
    unfold grantedParams at hp
    cases g <;> simp only at hp
    · simp at hp; subst hp; simp
    · simp at hp; rcases hp with rfl | rfl <;> simp
    · split at hp
      · simp at hp; subst hp; simp
      · simp at hp; rcases hp with rfl | rfl | rfl <;> simp
    · simp only [List.mem_append, List.mem_cons, List.mem_nil_iff, or_false] at hp
      rcases hp with rfl | hp
      · simp
      · split at hp
        · simp only [List.mem_append, List.mem_cons, List.mem_nil_iff, or_false] at hp
          rcases hp with (rfl | rfl) | hp
          · simp
          · simp
          · split at hp
            · simp at hp; subst hp; simp
            · simp at hp
        · simp at hp; subst hp; simp
  rcases this with h | h | h | h <;> rw [h] <;> decide

/-- every parameter of a redirect of the plain decision step is one of its own names (in particular never `iss`) -/
theorem respond_params_own (cfg : Config) (r : Req) (approve : Bool) (t : String) (m : Mode)
    (ps : List (String × String)) (h : respond cfg r approve = .redirect t m ps) : ∀ p ∈ ps, ownName p.1 = true := by
  have granted : ∀ g rt, ∀ p ∈ grantedParams g rt ++ stateParam r.state, ownName p.1 = true := by
    intro g rt p hp
    rcases List.mem_append.mp hp with hp | hp
    · exact grantedParams_own g rt p hp
    · exact stateParam_own _ p hp
  unfold respond at h
  cases hf : front cfg r with
  | error resp =>
    simp only [hf] at h; subst h
    unfold front at hf
    cases hg : findGrant cfg (normRt r.responseType) with
    | none => simp [hg] at hf
    | some g =>
      simp only [hg] at hf
      cases hc : identifyClient cfg g r with
      | none => simp [hc] at hf
      | some c =>
        simp only [hc] at hf
        cases hv : validateRedirect r c with
        | none => simp [hv] at hf
        | some ru =>
          simp only [hv] at hf
          cases ha : validateAfterRedirect cfg g r c ru with
          | none => simp [ha] at hf
          | some resp =>
            simp only [ha, Except.error.injEq] at hf
            subst hf
            unfold validateAfterRedirect at ha
            cases g <;> simp only at ha <;> (repeat' split at ha) <;>
              first
              | (injection ha with ha; injection ha with _ _ hps; subst hps; exact errorParams_own _ _)
              | cases ha
  | ok v =>
    obtain ⟨g, c, ru⟩ := v
    simp only [hf] at h
    cases g <;> simp only at h
    · split at h <;> (injection h with _ _ hps; subst hps) <;>
        first | exact granted _ _ | exact errorParams_own _ _
    · split at h <;> (injection h with _ _ hps; subst hps) <;>
        first | exact granted _ _ | exact errorParams_own _ _
    · obtain ⟨_, rfl⟩ := deliver_target _ _ _ _ _ _ _ h
      split <;> first | exact granted _ _ | exact errorParams_own _ _
    · obtain ⟨_, rfl⟩ := deliver_target _ _ _ _ _ _ _ h
      split <;> first | exact granted _ _ | exact errorParams_own _ _

/-- **RFC 9207 §2.** With an issuer configured, every 302 of the decision step — success and error alike — carries `iss`
    exactly once, with the configured value, after the step's own parameters; a form_post page carries none -/
theorem iss_exactly_once (cfg : Config) (issuer : String) (hi : issuer ≠ "") (r : Req) (approve : Bool) (t : String) (m : Mode)
    (ps : List (String × String)) (h : respondIss cfg (some issuer) r approve = .redirect t m ps) :
    ps.filter (fun p => p.1 == "iss") = if m = .formPost then [] else [("iss", issuer)] := by
  unfold respondIss at h
  cases hr : respond cfg r approve with
  | localError s e => simp [hr, withIssuer] at h
  | consentPage => simp [hr, withIssuer] at h
  | redirect t0 m0 ps0 =>
    have own := respond_params_own cfg r approve t0 m0 ps0 hr
    have none0 : ps0.filter (fun p => p.1 == "iss") = [] := by
      apply List.filter_eq_nil_iff.mpr
      intro p hp
      have := own p hp
      intro hiss
      have e : p.1 = "iss" := by simpa using hiss
      rw [e] at this
      exact absurd this (by decide)
    have ht : truthy (some issuer) = true := by
      simp only [truthy, Bool.not_eq_true']
      cases he : issuer.isEmpty with
      | false => rfl
      | true => exact absurd (by simpa using he) hi
    rw [hr] at h
    simp only [withIssuer, ht, Bool.true_and] at h
    by_cases hm : m0 = .formPost
    · subst hm
      simp only [bne_self_eq_false, Bool.false_eq_true, if_false] at h
      injection h with _ h2 h3; subst h2; subst h3
      simp [none0]
    · have : (m0 != Mode.formPost) = true := by simpa using hm
      simp only [this, if_true] at h
      injection h with _ h2 h3; subst h2; subst h3
      simp [List.filter_append, none0, hm]

end Props.C05Issuer
