import Model.Jws
import Model.JwsRegistry
import Lemmas.Base64
import Lemmas.Percent
/-
  C01 — JWS: acceptance implies the primitive verified exactly the received signing input and the
  whole received signature; round trip; `none` never verifies; length guards; tamper = forgery;
  general JSON: every signature verified and at least one exists.
-/
namespace Props.C01
open Model Model.Jws

/-! ### splitting lemmas -/

theorem rsplit1_ne_none_of_mem (sep : UInt8) : ∀ r : Bytes, sep ∈ r → rsplit1 sep r ≠ none
  | [], h => by simp at h
  | d :: r, hd => by
    simp only [rsplit1]
    cases hrr : rsplit1 sep r with
    | some p => simp
    | none =>
      simp only [List.mem_cons] at hd
      rcases hd with rfl | hd
      · simp
      · exact absurd hrr (rsplit1_ne_none_of_mem sep r hd)

theorem rsplit1_spec (sep : UInt8) : ∀ (s a g : Bytes), rsplit1 sep s = some (a, g) →
    s = a ++ sep :: g ∧ sep ∉ g
  | [], a, g, h => by simp [rsplit1] at h
  | c :: rest, a, g, h => by
    simp only [rsplit1] at h
    cases hr : rsplit1 sep rest with
    | some p =>
      obtain ⟨a', g'⟩ := p
      simp only [hr] at h
      injection h with h; injection h with h1 h2
      subst h1; subst h2
      have ih := rsplit1_spec sep rest a' g' hr
      exact ⟨by rw [ih.1]; simp, ih.2⟩
    | none =>
      simp only [hr] at h
      by_cases hc : c = sep
      · simp only [hc, if_true] at h
        injection h with h; injection h with h1 h2
        subst h1; subst h2
        refine ⟨by simp [hc], ?_⟩
        intro hmem
        exact rsplit1_ne_none_of_mem sep rest hmem hr
      · simp [hc] at h

theorem rsplit1_none_of_not_mem (sep : UInt8) : ∀ g : Bytes, sep ∉ g → rsplit1 sep g = none
  | [], _ => rfl
  | c :: r, h => by
    simp only [List.mem_cons, not_or] at h
    have ih := rsplit1_none_of_not_mem sep r h.2
    have : c ≠ sep := fun e => h.1 e.symm
    simp [rsplit1, ih, this]

theorem rsplit1_append (sep : UInt8) (g : Bytes) (hg : sep ∉ g) : ∀ a : Bytes,
    rsplit1 sep (a ++ sep :: g) = some (a, g)
  | [] => by simp [rsplit1, rsplit1_none_of_not_mem sep g hg]
  | c :: a => by simp [rsplit1, rsplit1_append sep g hg a]

theorem split1_spec (sep : UInt8) : ∀ (s h p : Bytes), Percent.split1 sep s = (h, some p) →
    s = h ++ sep :: p ∧ sep ∉ h
  | [], h, p, e => by simp [Percent.split1] at e
  | c :: rest, h, p, e => by
    simp only [Percent.split1] at e
    split at e
    · rename_i hc
      injection e with e1 e2
      injection e2 with e2
      subst e1; subst e2; subst hc
      exact ⟨by simp, by simp⟩
    · rename_i hc
      cases hr : Percent.split1 sep rest with
      | mk a b =>
        simp only [hr] at e
        injection e with e1 e2
        subst e1; subst e2
        have ih := split1_spec sep rest a p hr
        refine ⟨by rw [ih.1]; simp, ?_⟩
        simp only [List.mem_cons, not_or]
        exact ⟨fun e => hc e.symm, ih.2⟩

/-! ### base64url output never contains a dot -/

theorem ch_ne_dot : ∀ n : Fin 64, Base64.ch true n.val ≠ 46 := by decide +kernel

theorem dot_not_in_encode : ∀ b : Bytes, (46 : UInt8) ∉ Base64.encode true b
  | [] => by simp [Base64.encode]
  | [a] => by
    have ha := UInt8.toNat_lt a
    simp only [Base64.encode, List.mem_cons, List.mem_nil_iff, or_false, not_or]
    exact ⟨fun e => ch_ne_dot ⟨a.toNat / 4, by omega⟩ e.symm,
           fun e => ch_ne_dot ⟨a.toNat % 4 * 16, by omega⟩ e.symm⟩
  | [a, b] => by
    have ha := UInt8.toNat_lt a
    have hb := UInt8.toNat_lt b
    simp only [Base64.encode, List.mem_cons, List.mem_nil_iff, or_false, not_or]
    exact ⟨fun e => ch_ne_dot ⟨a.toNat / 4, by omega⟩ e.symm,
           fun e => ch_ne_dot ⟨a.toNat % 4 * 16 + b.toNat / 16, by omega⟩ e.symm,
           fun e => ch_ne_dot ⟨b.toNat % 16 * 4, by omega⟩ e.symm⟩
  | a :: b :: d :: rest => by
    have ha := UInt8.toNat_lt a
    have hb := UInt8.toNat_lt b
    have hd := UInt8.toNat_lt d
    have ih := dot_not_in_encode rest
    simp only [Base64.encode, List.mem_cons, not_or]
    exact ⟨fun e => ch_ne_dot ⟨a.toNat / 4, by omega⟩ e.symm,
           fun e => ch_ne_dot ⟨a.toNat % 4 * 16 + b.toNat / 16, by omega⟩ e.symm,
           fun e => ch_ne_dot ⟨b.toNat % 16 * 4 + d.toNat / 64, by omega⟩ e.symm,
           fun e => ch_ne_dot ⟨d.toNat % 64, by omega⟩ e.symm, ih⟩

theorem dot_not_in_urlEncode (b : Bytes) : (46 : UInt8) ∉ Base64.urlEncode b := dot_not_in_encode b

/-! ### acceptance implies primitive verification of exactly what was received -/

theorem prepareAlg_ok (P : Prims) (allowed : Option (List String)) (hdr : Option String) (k : Key) (a : Alg)
    (h : prepareAlg P allowed hdr k = .ok a) :
    ∃ name, hdr = some name ∧ P.registry name = some a ∧ (∀ l, allowed = some l → name ∈ l) ∧
      keyFits a k = true := by
  unfold prepareAlg at h
  cases hdr with
  | none => simp at h
  | some name =>
    simp only at h
    by_cases hal : allowedOk allowed name = true
    · simp only [hal, Bool.not_true, Bool.false_eq_true, if_false] at h
      cases hreg : P.registry name with
      | none => simp [hreg] at h
      | some a' =>
        simp only [hreg] at h
        by_cases hfit : keyFits a' k = true
        · simp only [hfit, if_true] at h
          injection h with h; subst h
          refine ⟨name, rfl, hreg, ?_, hfit⟩
          intro l hl; subst hl
          simpa [allowedOk] using hal
        · simp [hfit] at h
    · have : allowedOk allowed name = false := by simpa using hal
      simp [this] at h

/-- **Core statement (compact).** If `deserialize_compact` returns a verified object then the
    input is `hs.ps.gs` with no dot in `hs` and `gs`, the returned header/payload are the decodings
    of the received segments, the algorithm is the registered, allowed one named by the received
    header, and the primitive accepted the received signing input `hs.ps` with ALL octets of the
    received signature. -/
theorem accept_implies_prim_verified (P : Prims) (allowed : Option (List String)) (s : Bytes) (k : Key)
    (v : Verified) (h : deserializeCompact P allowed s k = .ok v) :
    ∃ hs ps gs sig name a,
      s = hs ++ 46 :: ps ++ 46 :: gs ∧ (46 : UInt8) ∉ hs ∧ (46 : UInt8) ∉ gs ∧
      Base64.urlDecode hs = some v.headerOctets ∧ Base64.urlDecode ps = some v.payload ∧
      Base64.urlDecode gs = some sig ∧
      P.header v.headerOctets = some (some name) ∧ P.registry name = some a ∧
      (∀ l, allowed = some l → name ∈ l) ∧ keyFits a k = true ∧
      verifyAlg P a k (hs ++ 46 :: ps) sig = true := by
  unfold deserializeCompact at h
  cases hr : rsplit1 46 s with
  | none => simp [hr] at h
  | some p1 =>
    obtain ⟨si, gs⟩ := p1
    simp only [hr] at h
    cases hs1 : Percent.split1 46 si with
    | mk hs o =>
      cases o with
      | none => simp [hs1] at h
      | some ps =>
        simp only [hs1] at h
        cases hd1 : Base64.urlDecode hs with
        | none => simp [hd1] at h
        | some hoct =>
          simp only [hd1] at h
          cases hh : P.header hoct with
          | none => simp [hh] at h
          | some algName =>
            simp only [hh] at h
            cases hd2 : Base64.urlDecode ps with
            | none => simp [hd2] at h
            | some payload =>
              simp only [hd2] at h
              cases hd3 : Base64.urlDecode gs with
              | none => simp [hd3] at h
              | some sig =>
                simp only [hd3] at h
                cases hp : prepareAlg P allowed algName k with
                | error e => simp [hp] at h
                | ok a =>
                  simp only [hp] at h
                  split at h
                  · rename_i hv
                    injection h with h; subst h
                    have r1 := rsplit1_spec 46 s si gs hr
                    have r2 := split1_spec 46 si hs ps hs1
                    obtain ⟨name, hn, hreg, hallow, hfit⟩ := prepareAlg_ok P allowed algName k a hp
                    subst hn
                    refine ⟨hs, ps, gs, sig, name, a, ?_, r2.2, r1.2, hd1, hd2, hd3, hh, hreg, hallow, hfit, ?_⟩
                    · rw [r1.1, r2.1]
                    · rw [← r2.1]; exact hv
                  · cases h

/-- `alg: none` is never accepted. -/
theorem none_never_verifies (P : Prims) (allowed : Option (List String)) (s : Bytes) (k : Key)
    (v : Verified) (h : deserializeCompact P allowed s k = .ok v) :
    ∀ name, P.header v.headerOctets = some (some name) → P.registry name ≠ some .none := by
  intro name hn hreg
  obtain ⟨hs, ps, gs, sig, name', a, _, _, _, _, _, _, hh, hr, _, _, hv⟩ :=
    accept_implies_prim_verified P allowed s k v h
  rw [hn] at hh
  injection hh with hh; injection hh with hh; subst hh
  rw [hreg] at hr
  injection hr with hr; subst hr
  simp [verifyAlg] at hv

/-- a MAC of the wrong length is rejected, unconditionally (given the MAC's output length) -/
theorem hmac_sig_length (P : Prims) (bits n : Nat) (hlen : ∀ k m, (P.mac bits k m).length = n)
    (key msg sig : Bytes) (hne : sig.length ≠ n) : verifyAlg P (.hs bits) (.oct key) msg sig = false := by
  simp only [verifyAlg]
  apply Bool.eq_false_iff.mpr
  intro h
  have : sig = P.mac bits key msg := by simpa using h
  rw [this, hlen] at hne
  exact hne rfl

/-- an ECDSA signature that is not exactly `2 * coordinate length` octets is rejected, unconditionally -/
theorem ecdsa_sig_length (P : Prims) (name : String) (len : Nat) (k : Key) (msg sig : Bytes)
    (hne : sig.length ≠ 2 * len) : verifyAlg P (.es name len) k msg sig = false := by
  cases k <;> simp [verifyAlg, hne]

/-- signatures made by the library verify: for HMAC with no assumption at all -/
theorem hs_sig_correct (P : Prims) (bits : Nat) (key msg : Bytes) :
    verifyAlg P (.hs bits) (.oct key) msg (signAlg P (.hs bits) (.oct key) msg) = true := by
  simp [verifyAlg, signAlg]

/-- **Round trip (compact)**, every header, payload, key; `SigCorrect` is the only hypothesis about
    the primitive (and is a theorem for HS*, see `hs_sig_correct`). -/
theorem roundtrip_compact (P : Prims) (allowed : Option (List String)) (a : Alg) (name : String)
    (hjson payload : Bytes) (k : Key)
    (hhdr : P.header hjson = some (some name)) (hreg : P.registry name = some a)
    (hallow : ∀ l, allowed = some l → name ∈ l) (hfit : keyFits a k = true)
    (SigCorrect : ∀ m, verifyAlg P a k m (signAlg P a k m) = true) :
    deserializeCompact P allowed (serializeCompact P a hjson payload k) k = .ok ⟨hjson, payload⟩ := by
  unfold serializeCompact deserializeCompact
  simp only
  rw [rsplit1_append 46 _ (dot_not_in_urlEncode _)]
  simp only
  rw [Percent.split1_append 46 _ _ (dot_not_in_urlEncode hjson)]
  simp only [Base64.urlDecode_urlEncode, hhdr]
  have hp : prepareAlg P allowed (some name) k = .ok a := by
    unfold prepareAlg
    have hal : allowedOk allowed name = true := by
      cases allowed with
      | none => rfl
      | some l => simpa [allowedOk] using hallow l rfl
    simp [hal, hreg, hfit]
  simp [hp, SigCorrect]

/-- **Tamper rejection as a reduction.** If a token is accepted whose signature octets were
    produced (by anybody) for a *different* signing input under the same algorithm and key, the
    pair is an explicit forgery of the primitive; for HS* it is an explicit HMAC collision. -/
theorem tamper_reduces_to_collision (P : Prims) (allowed : Option (List String)) (s : Bytes) (key : Bytes)
    (v : Verified) (h : deserializeCompact P allowed s (.oct key) = .ok v) :
    ∃ hs ps gs sig name a, s = hs ++ 46 :: ps ++ 46 :: gs ∧ P.registry name = some a ∧
      Base64.urlDecode gs = some sig ∧
      ∀ bits, a = .hs bits → ∀ m, sig = P.mac bits key m →
        P.mac bits key (hs ++ 46 :: ps) = P.mac bits key m := by
  obtain ⟨hs, ps, gs, sig, name, a, e, _, _, _, _, hd, _, hr, _, _, hv⟩ :=
    accept_implies_prim_verified P allowed s (.oct key) v h
  refine ⟨hs, ps, gs, sig, name, a, e, hr, hd, ?_⟩
  intro bits ha m hm
  subst ha
  simp only [verifyAlg] at hv
  have : sig = P.mac bits key (hs ++ 46 :: ps) := by simpa using hv
  rw [← this, hm]

/-! ### JSON serializations -/

theorem validateAll_spec (P : Prims) (allowed : Option (List String)) (paySeg : Bytes) (k : Key) :
    ∀ (es : List Entry) (hs : List Bytes) (ok : Bool),
      validateAll P allowed paySeg k es = .ok (hs, ok) →
      hs.length = es.length ∧
      (ok = true → ∀ e ∈ es, ∃ h, validateEntry P allowed paySeg e k = .ok (h, true))
  | [], hs, ok, h => by
    simp only [validateAll] at h
    injection h with h; injection h with h1 h2; subst h1; subst h2
    simp
  | e :: es, hs, ok, h => by
    simp only [validateAll] at h
    cases he : validateEntry P allowed paySeg e k with
    | error err => simp [he] at h
    | ok p =>
      obtain ⟨hh, vv⟩ := p
      simp only [he] at h
      cases hr : validateAll P allowed paySeg k es with
      | error err => simp [hr] at h
      | ok q =>
        obtain ⟨hs', vs⟩ := q
        simp only [hr] at h
        injection h with h; injection h with h1 h2; subst h1; subst h2
        have ih := validateAll_spec P allowed paySeg k es hs' vs hr
        refine ⟨by simp [ih.1], ?_⟩
        intro hok
        have hvv : vv = true := by
          cases vv <;> simp_all
        have hvs : vs = true := by
          cases vs <;> simp_all
        intro e' he'
        rcases List.mem_cons.mp he' with rfl | hm
        · exact ⟨hh, by rw [he, hvv]⟩
        · exact ih.2 hvs e' hm

/-- what a successfully validated entry means -/
theorem validateEntry_true (P : Prims) (allowed : Option (List String)) (paySeg : Bytes) (e : Entry)
    (k : Key) (h : Bytes) (hv : validateEntry P allowed paySeg e k = .ok (h, true)) :
    ∃ protSeg sigSeg sig name a, e.protectedSeg = some protSeg ∧ e.signatureSeg = some sigSeg ∧
      Base64.urlDecode protSeg = some h ∧ Base64.urlDecode sigSeg = some sig ∧
      P.header h = some (some name) ∧ P.registry name = some a ∧ keyFits a k = true ∧
      verifyAlg P a k (protSeg ++ 46 :: paySeg) sig = true := by
  unfold validateEntry at hv
  cases hp : e.protectedSeg with
  | none => simp [hp] at hv
  | some protSeg =>
    simp only [hp] at hv
    split at hv
    · cases hv
    · cases hs : e.signatureSeg with
      | none => simp [hs] at hv
      | some sigSeg =>
        simp only [hs] at hv
        split at hv
        · cases hv
        · cases hd : Base64.urlDecode protSeg with
          | none => simp [hd] at hv
          | some h' =>
            simp only [hd] at hv
            cases hh : P.header h' with
            | none => simp [hh] at hv
            | some algName =>
              simp only [hh] at hv
              cases hpa : prepareAlg P allowed algName k with
              | error err => simp [hpa] at hv
              | ok a =>
                simp only [hpa] at hv
                cases hd2 : Base64.urlDecode sigSeg with
                | none => simp [hd2] at hv
                | some sig =>
                  simp only [hd2] at hv
                  injection hv with hv; injection hv with h1 h2
                  subst h1
                  obtain ⟨name, hn, hreg, _, hfit⟩ := prepareAlg_ok P allowed algName k a hpa
                  subst hn
                  exact ⟨protSeg, sigSeg, sig, name, a, rfl, rfl, hd, hd2, hh, hreg, hfit, h2⟩

/-- **General JSON: accepted only if EVERY signature verifies, and there is at least one.** -/
theorem general_all_signatures (P : Prims) (allowed : Option (List String)) (ps : Option Bytes)
    (es : List Entry) (k : Key) (v : VerifiedJson)
    (h : deserializeJson P allowed (.general ps es) k = .ok v) :
    es ≠ [] ∧ ∃ paySeg, ps = some paySeg ∧ Base64.urlDecode paySeg = some v.payload ∧
      v.headers.length = es.length ∧
      ∀ e ∈ es, ∃ hd, validateEntry P allowed paySeg e k = .ok (hd, true) := by
  unfold deserializeJson at h
  cases ps with
  | none => simp at h
  | some paySeg =>
    simp only at h
    cases hd : Base64.urlDecode paySeg with
    | none => simp [hd] at h
    | some payload =>
      simp only [hd] at h
      split at h
      · cases h
      · rename_i hne
        cases hr : validateAll P allowed paySeg k es with
        | error err => simp [hr] at h
        | ok q =>
          obtain ⟨hs, ok⟩ := q
          simp only [hr] at h
          cases ok with
          | false => simp at h
          | true =>
            simp only at h
            injection h with h; subst h
            have sp := validateAll_spec P allowed paySeg k es hs true hr
            exact ⟨by simpa using hne, paySeg, rfl, hd, sp.1, sp.2 rfl⟩

/-- flattened JSON: accepted only if its one signature verifies -/
theorem flat_signature_verified (P : Prims) (allowed : Option (List String)) (ps : Option Bytes)
    (e : Entry) (k : Key) (v : VerifiedJson) (h : deserializeJson P allowed (.flat ps e) k = .ok v) :
    ∃ paySeg hd, ps = some paySeg ∧ Base64.urlDecode paySeg = some v.payload ∧ v.headers = [hd] ∧
      validateEntry P allowed paySeg e k = .ok (hd, true) := by
  unfold deserializeJson at h
  cases ps with
  | none => simp at h
  | some paySeg =>
    simp only at h
    cases hd : Base64.urlDecode paySeg with
    | none => simp [hd] at h
    | some payload =>
      simp only [hd] at h
      cases he : validateEntry P allowed paySeg e k with
      | error err => simp [he] at h
      | ok q =>
        obtain ⟨hh, ok⟩ := q
        simp only [he] at h
        cases ok with
        | false => simp at h
        | true =>
          simp only at h
          injection h with h; subst h
          exact ⟨paySeg, hh, rfl, hd, rfl, he⟩

end Props.C01

/-! ### facts about the registry regenerated from the code (re-checked on every run) -/
namespace Props.C01
open Model.Jws

/-- the only registered name implemented by the never-verifying algorithm is `none` … -/
theorem registry_none_only_none :
    ∀ e ∈ Generated.Jose.jwsRegistry, algOf e = some .none → e.1 = "none" := by decide +kernel

/-- … every registered entry is understood by the model (no unknown implementing class) … -/
theorem registry_all_modelled : ∀ e ∈ Generated.Jose.jwsRegistry, (algOf e).isSome = true := by
  decide +kernel

/-- … and the registry is exactly RFC 7518 §3.1 + RFC 8037 + RFC 8812 with the RFC's parameters
    (hash sizes, curves, ECDSA coordinate lengths 32 / 48 / 66 / 32). -/
theorem registry_eq_rfc :
    Generated.Jose.jwsRegistry.map (fun e => (e.1, algOf e)) =
      [("none", some .none), ("HS256", some (.hs 256)), ("HS384", some (.hs 384)), ("HS512", some (.hs 512)),
       ("RS256", some (.rs 256)), ("RS384", some (.rs 384)), ("RS512", some (.rs 512)),
       ("ES256", some (.es "P-256" 32)), ("ES384", some (.es "P-384" 48)), ("ES512", some (.es "P-521" 66)),
       ("ES256K", some (.es "secp256k1" 32)),
       ("PS256", some (.ps 256)), ("PS384", some (.ps 384)), ("PS512", some (.ps 512)), ("EdDSA", some .eddsa)] := by
  decide +kernel

end Props.C01
