import Model.Metadata
import Props.C18Reg
/-
  C18 (metadata part) — `validate()` accepts a document iff it satisfies the listed rules of
  RFC 8414 / OpenID Connect Discovery.

  `clause k d` is the rule the statement attaches to member k, written over declarative notions
  (present, https URL, array, advertised JWT methods …).  The equivalence is proved per member and
  lifted to ANY registry key list, hence to the regenerated REGISTRY_KEYS of both classes.

  Guards of the `_partial` theorems (each with a witness outside it):
  * ScalarLists — arrays contain no objects / arrays (Python's set() raises TypeError on them);
  * ListTyped   — grant_types_supported and the three *_auth_methods_supported members are arrays when given;
  * NoLoopbackHttp — no URL member starts with "http://localhost:" (is_secure_transport accepts it; RFC 8414 says https).
-/
namespace Props.C18
open Model.Metadata Model.Url

/-! ### the rules -/

def httpsStr (v : V) : Bool := match v with | .a (.str s) => isHttps s.toList | _ => false
def urlStr (v : V) : Bool := match v with | .a (.str s) => isValidUrl s.toList true | _ => false
def arrayOrAbsent (v : V) : Bool := v.isNull || v.isList
def listOf (v : V) (dflt : List A) : List A := match v with | .l xs => xs | _ => dflt
def codeOrImplicit (xs : List A) : Bool := mem (.str "authorization_code") xs || mem (.str "implicit") xs

/-- issuer: present, an https URL, no query, no fragment -/
def issuerRule (d : Doc) : Bool :=
  match mget d "issuer" with
  | .a (.str s) => s != "" && isHttps s.toList && (urlsplit s.toList).query.isEmpty && (urlsplit s.toList).fragment.isEmpty
  | _ => false

/-- authorization_endpoint: https when present; required when a grant type uses it (default: code, implicit) -/
def authorizationEndpointRule (d : Doc) : Bool :=
  let v := mget d "authorization_endpoint"
  if v.truthy then httpsStr v
  else !codeOrImplicit (listOf (getD d "grant_types_supported" (strs ["authorization_code", "implicit"])) [])

/-- token_endpoint: required and https unless only the implicit grant is supported -/
def tokenEndpointRule (d : Doc) : Bool :=
  (match mget d "grant_types_supported" with
   | .l [x] => x.pyEq (.str "implicit")
   | _ => false) ||
  ((mget d "token_endpoint").truthy && httpsStr (mget d "token_endpoint"))

def optionalHttpsRule (d : Doc) (k : String) : Bool := !(mget d k).truthy || httpsStr (mget d k)
def optionalUrlRule (d : Doc) (k : String) : Bool := !(mget d k).truthy || urlStr (mget d k)
def arrayRule (d : Doc) (k : String) : Bool := arrayOrAbsent (mget d k)
def responseTypesRule (d : Doc) : Bool := match mget d "response_types_supported" with | .l xs => !xs.isEmpty | _ => false

/-- signing-algorithm list: an array when given, present (non-empty) when JWT client authentication is
    advertised (default method list: client_secret_basic), never containing "none" -/
def algRule (d : Doc) (k methodsKey : String) : Bool :=
  arrayOrAbsent (mget d k) &&
  (!jwtMethods (listOf (getD d methodsKey (strs ["client_secret_basic"])) []) || (mget d k).truthy) &&
  !mem (.str "none") (listOf (mget d k) [])

def enumRule (d : Doc) (k : String) (allowed : List String) : Bool :=
  match mget d k with
  | .a .null => true
  | .l xs => subsetOf allowed xs
  | _ => false

def booleanRule (d : Doc) (k : String) : Bool :=
  match d.lookup k with
  | none => true
  | some (.a x) => x.pyEq (.bool true) || x.pyEq (.bool false)
  | some (.l _) => false

def jwksUriRuleOP (d : Doc) : Bool := (mget d "jwks_uri").truthy && httpsStr (mget d "jwks_uri")
def subjectTypesRule (d : Doc) : Bool := match mget d "subject_types_supported" with | .l xs => subsetOf ["pairwise", "public"] xs | _ => false
def idTokenAlgsRule (d : Doc) : Bool := match mget d "id_token_signing_alg_values_supported" with | .l xs => mem (.str "RS256") xs | _ => false

/-- the rule attached to member `k` -/
def clause (op : Bool) (k : String) (d : Doc) : Bool :=
  if k == "issuer" then issuerRule d
  else if k == "authorization_endpoint" then authorizationEndpointRule d
  else if k == "token_endpoint" then tokenEndpointRule d
  else if k == "jwks_uri" then (if op then jwksUriRuleOP d else optionalHttpsRule d k)
  else if k == "response_types_supported" then responseTypesRule d
  else if k == "subject_types_supported" then subjectTypesRule d
  else if k == "id_token_signing_alg_values_supported" then idTokenAlgsRule d
  else if k == "display_values_supported" then enumRule d k ["page", "popup", "touch", "wap"]
  else if k == "claim_types_supported" then enumRule d k ["normal", "aggregated", "distributed"]
  else if httpsKeys.contains k then optionalHttpsRule d k
  else if urlKeys.contains k then optionalUrlRule d k
  else if boolKeys.contains k then booleanRule d k
  else match algKeys.lookup k with
    | some mk => algRule d k mk
    | none => if arrayKeys.contains k then arrayRule d k else false

def conforms (op : Bool) (keys : List String) (d : Doc) : Bool := keys.all fun k => clause op k d

/-! ### guards -/

def ScalarLists (d : Doc) : Prop := ∀ k xs, d.lookup k = some (.l xs) → xs.all A.hashable = true
def ListTyped (d : Doc) : Prop :=
  ∀ k, k ∈ ["grant_types_supported", "token_endpoint_auth_methods_supported", "revocation_endpoint_auth_methods_supported",
            "introspection_endpoint_auth_methods_supported"] → d.lookup k = none ∨ ∃ xs, d.lookup k = some (.l xs)
def NoLoopbackHttp (d : Doc) : Prop := ∀ k s, d.lookup k = some (.a (.str s)) → isSecureTransport s.toList = isHttps s.toList

theorem get_list (d : Doc) (k : String) (xs : List A) (h : mget d k = .l xs) : d.lookup k = some (.l xs) := by
  unfold mget at h
  cases hl : d.lookup k with
  | none => simp [hl] at h
  | some v => simp [hl] at h; rw [h]

theorem get_str (d : Doc) (k : String) (s : String) (h : mget d k = .a (.str s)) : d.lookup k = some (.a (.str s)) := by
  unfold mget at h
  cases hl : d.lookup k with
  | none => simp [hl] at h
  | some v => simp [hl] at h; rw [h]

/-! ### per-member equivalences -/

theorem secureStr_ok (v : V) (p : List Char → Bool) (m : String) :
    secureStr v p m = .ok ↔ ∃ s, v = .a (.str s) ∧ p s.toList = true := by
  unfold secureStr
  cases v with
  | l xs => simp
  | a x =>
    cases x with
    | str s => by_cases h : p s.toList = true <;> simp [h]
    | _ => simp

theorem optionalHttps_iff (d : Doc) (k : String) (hl : NoLoopbackHttp d) :
    optionalHttps d k = .ok ↔ optionalHttpsRule d k = true := by
  unfold optionalHttps optionalHttpsRule
  by_cases ht : (mget d k).truthy = true
  · simp only [ht, if_true, Bool.not_true, Bool.false_or]
    rw [secureStr_ok]
    constructor
    · rintro ⟨s, hs, hp⟩
      rw [hs]; simp only [httpsStr]
      rw [← hl k s (get_str d k s hs)]; exact hp
    · intro h
      cases hv : mget d k with
      | l xs => simp [hv, httpsStr] at h
      | a x =>
        cases x <;> simp [hv, httpsStr] at h
        rename_i s
        exact ⟨s, rfl, by rw [hl k s (get_str d k s hv)]; exact h⟩
  · simp [ht]

theorem optionalUrl_iff (d : Doc) (k : String) : optionalUrl d k = .ok ↔ optionalUrlRule d k = true := by
  unfold optionalUrl optionalUrlRule
  by_cases ht : (mget d k).truthy = true
  · simp only [ht, if_true, Bool.not_true, Bool.false_or]
    rw [secureStr_ok]
    constructor
    · rintro ⟨s, hs, hp⟩; rw [hs]; exact hp
    · intro h
      cases hv : mget d k with
      | l xs => simp [hv, urlStr] at h
      | a x =>
        cases x <;> simp [hv, urlStr] at h
        rename_i s
        exact ⟨s, rfl, h⟩
  · simp [ht]

theorem arrayValue_iff (d : Doc) (k : String) : arrayValue d k = .ok ↔ arrayRule d k = true := by
  unfold arrayValue arrayRule arrayOrAbsent
  cases h1 : (mget d k).isNull <;> cases h2 : (mget d k).isList <;> simp [h1, h2]

theorem issuer_iff (d : Doc) (hl : NoLoopbackHttp d) : validateIssuer d = .ok ↔ issuerRule d = true := by
  unfold validateIssuer issuerRule
  cases hv : mget d "issuer" with
  | l xs => cases xs <;> simp [V.truthy]
  | a x =>
    cases x with
    | str s =>
      have hsec := hl "issuer" s (get_str d _ s hv)
      simp only [V.truthy, A.truthy, hsec]
      by_cases hs : s = ""
      · subst hs; simp
      · have hs' : (s != "") = true := by simpa using hs
        simp only [hs', Bool.not_true, Bool.false_eq_true, if_false, Bool.true_and]
        by_cases h1 : isHttps s.toList = true
        · simp only [h1, Bool.not_true, Bool.false_eq_true, if_false, Bool.true_and]
          by_cases h2 : (urlsplit s.toList).query.isEmpty = true <;> by_cases h3 : (urlsplit s.toList).fragment.isEmpty = true <;> simp [h2, h3]
        · simp [h1]
    | null => simp [V.truthy, A.truthy]
    | bool b => cases b <;> simp [V.truthy, A.truthy]
    | num n => by_cases h : n = 0 <;> simp [V.truthy, A.truthy, h]
    | obj ks => cases ks <;> simp [V.truthy, A.truthy]
    | lst e => cases e <;> simp [V.truthy, A.truthy]

theorem responseTypes_iff (d : Doc) : validateResponseTypes d = .ok ↔ responseTypesRule d = true := by
  unfold validateResponseTypes responseTypesRule
  cases hv : mget d "response_types_supported" with
  | l xs => cases xs <;> simp [V.truthy, V.isList]
  | a x =>
    by_cases ht : x.truthy = true <;> simp [V.truthy, V.isList, ht]

theorem getD_list_or_default (d : Doc) (k : String) (dflt : List String) (hk : d.lookup k = none ∨ ∃ xs, d.lookup k = some (.l xs)) :
    ∃ xs, getD d k (strs dflt) = .l xs ∧ (d.lookup k = some (.l xs) ∨ (d.lookup k = none ∧ xs = dflt.map A.str)) := by
  rcases hk with h | ⟨xs, h⟩
  · exact ⟨dflt.map A.str, by simp [getD, h, strs], Or.inr ⟨h, rfl⟩⟩
  · exact ⟨xs, by simp [getD, h], Or.inl h⟩

theorem strs_hashable (l : List String) : (l.map A.str).all A.hashable = true := by
  induction l with
  | nil => rfl
  | cons a r ih => simp [A.hashable, ih]

theorem authorizationEndpoint_iff (d : Doc) (hs : ScalarLists d) (ht : ListTyped d) (hl : NoLoopbackHttp d) :
    validateAuthorizationEndpoint d = .ok ↔ authorizationEndpointRule d = true := by
  unfold validateAuthorizationEndpoint authorizationEndpointRule
  by_cases htr : (mget d "authorization_endpoint").truthy = true
  · simp only [htr, if_true]
    have := optionalHttps_iff d "authorization_endpoint" hl
    simp only [optionalHttps, optionalHttpsRule, htr, if_true, Bool.not_true, Bool.false_or] at this
    rw [secureStr_ok] at this ⊢
    exact this
  · simp only [htr, Bool.false_eq_true, if_false]
    obtain ⟨xs, hx, hsrc⟩ := getD_list_or_default d "grant_types_supported" ["authorization_code", "implicit"] (ht _ (by simp))
    have hh : xs.all A.hashable = true := by
      rcases hsrc with h | ⟨_, rfl⟩
      · exact hs _ xs h
      · exact strs_hashable _
    simp only [hx, pySet, hh, if_true, listOf, codeOrImplicit]
    by_cases hm : (mem (.str "authorization_code") xs || mem (.str "implicit") xs) = true <;> simp [hm]

theorem tokenEndpointUrl_iff (d : Doc) (hl : NoLoopbackHttp d) :
    tokenEndpointUrl d = .ok ↔ ((mget d "token_endpoint").truthy && httpsStr (mget d "token_endpoint")) = true := by
  unfold tokenEndpointUrl
  by_cases htr : (mget d "token_endpoint").truthy = true
  · have := optionalHttps_iff d "token_endpoint" hl
    simp only [optionalHttps, optionalHttpsRule, htr, if_true, Bool.not_true, Bool.false_or] at this
    simp only [htr, Bool.not_true, Bool.false_eq_true, if_false, Bool.true_and]
    exact this
  · simp [htr]

theorem tokenEndpoint_iff (d : Doc) (ht : ListTyped d) (hl : NoLoopbackHttp d) :
    validateTokenEndpoint d = .ok ↔ tokenEndpointRule d = true := by
  unfold validateTokenEndpoint tokenEndpointRule
  have hu := tokenEndpointUrl_iff d hl
  rcases ht "grant_types_supported" (by simp) with h | ⟨xs, h⟩
  · have hg : mget d "grant_types_supported" = .a .null := by simp [mget, h]
    rw [hg]
    simpa [V.truthy, A.truthy] using hu
  · have hg : mget d "grant_types_supported" = .l xs := by simp [mget, h]
    rw [hg]
    cases xs with
    | nil => simpa [V.truthy] using hu
    | cons x r =>
      cases r with
      | nil =>
        by_cases hx : x.pyEq (.str "implicit") = true
        · simp [V.truthy, pyLen, hx]
        · simpa [V.truthy, pyLen, hx] using hu
      | cons y r' => simpa [V.truthy, pyLen] using hu

theorem algValues_iff (d : Doc) (k mk : String) (hs : ScalarLists d)
    (hmk : d.lookup mk = none ∨ ∃ xs, d.lookup mk = some (.l xs)) :
    algValues d k mk = .ok ↔ algRule d k mk = true := by
  unfold algValues algRule
  obtain ⟨ms, hx, hsrc⟩ := getD_list_or_default d mk ["client_secret_basic"] hmk
  have hh : ms.all A.hashable = true := by
    rcases hsrc with h | ⟨_, rfl⟩
    · exact hs _ ms h
    · exact strs_hashable _
  simp only [hx, pySet, hh, if_true, listOf]
  cases hv : mget d k with
  | l xs =>
    simp only [V.isNull, V.isList, arrayOrAbsent, Bool.not_true, Bool.and_false, Bool.false_eq_true, if_false, Bool.or_true, Bool.true_and]
    cases xs with
    | nil => by_cases hj : jwtMethods ms = true <;> simp [V.truthy, hj, mem]
    | cons x r => by_cases hm : mem (.str "none") (x :: r) = true <;> simp [V.truthy, hm]
  | a x =>
    cases x with
    | null => by_cases hj : jwtMethods ms = true <;> simp [V.isNull, V.isList, arrayOrAbsent, V.truthy, A.truthy, hj, mem]
    | _ => simp [V.isNull, V.isList, arrayOrAbsent]

theorem enumArray_iff (d : Doc) (k : String) (allowed : List String) (hs : ScalarLists d) :
    enumArray d k allowed = .ok ↔ enumRule d k allowed = true := by
  unfold enumArray enumRule
  cases hv : mget d k with
  | l xs =>
    have := hs k xs (get_list d k xs hv)
    simp only [V.isNull, Bool.false_eq_true, if_false, this, Bool.not_true]
    by_cases h : subsetOf allowed xs = true <;> simp [h]
  | a x => cases x <;> simp [V.isNull]

theorem booleanValue_iff (d : Doc) (k : String) : booleanValue d k = .ok ↔ booleanRule d k = true := by
  unfold booleanValue booleanRule
  cases d.lookup k with
  | none => simp
  | some v =>
    cases v with
    | l xs => simp
    | a x => by_cases h : (x.pyEq (.bool true) || x.pyEq (.bool false)) = true <;> simp [h]

theorem jwksUriOP_iff (d : Doc) (hl : NoLoopbackHttp d) : validateJwksUriOP d = .ok ↔ jwksUriRuleOP d = true := by
  unfold validateJwksUriOP jwksUriRuleOP
  by_cases ht : (mget d "jwks_uri").truthy = true
  · have := optionalHttps_iff d "jwks_uri" hl
    simp only [optionalHttpsRule, ht, Bool.not_true, Bool.false_or] at this
    simpa [ht] using this
  · simp [ht]

theorem subjectTypes_iff (d : Doc) (hs : ScalarLists d) : validateSubjectTypes d = .ok ↔ subjectTypesRule d = true := by
  unfold validateSubjectTypes subjectTypesRule
  cases hv : mget d "subject_types_supported" with
  | l xs =>
    have := hs _ xs (get_list d _ xs hv)
    simp only [V.isNull, Bool.false_eq_true, if_false, this, Bool.not_true]
    by_cases h : subsetOf ["pairwise", "public"] xs = true <;> simp [h]
  | a x => cases x <;> simp [V.isNull]

theorem idTokenAlgs_iff (d : Doc) : validateIdTokenAlgs d = .ok ↔ idTokenAlgsRule d = true := by
  unfold validateIdTokenAlgs idTokenAlgsRule
  cases hv : mget d "id_token_signing_alg_values_supported" with
  | l xs => by_cases h : mem (.str "RS256") xs = true <;> simp [V.isNull, h]
  | a x => cases x <;> simp [V.isNull]

theorem algKeys_methods_typed (d : Doc) (ht : ListTyped d) (k mk : String) (h : algKeys.lookup k = some mk) :
    d.lookup mk = none ∨ ∃ xs, d.lookup mk = some (.l xs) := by
  have : mk ∈ ["token_endpoint_auth_methods_supported", "revocation_endpoint_auth_methods_supported", "introspection_endpoint_auth_methods_supported"] := by
    simp only [algKeys, List.lookup] at h
    repeat' split at h
    all_goals first | (injection h with h; subst h; simp) | cases h
  apply ht
  simp only [List.mem_cons, List.mem_nil_iff, or_false] at this ⊢
  rcases this with h | h | h <;> simp [h]

/-- the validator of member k accepts iff the rule of member k holds -/
theorem validator_ok_iff_clause (op : Bool) (k : String) (d : Doc) (hs : ScalarLists d) (ht : ListTyped d) (hl : NoLoopbackHttp d) :
    validator op k d = .ok ↔ clause op k d = true := by
  unfold validator clause
  by_cases h0 : (k == "issuer") = true
  · simp only [h0, if_true]
    exact issuer_iff d hl
  simp only [h0, Bool.false_eq_true, if_false]
  by_cases h1 : (k == "authorization_endpoint") = true
  · simp only [h1, if_true]
    exact authorizationEndpoint_iff d hs ht hl
  simp only [h1, Bool.false_eq_true, if_false]
  by_cases h2 : (k == "token_endpoint") = true
  · simp only [h2, if_true]
    exact tokenEndpoint_iff d ht hl
  simp only [h2, Bool.false_eq_true, if_false]
  by_cases h3 : (k == "jwks_uri") = true
  · simp only [h3, if_true]
    cases op
    · simpa using optionalHttps_iff d k hl
    · simpa using jwksUriOP_iff d hl
  simp only [h3, Bool.false_eq_true, if_false]
  by_cases h4 : (k == "response_types_supported") = true
  · simp only [h4, if_true]
    exact responseTypes_iff d
  simp only [h4, Bool.false_eq_true, if_false]
  by_cases h5 : (k == "subject_types_supported") = true
  · simp only [h5, if_true]
    exact subjectTypes_iff d hs
  simp only [h5, Bool.false_eq_true, if_false]
  by_cases h6 : (k == "id_token_signing_alg_values_supported") = true
  · simp only [h6, if_true]
    exact idTokenAlgs_iff d
  simp only [h6, Bool.false_eq_true, if_false]
  by_cases h7 : (k == "display_values_supported") = true
  · simp only [h7, if_true]
    exact enumArray_iff d k _ hs
  simp only [h7, Bool.false_eq_true, if_false]
  by_cases h8 : (k == "claim_types_supported") = true
  · simp only [h8, if_true]
    exact enumArray_iff d k _ hs
  simp only [h8, Bool.false_eq_true, if_false]
  by_cases h9 : (httpsKeys.contains k) = true
  · simp only [h9, if_true]
    exact optionalHttps_iff d k hl
  simp only [h9, Bool.false_eq_true, if_false]
  by_cases h10 : (urlKeys.contains k) = true
  · simp only [h10, if_true]
    exact optionalUrl_iff d k
  simp only [h10, Bool.false_eq_true, if_false]
  by_cases h11 : (boolKeys.contains k) = true
  · simp only [h11, if_true]
    exact booleanValue_iff d k
  simp only [h11, Bool.false_eq_true, if_false]
  cases hk : algKeys.lookup k with
  | some mk => simpa using algValues_iff d k mk hs (algKeys_methods_typed d ht k mk hk)
  | none =>
    simp only
    by_cases ha : (arrayKeys.contains k) = true
    · simp only [ha, if_true]; exact arrayValue_iff d k
    · have ha' : k ∉ arrayKeys := by simpa using ha
      simp [ha']

theorem runValidators_ok_iff (op : Bool) (d : Doc) (ks : List String) :
    runValidators op d ks = .ok ↔ ∀ k ∈ ks, validator op k d = .ok := by
  induction ks with
  | nil => simp [runValidators]
  | cons k r ih =>
    simp only [runValidators, List.mem_cons, forall_eq_or_imp]
    cases hv : validator op k d with
    | ok => simpa using ih
    | err m => simp
    | crash e => simp

/-- **validate() accepts iff the rules hold**, for any registry key list -/
theorem validate_ok_iff_conforms_partial (op : Bool) (ks : List String) (d : Doc)
    (hs : ScalarLists d) (ht : ListTyped d) (hl : NoLoopbackHttp d) :
    runValidators op d ks = .ok ↔ conforms op ks d = true := by
  rw [runValidators_ok_iff]
  simp only [conforms, List.all_eq_true]
  constructor
  · intro h k hk; exact (validator_ok_iff_clause op k d hs ht hl).mp (h k hk)
  · intro h k hk; exact (validator_ok_iff_clause op k d hs ht hl).mpr (h k hk)

/-- … in particular for the REGISTRY_KEYS of the current classes -/
theorem as_metadata_valid_iff_rules_partial (d : Doc) (hs : ScalarLists d) (ht : ListTyped d) (hl : NoLoopbackHttp d) :
    validateAS d = .ok ↔ conforms false Generated.Metadata.asRegistryKeys d = true :=
  validate_ok_iff_conforms_partial false _ d hs ht hl

theorem op_metadata_valid_iff_rules_partial (d : Doc) (hs : ScalarLists d) (ht : ListTyped d) (hl : NoLoopbackHttp d) :
    validateOP d = .ok ↔ conforms true Generated.Metadata.opRegistryKeys d = true :=
  validate_ok_iff_conforms_partial true _ d hs ht hl

/-- every regenerated registry key has a rule (no member is validated by nothing) -/
theorem every_registry_key_has_a_validator :
    (Generated.Metadata.asRegistryKeys ++ Generated.Metadata.opRegistryKeys).all
      (fun k => validator true k [] != .crash "no-validator") = true := by decide +kernel

/-! ### outside NoLoopbackHttp: the negation witness -/

def loopbackDoc : Doc :=
  [("issuer", .a (.str "http://localhost:8080/as")), ("authorization_endpoint", .a (.str "https://as.example/authorize")),
   ("token_endpoint", .a (.str "https://as.example/token")), ("response_types_supported", .l [.str "code"])]

/-- is_secure_transport accepts http://localhost: — the document is accepted although its issuer is not on https -/
theorem loopback_http_issuer_accepted :
    validateAS loopbackDoc = .ok ∧ conforms false Generated.Metadata.asRegistryKeys loopbackDoc = false := by decide +kernel

/-- non-vacuity: a full document satisfies the guards and is accepted -/
def goodDoc : Doc :=
  [("issuer", .a (.str "https://as.example")), ("authorization_endpoint", .a (.str "https://as.example/authorize")),
   ("token_endpoint", .a (.str "https://as.example/token")), ("response_types_supported", .l [.str "code"]),
   ("token_endpoint_auth_methods_supported", .l [.str "private_key_jwt"]), ("token_endpoint_auth_signing_alg_values_supported", .l [.str "RS256"])]
example : validateAS goodDoc = .ok ∧ conforms false Generated.Metadata.asRegistryKeys goodDoc = true := by decide +kernel
example : validateAS (goodDoc ++ [("jwks_uri", .a (.str "http://as.example/jwks"))]) ≠ .ok := by decide +kernel

end Props.C18
