import Model.ClientState
/-
  C14 — the callback is bound to the session that started the flow (session storage), for every
  history of begin / callback / clock operations over any number of sessions and providers.

  Cache storage: the binding does NOT hold (`cache_mode_foreign_session_completes`, a concrete
  two-step history); the theorems below carry the hypothesis `cacheMode = false` and are therefore
  labelled `…_partial` where the property statement itself says "with or without a shared cache".
-/
namespace Props.C14
open Model.ClientState

theorem find_mem {α} (p : α → Bool) : ∀ (l : List α) (x : α), l.find? p = some x → x ∈ l ∧ p x = true := by
  intro l
  induction l with
  | nil => intro x h; cases h
  | cons a r ih =>
    intro x h
    simp only [List.find?_cons] at h
    split at h
    · injection h with h; subst h; exact ⟨List.mem_cons_self, by assumption⟩
    · have := ih x h; exact ⟨List.mem_cons_of_mem _ this.1, this.2⟩

/-! ### step level -/

/-- a callback that goes on to the token endpoint found its state entry in the session it arrived
    with, and sends exactly the data saved there -/
theorem callback_proceeds_implies_own_entry_partial (w : World) (hc : w.cacheMode = false) (i : Nat) (n : String)
    (st : Option String) (d : Data) (h : (step w (.callback i n st)).2 = .proceeds d) :
    ∃ e ∈ w.sessions i, e.key = keyOf n st ∧ e.data = d := by
  simp only [step, hc, Bool.false_eq_true, if_false] at h
  cases hf : (w.sessions i).find? (fun e => e.key == keyOf n st) with
  | none => simp [hf] at h
  | some e =>
    simp only [hf] at h
    obtain ⟨hm, hk⟩ := find_mem _ _ _ hf
    injection h with h
    exact ⟨e, hm, by simpa using hk, h⟩

/-- every other callback — unknown, consumed, foreign-session, other provider's, missing or garbage
    state — is a state mismatch; `Out.mismatch` carries no request: nothing is sent to the provider -/
theorem callback_without_entry_is_mismatch_partial (w : World) (hc : w.cacheMode = false) (i : Nat) (n : String)
    (st : Option String) (h : ∀ e ∈ w.sessions i, e.key ≠ keyOf n st) :
    (step w (.callback i n st)).2 = .mismatch := by
  simp only [step, hc, Bool.false_eq_true, if_false]
  cases hf : (w.sessions i).find? (fun e => e.key == keyOf n st) with
  | none => rfl
  | some e =>
    obtain ⟨hm, hk⟩ := find_mem _ _ _ hf
    exact absurd (by simpa using hk) (h e hm)

/-- the sessions after a callback: the arriving session lost the entry and its expired entries — or (OAuth 1 apps,
    unknown request token) nothing changed and the session held no entry for the key -/
theorem callback_sessions (w : World) (hc : w.cacheMode = false) (i : Nat) (n : String) (st : Option String) :
    (step w (.callback i n st)).1.sessions
        = (setSession w i (purge w.now ((w.sessions i).filter fun e => e.key != keyOf n st))).sessions
    ∨ ((w.sessions i).find? (fun e => e.key == keyOf n st) = none ∧ (step w (.callback i n st)).1.sessions = w.sessions) := by
  simp only [step, hc, Bool.false_eq_true, if_false]
  cases hf : (w.sessions i).find? (fun e => e.key == keyOf n st) with
  | some e => exact Or.inl rfl
  | none =>
    by_cases ho : w.oauth1 = true
    · exact Or.inr ⟨rfl, by simp [ho]⟩
    · exact Or.inl (by simp [ho])

theorem find_none_key {k : String} : ∀ (l : List Entry), l.find? (fun e => e.key == k) = none → ∀ e ∈ l, e.key ≠ k := by
  intro l h e he
  have := List.find?_eq_none.mp h e he
  simpa using this

/-- the entry is consumed by the callback, whatever its outcome -/
theorem callback_consumes_partial (w : World) (hc : w.cacheMode = false) (i : Nat) (n : String) (st : Option String) :
    ∀ e ∈ (step w (.callback i n st)).1.sessions i, e.key ≠ keyOf n st := by
  intro e he
  rcases callback_sessions w hc i n st with h | ⟨hf, h⟩
  · rw [h] at he
    have : e ∈ purge w.now ((w.sessions i).filter fun e => e.key != keyOf n st) := by simpa [setSession] using he
    have := (List.mem_filter.mp (List.mem_filter.mp this).1).2
    simpa using this
  · rw [h] at he
    exact find_none_key _ hf e he

/-- operations in one session never touch another session's entries -/
theorem other_sessions_untouched_partial (w : World) (hc : w.cacheMode = false) (op : Op) (j : Nat)
    (hj : match op with | .begin i .. => i ≠ j | .callback i .. => i ≠ j | .advance _ => True) :
    (step w op).1.sessions j = w.sessions j := by
  cases op with
  | begin i n s d =>
    simp only at hj
    simp only [step, hc, Bool.false_eq_true, if_false, setSession, fun h : j = i => hj h.symm]
    rw [if_neg (fun h : j = i => hj h.symm)]
  | callback i n st =>
    simp only at hj
    rcases callback_sessions w hc i n st with h | ⟨_, h⟩
    · rw [h]; simp only [setSession]; rw [if_neg (fun h : j = i => hj h.symm)]
    · rw [h]
  | advance dt => rfl

theorem cacheMode_const (w : World) (op : Op) : (step w op).1.cacheMode = w.cacheMode := by
  cases op with
  | begin i n s d => simp only [step]; split <;> rfl
  | callback i n st =>
    simp only [step]
    split
    · split <;> rfl
    · split
      · rfl
      · split <;> rfl
  | advance dt => rfl

/-! ### every history -/

/-- every entry in a session was put there by a begin operation of that same session, with that data -/
def Owned (hist : List Op) (w : World) : Prop :=
  ∀ i, ∀ e ∈ w.sessions i, ∃ n s, Op.begin i n s e.data ∈ hist ∧ e.key = keyOf n (some s)

theorem step_preserves_owned (hist : List Op) (w : World) (hc : w.cacheMode = false) (op : Op) (h : Owned hist w) :
    Owned (hist ++ [op]) (step w op).1 := by
  have weaken : ∀ i, ∀ e ∈ w.sessions i, ∃ n s, Op.begin i n s e.data ∈ hist ++ [op] ∧ e.key = keyOf n (some s) := by
    intro i e he
    obtain ⟨n, s, hm, hk⟩ := h i e he
    exact ⟨n, s, List.mem_append_left _ hm, hk⟩
  intro j e he
  cases op with
  | begin i n s d =>
    simp only [step, hc, Bool.false_eq_true, if_false, setSession] at he
    by_cases hji : j = i
    · subst hji
      simp only [if_true, List.mem_append, List.mem_singleton] at he
      rcases he with he | rfl
      · refine weaken j e ?_
        split at he
        · exact (List.mem_filter.mp he).1
        · exact (List.mem_filter.mp he).1
      · exact ⟨n, s, List.mem_append_right _ (List.mem_singleton_self _), rfl⟩
    · simp only [hji, if_false] at he
      exact weaken j e he
  | callback i n st =>
    rcases callback_sessions w hc i n st with h' | ⟨_, h'⟩
    · rw [h'] at he
      simp only [setSession] at he
      by_cases hji : j = i
      · subst hji
        simp only [if_true] at he
        exact weaken j e (List.mem_filter.mp (List.mem_filter.mp he).1).1
      · simp only [hji, if_false] at he
        exact weaken j e he
    · rw [h'] at he
      exact weaken j e he
  | advance dt => exact weaken j e he

theorem run_append (w : World) (ops : List Op) (op : Op) : run w (ops ++ [op]) = (step (run w ops) op).1 := by
  simp [run, List.foldl_append]

theorem run_cacheMode (ops : List Op) : ∀ w, (run w ops).cacheMode = w.cacheMode := by
  induction ops with
  | nil => intro w; rfl
  | cons op ops ih => intro w; simp only [run, List.foldl_cons]; exact (ih _).trans (cacheMode_const w op)

theorem run_preserves_owned (ops : List Op) : ∀ (hist : List Op) (w : World), w.cacheMode = false → Owned hist w →
    Owned (hist ++ ops) (run w ops) := by
  induction ops with
  | nil => intro hist w _ h; simpa [run] using h
  | cons op ops ih =>
    intro hist w hc h
    have := ih (hist ++ [op]) (step w op).1 ((cacheMode_const w op).trans hc) (step_preserves_owned hist w hc op h)
    simpa [run, List.append_assoc] using this

theorem owned_reachable (starlette oauth1 : Bool) (now : Int) (ops : List Op) :
    Owned ops (run (init false starlette now oauth1) ops) := by
  have := run_preserves_owned ops [] (init false starlette now oauth1) rfl (by intro i e he; simp [init] at he)
  simpa using this

/-- **Session storage, every history**: whenever a callback goes on to the token endpoint, an earlier
    authorization redirect *in the same user session* created exactly that state key, and the
    code_verifier / nonce / redirect_uri sent and used are the ones that redirect saved. -/
theorem callback_proceeds_implies_begun_in_same_session_partial (starlette oauth1 : Bool) (now : Int) (ops : List Op)
    (i : Nat) (n : String) (st : Option String) (d : Data)
    (h : (step (run (init false starlette now oauth1) ops) (.callback i n st)).2 = .proceeds d) :
    ∃ n' s', Op.begin i n' s' d ∈ ops ∧ keyOf n' (some s') = keyOf n st := by
  obtain ⟨e, hm, hk, hd⟩ := callback_proceeds_implies_own_entry_partial _ (by rw [run_cacheMode]; rfl) i n st d h
  obtain ⟨n', s', hb, hk'⟩ := owned_reachable starlette oauth1 now ops i e hm
  exact ⟨n', s', hd ▸ hb, hk' ▸ hk⟩

/-- a key absent from a session stays absent until that session begins a flow with that key -/
theorem absent_stays_absent_partial (k : String) (i : Nat) (ops : List Op)
    (hno : ∀ n s d, Op.begin i n s d ∈ ops → keyOf n (some s) ≠ k) :
    ∀ w, w.cacheMode = false → (∀ e ∈ w.sessions i, e.key ≠ k) → ∀ e ∈ (run w ops).sessions i, e.key ≠ k := by
  induction ops with
  | nil => intro w _ h; exact h
  | cons op ops ih =>
    intro w hc h
    simp only [run, List.foldl_cons]
    refine ih (fun n s d hm => hno n s d (List.mem_cons_of_mem _ hm)) _ ((cacheMode_const w op).trans hc) ?_
    intro e he
    cases op with
    | begin j n s d =>
      simp only [step, hc, Bool.false_eq_true, if_false, setSession] at he
      by_cases hji : i = j
      · subst hji
        simp only [if_true, List.mem_append, List.mem_singleton] at he
        rcases he with he | rfl
        · refine h e ?_
          split at he
          · exact (List.mem_filter.mp he).1
          · exact (List.mem_filter.mp he).1
        · exact hno n s d List.mem_cons_self
      · simp only [hji, if_false] at he
        exact h e he
    | callback j n st =>
      rcases callback_sessions w hc j n st with h' | ⟨_, h'⟩
      · rw [h'] at he
        simp only [setSession] at he
        by_cases hji : i = j
        · subst hji
          simp only [if_true] at he
          exact h e (List.mem_filter.mp (List.mem_filter.mp he).1).1
        · simp only [hji, if_false] at he
          exact h e he
      · rw [h'] at he
        exact h e he
    | advance dt => exact h e he

/-- **Single use, every history**: after a callback for a state, any later callback in that session for
    the same state is a mismatch, whatever happened in between — unless that session began a new flow
    that created the same key again. -/
theorem state_single_use_partial (w : World) (hc : w.cacheMode = false) (i : Nat) (n : String) (st : Option String)
    (later : List Op) (hno : ∀ n' s d, Op.begin i n' s d ∈ later → keyOf n' (some s) ≠ keyOf n st) :
    (step (run (step w (.callback i n st)).1 later) (.callback i n st)).2 = .mismatch := by
  apply callback_without_entry_is_mismatch_partial
  · rw [run_cacheMode, cacheMode_const]; exact hc
  · exact absent_stays_absent_partial _ i later hno _ ((cacheMode_const _ _).trans hc) (callback_consumes_partial w hc i n st)

/-- the redirect_uri sent to the token endpoint is the one saved for the state whenever one was saved —
    a registered default never replaces it -/
theorem sent_redirect_is_the_saved_one (defaults : List (String × String)) (name : String) (d : Data) (r : String)
    (h : d.redirect = some r) : sentRedirect defaults name d = some r := by
  simp [sentRedirect, h]

/-! ### the key is injective when provider names contain no underscore -/

theorem append_inj_of_no_sep (sep : Char) : ∀ (a b c d : List Char), sep ∉ a → sep ∉ c →
    a ++ sep :: b = c ++ sep :: d → a = c ∧ b = d := by
  intro a
  induction a with
  | nil =>
    intro b c d _ hc h
    cases c with
    | nil => simp at h; exact ⟨rfl, h⟩
    | cons x c =>
      simp at h
      exact absurd (h.1 ▸ List.mem_cons_self) hc
  | cons x a ih =>
    intro b c d ha hc h
    cases c with
    | nil =>
      simp at h
      exact absurd (h.1 ▸ List.mem_cons_self) ha
    | cons y c =>
      simp only [List.cons_append, List.cons.injEq] at h
      obtain ⟨rfl, h⟩ := h
      have := ih b c d (fun hm => ha (List.mem_cons_of_mem _ hm)) (fun hm => hc (List.mem_cons_of_mem _ hm)) h
      exact ⟨by rw [this.1], this.2⟩

/-- two (provider, state) pairs give the same session key only if they are the same pair, provided
    the provider names contain no '_' -/
theorem keyOf_injective (n1 n2 : String) (s1 s2 : Option String) (h1 : '_' ∉ n1.toList) (h2 : '_' ∉ n2.toList)
    (h : keyOf n1 s1 = keyOf n2 s2) : n1 = n2 ∧ s1.getD "None" = s2.getD "None" := by
  have h' := congrArg String.toList h
  simp only [keyOf, String.toList_append] at h'
  have h'' : n1.toList ++ '_' :: (s1.getD "None").toList = n2.toList ++ '_' :: (s2.getD "None").toList := by
    simpa [List.append_assoc] using h'
  obtain ⟨ha, hb⟩ := append_inj_of_no_sep '_' _ _ _ _ h1 h2 h''
  exact ⟨String.toList_inj.mp ha, String.toList_inj.mp hb⟩

/-! ### cache storage: the binding fails (negation witness, replayed on the real integrations) -/

def dWit : Data := ⟨some "https://rp/cb", some "verifier", some "nonce"⟩

/-- with a shared cache a *different* session completes the flow session 0 started -/
theorem cache_mode_foreign_session_completes :
    (step (step (init true false 0) (.begin 0 "p1" "S" dWit)).1 (.callback 1 "p1" (some "S"))).2 = .proceeds dWit := by
  decide

/-- non-vacuity of the session theorems: the same two steps in session mode are a mismatch, and the
    owner's callback proceeds -/
example : (step (step (init false false 0) (.begin 0 "p1" "S" dWit)).1 (.callback 1 "p1" (some "S"))).2 = .mismatch := by decide
example : (step (step (init false false 0) (.begin 0 "p1" "S" dWit)).1 (.callback 0 "p1" (some "S"))).2 = .proceeds dWit := by decide

/-- and the underscore collision the injectivity hypothesis excludes is real -/
example : keyOf "a" (some "b_X") = keyOf "a_b" (some "X") := by decide

end Props.C14
