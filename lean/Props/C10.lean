import Props.C10Jwt
import Model.Resource
/-
  C10 — a protected resource is served iff the request carries an Authorization header of a
  registered token type whose token is known, unexpired and unrevoked and whose scope wholly
  contains at least one required alternative; otherwise 401 (three kinds) or 403.
-/
namespace Props.C10
open Model.Text Model.Resource

/-- the scope requirement of the property statement: no requirement, or some alternative all of
    whose words are among the token's words -/
def ScopeOk (tokenScope : Option Str) (required : Option (List Str)) : Prop :=
  match required with
  | none => True
  | some [] => True
  | some alts => ∃ ts, tokenScope = some ts ∧ ∃ alt ∈ alts, ∀ w ∈ splitWs alt, w ∈ splitWs ts

/-- the statement's "served" condition -/
def Acceptable (types : List Str) (db : Str → Option Tok) (auth : Option Str)
    (required : Option (List Str)) : Prop :=
  ∃ a ty tok t, auth = some a ∧ splitNone1 a = some (ty, tok) ∧ lower ty ∈ types ∧
    db tok = some t ∧ t.expired = false ∧ t.revoked = false ∧ ScopeOk t.scope required

theorem splitNone1_nonempty {a : Str} {p : Str × Str} (h : splitNone1 a = some p) : a ≠ [] := by
  intro e; subst e; simp [splitNone1, dropWs, takeWord] at h

/-- every required alternative names at least one scope word -/
def AltsNonEmpty (required : Option (List Str)) : Prop :=
  ∀ alts, required = some alts → ∀ alt ∈ alts, splitWs alt ≠ []

theorem scopeInsufficient_false_iff (ts : Option Str) (req : Option (List Str)) (hne : AltsNonEmpty req) :
    scopeInsufficient ts req = false ↔ ScopeOk ts req := by
  unfold scopeInsufficient ScopeOk
  cases req with
  | none => simp
  | some alts =>
    cases alts with
    | nil => simp
    | cons a as =>
      cases ts with
      | none => simp
      | some s =>
        simp only
        by_cases hE : (splitWs s).isEmpty
        · simp only [hE, if_true]
          constructor
          · intro h; cases h
          · intro ⟨ts, hts, alt, halt, hall⟩
            cases hts
            have hw := hne (a :: as) rfl alt halt
            have hs : splitWs s = [] := by simpa using hE
            cases hsa : splitWs alt with
            | nil => exact absurd hsa hw
            | cons w ws =>
              have := hall w (by simp [hsa])
              simp [hs] at this
        · simp only [hE]
          have key : ((a :: as).any (fun alt => (splitWs alt).all fun w => (splitWs s).contains w) = true) ↔
              ∃ alt ∈ a :: as, ∀ w ∈ splitWs alt, w ∈ splitWs s := by
            rw [List.any_eq_true]
            constructor
            · intro ⟨alt, halt, hall⟩
              refine ⟨alt, halt, fun w hw => ?_⟩
              have := List.all_eq_true.mp hall w hw
              simpa using this
            · intro ⟨alt, halt, hall⟩
              refine ⟨alt, halt, List.all_eq_true.mpr fun w hw => ?_⟩
              simpa using hall w hw
          constructor
          · intro h
            have h' : (a :: as).any (fun alt => (splitWs alt).all fun w => (splitWs s).contains w) = true := by
              cases hb : (a :: as).any (fun alt => (splitWs alt).all fun w => (splitWs s).contains w) with
              | true => rfl
              | false => rw [hb] at h; simp at h
            obtain ⟨alt, halt, hall⟩ := key.mp h'
            exact ⟨s, rfl, alt, halt, hall⟩
          · intro ⟨ts, hts, alt, halt, hall⟩
            cases hts
            have := key.mpr ⟨alt, halt, hall⟩
            rw [this]; rfl

theorem validateToken_ne_missing (t : Option Tok) (r : Option (List Str)) :
    validateToken t r ≠ .missingAuthorization := by
  unfold validateToken
  cases t with
  | none => simp
  | some t =>
    simp only
    split
    · simp
    · split
      · simp
      · split <;> simp

/-- **C10 (bearer tokens)**: served if and only if the statement's condition holds — for every
    header string, token table, registered type list and scope requirement. -/
theorem served_iff (types : List Str) (db : Str → Option Tok) (auth : Option Str)
    (req : Option (List Str)) (hne : AltsNonEmpty req) :
    protect types db auth req = .served ↔ Acceptable types db auth req := by
  constructor
  · intro h
    unfold protect at h
    cases auth with
    | none => cases h
    | some a =>
      simp only at h
      split at h
      · cases h
      · split at h
        · cases h
        · rename_i ty tok hsp
          split at h
          · rename_i hty
            unfold validateToken at h
            cases hdb : db tok with
            | none => simp [hdb] at h
            | some t =>
              simp only [hdb] at h
              split at h
              · cases h
              · split at h
                · cases h
                · split at h
                  · cases h
                  · rename_i he hr hs
                    refine ⟨a, ty, tok, t, rfl, hsp, by simpa using hty, hdb, by simpa using he,
                      by simpa using hr, ?_⟩
                    exact (scopeInsufficient_false_iff t.scope req hne).mp (by simpa using hs)
          · cases h
  · intro ⟨a, ty, tok, t, hauth, hsp, hty, hdb, he, hr, hs⟩
    subst hauth
    have hsi := (scopeInsufficient_false_iff t.scope req hne).mpr hs
    have hane : a.isEmpty = false := by
      have := splitNone1_nonempty hsp
      simpa using this
    have hc : types.contains (lower ty) = true := by simpa using hty
    simp [protect, hane, hsp, hty, validateToken, hdb, he, hr, hsi]

/-- every other request is refused with 401 or 403, and 403 exactly for insufficient scope of an
    otherwise valid token -/
theorem error_kind_mapping (types : List Str) (db : Str → Option Tok) (auth : Option Str)
    (req : Option (List Str)) :
    let d := protect types db auth req
    (d ≠ .served → status d = 401 ∨ status d = 403) ∧
    (d = .missingAuthorization ↔ (auth = none ∨ auth = some [])) ∧
    (d = .insufficientScope → ∃ a ty tok t, auth = some a ∧ splitNone1 a = some (ty, tok) ∧
        lower ty ∈ types ∧ db tok = some t ∧ t.expired = false ∧ t.revoked = false ∧
        scopeInsufficient t.scope req = true) ∧
    (d = .invalidToken → ∃ a ty tok, auth = some a ∧ splitNone1 a = some (ty, tok) ∧
        lower ty ∈ types ∧ (db tok = none ∨ ∃ t, db tok = some t ∧ (t.expired = true ∨ t.revoked = true))) := by
  intro d
  refine ⟨?_, ?_, ?_, ?_⟩
  · intro _; cases hd : d <;> simp_all [status]
  · show protect types db auth req = .missingAuthorization ↔ _
    unfold protect
    cases auth with
    | none => simp
    | some a =>
      simp only
      by_cases hE : a.isEmpty
      · have : a = [] := by simpa using hE
        simp [hE, this]
      · simp only [hE]
        have hne : a ≠ [] := by simpa using hE
        constructor
        · intro h
          exfalso
          cases hsp : splitNone1 a with
          | none => simp [hsp] at h
          | some p =>
            obtain ⟨ty, tok⟩ := p
            simp only [hsp] at h
            by_cases hc : types.contains (lower ty) = true
            · simp only [hc, if_true] at h
              exact validateToken_ne_missing _ _ h
            · simp only [hc] at h
              cases h
        · intro h
          rcases h with h | h
          · cases h
          · injection h with h; exact absurd h hne
  · show protect types db auth req = .insufficientScope → _
    intro h
    unfold protect at h
    cases auth with
    | none => cases h
    | some a =>
      simp only at h
      split at h
      · cases h
      · split at h
        · cases h
        · rename_i ty tok hsp
          split at h
          · rename_i hty
            unfold validateToken at h
            cases hdb : db tok with
            | none => simp [hdb] at h
            | some t =>
              simp only [hdb] at h
              split at h
              · cases h
              · split at h
                · cases h
                · split at h
                  · rename_i he hr hs
                    exact ⟨a, ty, tok, t, rfl, hsp, by simpa using hty, hdb, by simpa using he,
                      by simpa using hr, hs⟩
                  · cases h
          · cases h
  · show protect types db auth req = .invalidToken → _
    intro h
    unfold protect at h
    cases auth with
    | none => cases h
    | some a =>
      simp only at h
      split at h
      · cases h
      · split at h
        · cases h
        · rename_i ty tok hsp
          split at h
          · rename_i hty
            refine ⟨a, ty, tok, rfl, hsp, by simpa using hty, ?_⟩
            unfold validateToken at h
            cases hdb : db tok with
            | none => exact Or.inl rfl
            | some t =>
              right
              simp only [hdb] at h
              split at h
              · rename_i he; exact ⟨t, rfl, Or.inl he⟩
              · split at h
                · rename_i hr; exact ⟨t, rfl, Or.inr hr⟩
                · split at h <;> cases h
          · cases h

/-- no token that fails a condition is ever handed to the application: `served` implies the very
    token that was looked up is live -/
theorem rejected_token_never_current (types : List Str) (db : Str → Option Tok) (a : Str)
    (req : Option (List Str)) (ty tok : Str) (hsp : splitNone1 a = some (ty, tok))
    (hbad : db tok = none ∨ ∃ t, db tok = some t ∧ (t.expired = true ∨ t.revoked = true ∨
      scopeInsufficient t.scope req = true)) :
    protect types db (some a) req ≠ .served := by
  intro h
  unfold protect at h
  simp only [hsp] at h
  split at h
  · cases h
  · split at h
    · unfold validateToken at h
      rcases hbad with hn | ⟨t, ht, hb⟩
      · simp [hn] at h
      · simp only [ht] at h
        rcases hb with hb | hb | hb <;> simp [hb] at h
        all_goals (split at h <;> try cases h)
        all_goals (split at h <;> try cases h)
    · cases h

/-- non-vacuity -/
example : protect ["bearer".toList] (fun t => if t = "tok".toList then some ⟨false, false, some "a b".toList⟩ else none)
    (some "BeArer  tok".toList) (some ["c".toList, "b a".toList]) = .served := by decide +kernel

example : protect ["bearer".toList] (fun t => if t = "tok".toList then some ⟨false, false, some "a".toList⟩ else none)
    (some "Bearer tok".toList) (some ["a b".toList]) = .insufficientScope := by decide +kernel

end Props.C10
