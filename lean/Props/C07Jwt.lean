import Model.ClientAssertion
import Props.C04
/-
  C07 (JWT assertion method): a client is authenticated by an assertion only if the signature
  verified under that client's key, issuer = subject = the client, the audience is the token
  endpoint, it is unexpired, its jti was not used before, and the client is registered for the
  method; and once an assertion has been accepted, the same (sub, jti) is never accepted again,
  whatever happens in between.
-/
namespace Props.C07Jwt
open Model Model.Claims Model.ClientAssertion Props.C04

theorem find_mem {α} (p : α → Bool) : ∀ (l : List α) (x : α), l.find? p = some x → x ∈ l ∧ p x = true := by
  intro l
  induction l with
  | nil => intro x h; cases h
  | cons a r ih =>
    intro x h
    simp only [List.find?_cons] at h
    split at h
    · injection h with h; subst h; exact ⟨List.mem_cons_self, by assumption⟩
    · have := ih x h; exact ⟨List.mem_cons_of_mem _ this.1, this.2⟩

/-- the path through `step` that ends in `authenticated` -/
theorem authenticated_path (tokenUrl : String) (s : St) (r : Req) (id : String)
    (h : (step tokenUrl s r).2 = .authenticated id) :
    r.typeOk = true ∧ r.sigOk = true ∧
    ∃ c sub cl key, r.claims = some c ∧ strOf (getD c "sub") = some sub ∧ s.clients.find? (fun cl => cl.id == sub) = some cl ∧
      jtiKey c = some key ∧ Claims.validate c (options tokenUrl (!s.used.contains key)) r.now leeway = none ∧
      cl.jwtMethod = true ∧ cl.id = id := by
  unfold step at h
  split at h
  · cases h
  · rename_i ht
    split at h
    · cases h
    · rename_i c hc
      split at h
      · cases h
      · rename_i sub hs
        split at h
        · cases h
        · rename_i cl hf
          split at h
          · cases h
          · rename_i hsig
            split at h
            · cases h
            · rename_i key hk
              split at h
              · cases h
              · rename_i hv
                split at h
                · rename_i hm
                  injection h with h
                  exact ⟨by simpa using ht, by simpa using hsig, c, sub, cl, key, hc, hs, hf, hk, hv, hm, h⟩
                · cases h

theorem step_used_of_path (tokenUrl : String) (s : St) (r : Req) (c : Claims) (sub : String) (cl : Client) (key : String)
    (ht : r.typeOk = true) (hsig : r.sigOk = true) (hc : r.claims = some c) (hs : strOf (getD c "sub") = some sub)
    (hf : s.clients.find? (fun cl => cl.id == sub) = some cl) (hk : jtiKey c = some key)
    (hv : Claims.validate c (options tokenUrl (!s.used.contains key)) r.now leeway = none) :
    (step tokenUrl s r).1.used = key :: s.used := by
  unfold step
  simp only [ht, Bool.not_true, Bool.false_eq_true, if_false, hc, hs, hf, hsig, hk, hv]
  split <;> rfl

/-- what an authenticated verdict implies -/
theorem authenticated_implies (tokenUrl : String) (hurl : tokenUrl ≠ "") (s : St) (r : Req) (id : String)
    (h : (step tokenUrl s r).2 = .authenticated id) :
    r.typeOk = true ∧ r.sigOk = true ∧
    ∃ c cl key, r.claims = some c ∧ cl ∈ s.clients ∧ cl.id = id ∧ cl.jwtMethod = true ∧
      getD c "sub" = .atom (.str id) ∧ (getD c "iss").pyEq (.atom (.str id)) = true ∧
      (∃ a, c.lookup "aud" = some a ∧ pyIn (.atom (.str tokenUrl)) (audList a) = true) ∧
      (∃ v q, c.lookup "exp" = some v ∧ v.numericDate = some q ∧ r.now - leeway ≤ q) ∧
      jtiKey c = some key ∧ key ∉ s.used ∧ (step tokenUrl s r).1.used = key :: s.used := by
  obtain ⟨ht, hsig, c, sub, cl, key, hc, hs, hf, hk, hv, hm, hid⟩ := authenticated_path tokenUrl s r id h
  obtain ⟨hmem, hidb⟩ := find_mem _ _ _ hf
  have hid' : cl.id = sub := by simpa using hidb
  have hcf := conforms_of_validate_none c _ r.now leeway hv
  have hsubv : getD c "sub" = .atom (.str sub) := by
    unfold strOf at hs
    cases hg : getD c "sub" with
    | list xs => simp [hg] at hs
    | atom a => cases a <;> simp [hg] at hs; rw [hs]
  have hfresh : (!s.used.contains key) = true := by
    have := hcf.validator_ok "jti" { essential := true, validate := some (.const (!s.used.contains key)) } (.const (!s.used.contains key))
      (by decide) (by simp [options, List.lookup]) rfl
    simpa [Validator.run] using this
  have hiss := hcf.validator_ok "iss" { essential := true, validate := some (.eqClaim "sub") } (.eqClaim "sub") (by decide)
    (by simp [options, List.lookup]) rfl
  simp only [Validator.run, hsubv] at hiss
  obtain ⟨a, ha, hat⟩ := hcf.essential_ok "aud" { essential := true, value := some (.atom (.str tokenUrl)) } (by simp [options, List.lookup]) rfl
  have hurl' : (tokenUrl != "") = true := by simpa using hurl
  obtain ⟨v, hv', hp⟩ := hcf.aud_ok { essential := true, value := some (.atom (.str tokenUrl)) } a (by simp [options, List.lookup]) ha hat
    (by simp [expectedAud, optListTruthy, optTruthy, Val.truthy, hurl'])
  simp only [expectedAud, optListTruthy, optTruthy, Val.truthy, hurl', if_true, List.mem_singleton] at hv'
  subst hv'
  obtain ⟨ve, hve, _⟩ := hcf.essential_ok "exp" { essential := true } (by simp [options, List.lookup]) rfl
  obtain ⟨q, hq, hle⟩ := hcf.exp_ok ve hve
  have hsi : sub = id := by rw [← hid', hid]
  subst hsi
  refine ⟨ht, hsig, c, cl, key, hc, hmem, hid, hm, hsubv, hiss, ⟨a, ha, hp⟩, ⟨ve, q, hve, hq, hle⟩, hk, ?_,
    step_used_of_path tokenUrl s r c sub cl key ht hsig hc hs hf hk hv⟩
  intro hin
  have hnot : key ∉ s.used := by simpa using hfresh
  exact hnot hin

/-- the jti store only grows -/
theorem used_monotone (tokenUrl : String) (s : St) (r : Req) : ∀ k ∈ s.used, k ∈ (step tokenUrl s r).1.used := by
  intro k hk
  unfold step
  repeat' split
  all_goals first | exact hk | exact List.mem_cons_of_mem _ hk

theorem used_monotone_run (tokenUrl : String) (rs : List Req) : ∀ s, ∀ k ∈ s.used, k ∈ (run tokenUrl s rs).used := by
  induction rs with
  | nil => intro s k hk; exact hk
  | cons r rest ih => intro s k hk; exact ih _ k (used_monotone tokenUrl s r k hk)

/-- **replay**: once an assertion was accepted, after ANY further history an assertion with the same
    subject and jti does not authenticate -/
theorem replayed_assertion_never_authenticates (tokenUrl : String) (hurl : tokenUrl ≠ "") (s : St) (r : Req) (id : String)
    (h : (step tokenUrl s r).2 = .authenticated id) (later : List Req) (r' : Req) (c c' : Claims)
    (hc : r.claims = some c) (hc' : r'.claims = some c') (hsame : jtiKey c' = jtiKey c) (id' : String) :
    (step tokenUrl (run tokenUrl (step tokenUrl s r).1 later) r').2 ≠ .authenticated id' := by
  obtain ⟨_, _, c0, _, key, hc0, _, _, _, _, _, _, _, hk, _, hused⟩ := authenticated_implies tokenUrl hurl s r id h
  rw [hc] at hc0; injection hc0 with hc0; subst hc0
  intro h2
  obtain ⟨_, _, c1, _, key', hc1, _, _, _, _, _, _, _, hk', hnot, _⟩ :=
    authenticated_implies tokenUrl hurl _ r' id' h2
  rw [hc'] at hc1; injection hc1 with hc1; subst hc1
  rw [hsame, hk] at hk'
  injection hk' with hk'
  subst hk'
  apply hnot
  apply used_monotone_run
  rw [hused]
  exact List.mem_cons_self

end Props.C07Jwt
