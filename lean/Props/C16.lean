import Props.C16Core
import Props.C16Hist
/-
  C16 — JWK import / export. `Props.C16Core` (namespace `Props.C16`): member encodings, export filter,
  thumbprint. `Props.C16Hist`: histories of export calls on one key object.
-/
