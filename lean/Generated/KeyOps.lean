-- GENERATED from the repository under verification by harness/extract.py on every run. DO NOT EDIT.
namespace Generated.KeyOps

/-- (registry, alg, implementing class, operations checked on the caller's key when producing, … when consuming) -/
def keyOps : List (String × String × String × List String × List String) := [
  ("jws", "ES256", "ECAlgorithm", ["sign"], ["verify"]),
  ("jws", "ES256K", "ECAlgorithm", ["sign"], ["verify"]),
  ("jws", "ES384", "ECAlgorithm", ["sign"], ["verify"]),
  ("jws", "ES512", "ECAlgorithm", ["sign"], ["verify"]),
  ("jws", "EdDSA", "EdDSAAlgorithm", ["sign"], ["verify"]),
  ("jws", "HS256", "HMACAlgorithm", ["sign"], ["verify"]),
  ("jws", "HS384", "HMACAlgorithm", ["sign"], ["verify"]),
  ("jws", "HS512", "HMACAlgorithm", ["sign"], ["verify"]),
  ("jws", "PS256", "RSAPSSAlgorithm", ["sign"], ["verify"]),
  ("jws", "PS384", "RSAPSSAlgorithm", ["sign"], ["verify"]),
  ("jws", "PS512", "RSAPSSAlgorithm", ["sign"], ["verify"]),
  ("jws", "RS256", "RSAAlgorithm", ["sign"], ["verify"]),
  ("jws", "RS384", "RSAAlgorithm", ["sign"], ["verify"]),
  ("jws", "RS512", "RSAAlgorithm", ["sign"], ["verify"]),
  ("jwe", "A128GCMKW", "AESGCMAlgorithm", ["wrapKey"], ["unwrapKey"]),
  ("jwe", "A128KW", "AESAlgorithm", ["wrapKey"], ["unwrapKey"]),
  ("jwe", "A192GCMKW", "AESGCMAlgorithm", ["wrapKey"], ["unwrapKey"]),
  ("jwe", "A192KW", "AESAlgorithm", ["wrapKey"], ["unwrapKey"]),
  ("jwe", "A256GCMKW", "AESGCMAlgorithm", ["wrapKey"], ["unwrapKey"]),
  ("jwe", "A256KW", "AESAlgorithm", ["wrapKey"], ["unwrapKey"]),
  ("jwe", "ECDH-ES", "ECDHESAlgorithm", ["wrapKey"], []),
  ("jwe", "ECDH-ES+A128KW", "ECDHESAlgorithm", ["wrapKey"], []),
  ("jwe", "ECDH-ES+A192KW", "ECDHESAlgorithm", ["wrapKey"], []),
  ("jwe", "ECDH-ES+A256KW", "ECDHESAlgorithm", ["wrapKey"], []),
  ("jwe", "RSA-OAEP", "RSAAlgorithm", ["wrapKey"], ["unwrapKey"]),
  ("jwe", "RSA-OAEP-256", "RSAAlgorithm", ["wrapKey"], ["unwrapKey"]),
  ("jwe", "RSA1_5", "RSAAlgorithm", ["wrapKey"], ["unwrapKey"]),
  ("jwe", "dir", "DirectAlgorithm", ["encrypt"], ["decrypt"])]

end Generated.KeyOps
