-- GENERATED from the repository under verification by harness/extract.py on every run. DO NOT EDIT.
namespace Generated.Flows

/-- flow name ↦ events of one fault-free request: storage callbacks in invocation order, "gen", "respond" -/
def flows : List (String × List String) := [
  ("authorize_code", ["query_client", "gen", "save_authorization_code", "respond"]),
  ("redeem_code", ["query_client", "query_authorization_code", "authenticate_user", "gen", "gen", "save_token", "delete_authorization_code", "respond"]),
  ("password", ["query_client", "authenticate_user", "gen", "gen", "save_token", "respond"]),
  ("client_credentials", ["query_client", "gen", "save_token", "respond"]),
  ("refresh", ["query_client", "authenticate_refresh_token", "authenticate_user", "gen", "gen", "save_token", "revoke_old_credential", "respond"]),
  ("device_authorize", ["query_client", "gen", "gen", "save_device_credential", "respond"]),
  ("device_poll_pending", ["query_client", "query_device_credential", "query_user_grant", "should_slow_down", "respond"]),
  ("device_poll_token", ["query_client", "query_device_credential", "query_user_grant", "gen", "gen", "save_token", "respond"]),
  ("revoke", ["query_client", "query_token", "commit", "respond"]),
  ("introspect", ["query_client", "query_token", "respond"]),
  ("resource_access", ["query_token"]),
  ("implicit", ["query_client", "gen", "save_token", "respond"]),
  ("oidc_authorize_code", ["query_client", "exists_nonce", "gen", "save_authorization_code", "respond"]),
  ("oidc_redeem_code", ["query_client", "query_authorization_code", "authenticate_user", "gen", "gen", "save_token", "delete_authorization_code", "respond"]),
  ("oidc_implicit_id_token", ["query_client", "exists_nonce", "gen", "respond"]),
  ("oidc_implicit_id_token_token", ["query_client", "exists_nonce", "gen", "save_token", "respond"]),
  ("oidc_hybrid_code_id_token", ["query_client", "exists_nonce", "gen", "save_authorization_code", "gen", "respond"]),
  ("oidc_hybrid_code_token", ["query_client", "exists_nonce", "gen", "save_authorization_code", "gen", "save_token", "respond"]),
  ("oidc_hybrid_code_id_token_token", ["query_client", "exists_nonce", "gen", "save_authorization_code", "gen", "save_token", "respond"]),
  ("oauth1_initiate", ["get_client_by_id", "exists_nonce", "create_temporary_credential", "gen", "gen", "respond"]),
  ("oauth1_authorize", ["get_temporary_credential", "get_client_by_id", "create_authorization_verifier", "gen", "respond"]),
  ("oauth1_exchange", ["get_client_by_id", "get_temporary_credential", "exists_nonce", "create_token_credential", "gen", "gen", "delete_temporary_credential", "respond"]),
  ("oauth1_resource", ["get_client_by_id", "get_token_credential", "exists_nonce"])]

end Generated.Flows
