-- GENERATED from the repository under verification by harness/extract.py on every run. DO NOT EDIT.
namespace Generated.Metadata

def asRegistryKeys : List String := ["issuer", "authorization_endpoint", "token_endpoint", "jwks_uri", "registration_endpoint", "scopes_supported", "response_types_supported", "response_modes_supported", "grant_types_supported", "token_endpoint_auth_methods_supported", "token_endpoint_auth_signing_alg_values_supported", "service_documentation", "ui_locales_supported", "op_policy_uri", "op_tos_uri", "revocation_endpoint", "revocation_endpoint_auth_methods_supported", "revocation_endpoint_auth_signing_alg_values_supported", "introspection_endpoint", "introspection_endpoint_auth_methods_supported", "introspection_endpoint_auth_signing_alg_values_supported", "code_challenge_methods_supported"]

def opRegistryKeys : List String := ["issuer", "authorization_endpoint", "token_endpoint", "jwks_uri", "registration_endpoint", "scopes_supported", "response_types_supported", "response_modes_supported", "grant_types_supported", "token_endpoint_auth_methods_supported", "service_documentation", "ui_locales_supported", "op_policy_uri", "op_tos_uri", "token_endpoint_auth_signing_alg_values_supported", "acr_values_supported", "subject_types_supported", "id_token_signing_alg_values_supported", "id_token_encryption_alg_values_supported", "id_token_encryption_enc_values_supported", "userinfo_signing_alg_values_supported", "userinfo_encryption_alg_values_supported", "userinfo_encryption_enc_values_supported", "request_object_signing_alg_values_supported", "request_object_encryption_alg_values_supported", "request_object_encryption_enc_values_supported", "display_values_supported", "claim_types_supported", "claims_supported", "claims_locales_supported", "claims_parameter_supported", "request_parameter_supported", "request_uri_parameter_supported", "require_request_uri_registration"]

def clientRegisteredClaims : List String := ["redirect_uris", "token_endpoint_auth_method", "grant_types", "response_types", "client_name", "client_uri", "logo_uri", "scope", "contacts", "tos_uri", "policy_uri", "jwks_uri", "jwks", "software_id", "software_version"]

def updateMustNotInclude : List String := ["registration_access_token", "registration_client_uri", "client_secret_expires_at", "client_id_issued_at"]

end Generated.Metadata
