-- GENERATED from the repository under verification by harness/extract.py on every run. DO NOT EDIT.
namespace Generated.Errors

/-- class name, error code, status, class-level description of every OAuth2Error subclass -/
def classes : List (String × String × Nat × String) := [
  ("AccessDeniedError", "access_denied", 400, "The resource owner or authorization server denied the request"),
  ("AccountSelectionRequiredError", "account_selection_required", 400, ""),
  ("AuthorizationPendingError", "authorization_pending", 400, ""),
  ("ConsentRequiredError", "consent_required", 400, ""),
  ("ExpiredTokenError", "expired_token", 400, ""),
  ("ForbiddenError", "", 401, ""),
  ("InsecureTransportError", "insecure_transport", 400, "OAuth 2 MUST utilize https."),
  ("InsufficientScopeError", "insufficient_scope", 403, "The request requires higher privileges than provided by the access token."),
  ("InteractionRequiredError", "interaction_required", 400, ""),
  ("InvalidClientError", "invalid_client", 400, ""),
  ("InvalidClientMetadataError", "invalid_client_metadata", 400, ""),
  ("InvalidGrantError", "invalid_grant", 400, ""),
  ("InvalidRedirectURIError", "invalid_redirect_uri", 400, ""),
  ("InvalidRequestError", "invalid_request", 400, ""),
  ("InvalidRequestObjectError", "invalid_request_object", 400, ""),
  ("InvalidRequestURIError", "invalid_request_uri", 400, ""),
  ("InvalidScopeError", "invalid_scope", 400, "The requested scope is invalid, unknown, or malformed."),
  ("InvalidSoftwareStatementError", "invalid_software_statement", 400, ""),
  ("InvalidTokenError", "invalid_token", 401, "The access token provided is expired, revoked, malformed, or invalid for other reasons."),
  ("LoginRequiredError", "login_required", 400, ""),
  ("MismatchingStateException", "mismatching_state", 400, "CSRF Warning! State not equal in request and response."),
  ("MissingAuthorizationError", "missing_authorization", 401, "Missing 'Authorization' in headers."),
  ("MissingCodeException", "missing_code", 400, "Missing 'code' in response."),
  ("MissingTokenException", "missing_token", 400, "Missing 'access_token' in response."),
  ("MissingTokenTypeException", "missing_token_type", 400, "Missing 'token_type' in response."),
  ("RegistrationNotSupportedError", "registration_not_supported", 400, ""),
  ("RequestNotSupportedError", "request_not_supported", 400, ""),
  ("RequestURINotSupportedError", "request_uri_not_supported", 400, ""),
  ("SlowDownError", "slow_down", 400, ""),
  ("UnapprovedSoftwareStatementError", "unapproved_software_statement", 400, ""),
  ("UnauthorizedClientError", "unauthorized_client", 400, ""),
  ("UnsupportedGrantTypeError", "unsupported_grant_type", 400, ""),
  ("UnsupportedResponseTypeError", "unsupported_response_type", 400, ""),
  ("UnsupportedTokenTypeError", "unsupported_token_type", 401, "")]

/-- descriptions given as string literals where the library raises an OAuth 2 error -/
def staticDescriptions : List String := ["Client has no permission to access user data", "Code challenge failed.", "Invalid 'code' in request.", "Invalid 'code_challenge'", "Invalid 'code_verifier'", "Invalid 'device_code' in payload", "Invalid 'iss' value in assertion", "Invalid 'prompt' parameter.", "Invalid 'redirect_uri' in request.", "Invalid 'response_mode' value", "Invalid 'sub' value in assertion", "Invalid 'username' or 'password' in request.", "Invalid assertion", "Invalid client assertion", "Malformed query string", "Missing 'assertion' in request", "Missing 'client_id' parameter.", "Missing 'code' in request.", "Missing 'code_challenge'", "Missing 'code_verifier'", "Missing 'device_code' in payload", "Missing 'iss' in assertion", "Missing 'nonce' in request.", "Missing 'openid' scope", "Missing 'password' in request.", "Missing 'redirect_uri' in request.", "Missing 'refresh_token' in request.", "Missing 'username' in request.", "Multiple 'code_challenge' in request.", "Multiple 'code_challenge_method' in request.", "Redirect URI is not supported by client.", "Replay attack", "The client does not exist on this server.", "The client does not have permission to read its record.", "There is no 'user' for this code.", "There is no 'user' for this token.", "Unsupported 'code_challenge_method'"]

/-- descriptions that are computed (site: source of the expression) -/
def dynamicDescriptionSites : List String := ["oauth2/rfc6749/authenticate_client.py: f\"The client cannot authenticate with methods: {methods}\"", "oauth2/rfc6749/grants/authorization_code.py: f\"The client is not authorized to use 'grant_type={self.GRANT_TYPE}'\"", "oauth2/rfc6749/grants/authorization_code.py: f\"The client is not authorized to use 'response_type={response_type}'\"", "oauth2/rfc6749/grants/base.py: f\"Multiple '{param}' in request.\"", "oauth2/rfc6749/grants/client_credentials.py: f\"The client is not authorized to use 'grant_type={self.GRANT_TYPE}'\"", "oauth2/rfc6749/grants/implicit.py: f\"The client is not authorized to use 'response_type={response_type}'\"", "oauth2/rfc6749/grants/refresh_token.py: f\"The client is not authorized to use 'grant_type={self.GRANT_TYPE}'\"", "oauth2/rfc6749/grants/resource_owner_password_credentials.py: f\"The client is not authorized to use 'grant_type={self.GRANT_TYPE}'\"", "oauth2/rfc7523/client.py: _error_description(e.description)", "oauth2/rfc7523/client.py: f\"The client cannot authenticate with method: {self.CLIENT_AUTH_METHOD}\"", "oauth2/rfc7523/jwt_bearer.py: _error_description(e.description)", "oauth2/rfc7523/jwt_bearer.py: f\"The client is not authorized to use 'grant_type={self.GRANT_TYPE}'\"", "oauth2/rfc7591/endpoint.py: error.description", "oauth2/rfc7592/endpoint.py: error.description", "oauth2/rfc8628/device_code.py: f\"The client is not authorized to use 'response_type={self.GRANT_TYPE}'\""]

def validRanges : List (Nat × Nat) := [(32, 33), (35, 91), (93, 126)]

def defaultJsonHeaders : List (String × String) := [("Content-Type", "application/json"), ("Cache-Control", "no-store"), ("Pragma", "no-cache")]

end Generated.Errors
