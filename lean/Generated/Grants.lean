-- GENERATED from the repository under verification by harness/extract.py on every run. DO NOT EDIT.
namespace Generated.Grants

/-- `RESPONSE_TYPES` of the authorization-endpoint grants -/
def codeResponseTypes : List String := ["code"]
def implicitResponseTypes : List String := ["token"]
def oidcImplicitResponseTypes : List String := ["id_token", "id_token token"]
def hybridResponseTypes : List String := ["code id_token", "code id_token token", "code token"]

/-- `ERROR_RESPONSE_FRAGMENT` / default response mode: does the grant put errors in the fragment -/
def codeErrorFragment : Bool := false
def implicitErrorFragment : Bool := true
def oidcImplicitErrorFragment : Bool := true
def hybridErrorFragment : Bool := true
def oidcDefaultResponseMode : String := "fragment"
def hybridDefaultResponseMode : String := "fragment"

/-- `TOKEN_ENDPOINT_AUTH_METHODS` as shipped (the reference integrator widens some of them, see memserver.py) -/
def codeAuthMethods : List String := ["client_secret_basic", "client_secret_post"]
def implicitAuthMethods : List String := ["none"]
def oidcImplicitAuthMethods : List String := ["none"]
def hybridAuthMethods : List String := ["none"]
def passwordAuthMethods : List String := ["client_secret_basic"]
def clientCredentialsAuthMethods : List String := ["client_secret_basic"]
def refreshAuthMethods : List String := ["client_secret_basic"]
def deviceAuthMethods : List String := ["client_secret_basic", "client_secret_post", "none"]

/-- `^[a-zA-Z0-9\-._~]{43,128}\Z` as (character ranges, min, max, end anchor) -/
def codeVerifierRanges : List (Nat × Nat) := [(97, 122), (65, 90), (48, 57), (45, 45), (46, 46), (95, 95), (126, 126)]
def codeVerifierMin : Nat := 43
def codeVerifierMax : Nat := 128
def codeVerifierEndIsDollar : Bool := false
/-- `^[a-zA-Z0-9\-._~]{43,128}\Z` as (character ranges, min, max, end anchor) -/
def codeChallengeRanges : List (Nat × Nat) := [(97, 122), (65, 90), (48, 57), (45, 45), (46, 46), (95, 95), (126, 126)]
def codeChallengeMin : Nat := 43
def codeChallengeMax : Nat := 128
def codeChallengeEndIsDollar : Bool := false
def supportedChallengeMethods : List String := ["plain", "S256"]
def defaultChallengeMethod : String := "plain"

end Generated.Grants
