-- GENERATED from the repository under verification by harness/extract.py on every run. DO NOT EDIT.
namespace Generated.Grants

/-- `GRANT_TYPE` of the built-in grants -/
def grantTypes : List (String × String) := [
  ("AuthorizationCodeGrant", "authorization_code"),
  ("ImplicitGrant", "implicit"),
  ("ResourceOwnerPasswordCredentialsGrant", "password"),
  ("ClientCredentialsGrant", "client_credentials"),
  ("RefreshTokenGrant", "refresh_token")]

end Generated.Grants
