-- GENERATED from the repository under verification by harness/extract.py on every run. DO NOT EDIT.
namespace Generated.Jose

/-- `JsonWebSignature.ALGORITHMS_REGISTRY`: (name, implementing class, hash bits, EC curve, EC coordinate octets) -/
def jwsRegistry : List (String × String × Nat × String × Nat) := [
  ("none", "NoneAlgorithm", 0, "", 0),
  ("HS256", "HMACAlgorithm", 256, "", 0),
  ("HS384", "HMACAlgorithm", 384, "", 0),
  ("HS512", "HMACAlgorithm", 512, "", 0),
  ("RS256", "RSAAlgorithm", 256, "", 0),
  ("RS384", "RSAAlgorithm", 384, "", 0),
  ("RS512", "RSAAlgorithm", 512, "", 0),
  ("ES256", "ECAlgorithm", 256, "P-256", 32),
  ("ES384", "ECAlgorithm", 384, "P-384", 48),
  ("ES512", "ECAlgorithm", 512, "P-521", 66),
  ("ES256K", "ECAlgorithm", 256, "secp256k1", 32),
  ("PS256", "RSAPSSAlgorithm", 256, "", 0),
  ("PS384", "RSAPSSAlgorithm", 384, "", 0),
  ("PS512", "RSAPSSAlgorithm", 512, "", 0),
  ("EdDSA", "EdDSAAlgorithm", 0, "", 0)]

/-- `OctKey` refuses raw keys starting with one of these (asymmetric key material in text form) -/
def possibleUnsafeKeys : List (List UInt8) := [
  [45, 45, 45, 45, 45, 66, 69, 71, 73, 78, 32],
  [45, 45, 45, 45, 32, 66, 69, 71, 73, 78, 32],
  [115, 115, 104, 45, 114, 115, 97, 32],
  [115, 115, 104, 45, 100, 115, 115, 32],
  [115, 115, 104, 45, 101, 100, 50, 53, 53, 49, 57, 32],
  [101, 99, 100, 115, 97, 45, 115, 104, 97, 50, 45]]

/-- `OctKey` refuses raw keys containing one of these anywhere -/
def possibleUnsafeMarkers : List (List UInt8) := [[45, 45, 45, 45, 45, 66, 69, 71, 73, 78, 32], [45, 45, 45, 45, 32, 66, 69, 71, 73, 78, 32]]

/-- `SSH_PUBLIC_PREFIX` of the asymmetric key classes (what `load_pem_key` hands to the SSH loader) -/
def sshPublicPrefixes : List (List UInt8) := [[115, 115, 104, 45, 114, 115, 97], [101, 99, 100, 115, 97, 45, 115, 104, 97, 50, 45], [115, 115, 104, 45, 101, 100, 50, 53, 53, 49, 57]]
def privateKeyOps : List String := ["sign", "decrypt", "unwrapKey"]
def publicKeyOps : List String := ["verify", "encrypt", "wrapKey"]
/-- `Key.ALLOWED_PARAMS`: the options a key object copies into its members -/
def allowedParams : List String := ["use", "key_ops", "alg", "kid", "x5u", "x5c", "x5t", "x5t#S256"]

def registeredHeaderParameterNames : List String := ["alg", "crit", "cty", "jku", "jwk", "kid", "typ", "x5c", "x5t", "x5t#S256", "x5u"]

def rsaPublicKeyFields : List String := ["e", "n"]
def rsaPrivateKeyFields : List String := ["d", "dp", "dq", "e", "n", "p", "q", "qi"]
def rsaRequiredJsonFields : List String := ["e", "n"]
def ecPublicKeyFields : List String := ["crv", "x", "y"]
def ecPrivateKeyFields : List String := ["crv", "d", "x", "y"]
def ecRequiredJsonFields : List String := ["crv", "x", "y"]
def okpPublicKeyFields : List String := ["crv", "x"]
def okpPrivateKeyFields : List String := ["crv", "d"]
def okpRequiredJsonFields : List String := ["crv", "x"]
def octRequiredJsonFields : List String := ["k"]

end Generated.Jose
