import Driver.Common
import Model.OAuth1Flow
import Model.Fault
import Model.NonceStore
namespace Driver.C12
open Lean Driver Model.OAuth1Flow

def parseRef (s : String) : Ref :=
  if s.isEmpty then .empty else
  let try' (pre : String) (mk : Nat → Ref) : Option Ref :=
    if s.startsWith pre then ((s.drop pre.length).toString.toNat?).map mk else none
  (try' "tmp" .tmp).orElse (fun _ => (try' "tsec" .tsec).orElse (fun _ => (try' "ver" .ver).orElse (fun _ =>
    (try' "tok" .tok).orElse (fun _ => try' "sec" .sec)))) |>.getD (.other s)

def refStr : Ref → String
  | .tmp n => s!"tmp{n}" | .tsec n => s!"tsec{n}" | .ver n => s!"ver{n}" | .tok n => s!"tok{n}" | .sec n => s!"sec{n}"
  | .empty => "" | .other s => s

def refOpt (j : Json) (k : String) : Option Ref := (getStrOpt j k).map parseRef

def sigOf (j : Json) : Sig :=
  { method := getStrOpt j "method",
    signedWith := match j.getObjVal? "signed_with" with
      | .ok (.arr a) => match (a[0]? : Option Json), (a[1]? : Option Json) with
        | some (Json.str x), some (Json.str y) => some (x, parseRef y)
        | _, _ => none
      | _ => none,
    timestamp := getStrOpt j "timestamp", nonce := getStrOpt j "nonce" }

def parseOp (j : Json) : Except String Op := do
  match (← getStr j "op") with
  | "initiate" => pure (.initiate (getStrOpt j "client") (getStrOpt j "callback") (getBoolD j "callback_valid" true) (sigOf j))
  | "authorize" => pure (.authorize (refOpt j "token") ((getNat j "user").toOption))
  | "exchange" => pure (.exchange (getStrOpt j "client") (refOpt j "token") (refOpt j "verifier") (sigOf j))
  | "access" => pure (.access (getStrOpt j "client") (refOpt j "token") (sigOf j))
  | "advance" => pure (.advance (← getNat j "dt"))
  | op => throw s!"op {op}"

def outJson (o : Out) : Json :=
  Json.mkObj [("status", o.status), ("error", optStr o.error), ("token", optStr (o.token.map refStr)), ("secret", optStr (o.secret.map refStr)),
    ("verifier", optStr (o.verifier.map refStr))]

def optNat : Option Nat → Json
  | some n => Json.num n | none => Json.null

def storeJson (s : Store) : Json :=
  Json.mkObj [
    ("temps", Json.arr (s.temps.map fun t => Json.arr #[Json.str s!"tmp{t.n}", Json.str t.client, optStr (t.verifier.map fun v => s!"ver{v}"), optNat t.user]).toArray),
    ("creds", Json.arr (s.creds.map fun c => Json.arr #[Json.str s!"tok{c.n}", Json.str c.client, optNat c.user]).toArray)]

def doneOf (j : Json) : Option (List String) :=
  match j.getObjVal? "done" with
  | .ok (.arr a) => some (a.toList.filterMap fun x => x.getStr?.toOption)
  | _ => none

def verdictStr : Model.NonceStore.Verdict → String
  | .accepted => "accepted" | .staleTimestamp => "stale_timestamp" | .replay => "replay"

/-- the replay guard of the integrations: {"nonce_model": {"window", "ttl"}, "reqs": [{"now", "ts", "key"}]} -/
def handleNonce (j : Json) : Except String Json := do
  let m ← j.getObjVal? "nonce_model"
  let c : Model.NonceStore.Cfg := ⟨← getNat m "window", ← getNat m "ttl"⟩
  let reqs ← (← getArr j "reqs").toList.mapM fun r => do
    pure (⟨← getInt r "now", ← getInt r "ts", ← getStr r "key"⟩ : Model.NonceStore.Req)
  let (_, vs) := Model.NonceStore.run c [] reqs
  pure (Json.mkObj [("verdicts", Json.arr (vs.map fun v => Json.str (verdictStr v)).toArray)])

def handle : Handler := fun j => do
  if (j.getObjVal? "nonce_model").isOk then handleNonce j else
  let cfg ← j.getObjVal? "cfg"
  let clients := (← getArr cfg "clients").toList.filterMap fun c => match getStrOpt c "id", getStrOpt c "secret" with
    | some a, some b => some (a, b) | _, _ => none
  let methods := (← getArr cfg "methods").toList.filterMap fun x => x.getStr?.toOption
  let s0 : Store := { clients := clients, temps := [], creds := [], nonces := [], now := ← getInt cfg "now", fresh := 0, methods := methods }
  let ops ← (← getArr j "ops").toList.mapM fun o => do pure ((← parseOp o), doneOf o)
  let (s, outs) := ops.foldl (fun (acc : Store × List Json) (op, done) =>
    match done with
    | some d =>
      let s' := stepFault acc.1 op (Model.Fault.progress d)
      (s', acc.2 ++ [Json.mkObj [("fault", true), ("done", Json.arr (d.map Json.str).toArray), ("store", storeJson s')]])
    | none =>
      let (s', o) := step acc.1 op
      (s', acc.2 ++ [outJson o])) (s0, [])
  pure (Json.mkObj [("outs", Json.arr outs.toArray), ("store", storeJson s)])

end Driver.C12
