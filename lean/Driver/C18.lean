import Driver.Common
import Model.Metadata
import Model.Registration
namespace Driver.C18
open Lean Driver Model.Metadata Model.Registration

def toA : Json → Option A
  | .null => some .null
  | .bool b => some (.bool b)
  | .num n => if n.exponent == 0 then some (.num n.mantissa) else none
  | .str s => some (.str s)
  | .obj kvs => some (.obj (kvs.toList.map (·.1)))
  | .arr a => some (.lst a.isEmpty)

def toV : Json → Option V
  | .arr a => (a.toList.mapM toA).map V.l
  | j => (toA j).map V.a

def toDoc (j : Json) : Option Doc :=
  match j with
  | .obj kvs => kvs.toList.mapM fun (k, v) => (toV v).map fun x => (k, x)
  | _ => none

def rJson : R → Json
  | .ok => Json.mkObj [("r", "ok")]
  | .err m => Json.mkObj [("r", "err"), ("msg", Json.str m)]
  | .crash e => Json.mkObj [("r", "crash"), ("exc", Json.str e)]

def aJson : A → Json
  | .null => Json.null
  | .bool b => Json.bool b
  | .num n => Json.num (JsonNumber.fromInt n)
  | .str s => Json.str s
  | .obj ks => Json.mkObj [("__obj__", Json.arr (ks.map Json.str).toArray)]
  | .lst e => Json.mkObj [("__lst__", Json.bool e)]

def vJson : V → Json
  | .a x => aJson x
  | .l xs => Json.arr (xs.map aJson).toArray

def docJson (d : Doc) : Json := Json.mkObj (d.map fun (k, v) => (k, vJson v))

def strList (j : Json) (k : String) : Option (List String) :=
  match j.getObjVal? k with
  | .ok (.arr a) => some (a.toList.filterMap fun x => x.getStr?.toOption)
  | _ => none

def payloadSupported (d : Doc) : Bool :=
  d.all fun (k, v) => match v with
    | .a (.str s) => if k == "scope" then s.toList.all (fun c => 0x20 ≤ c.toNat && c.toNat ≤ 0x7e) else Model.Url.supported s.toList || s.isEmpty
    | .l xs => xs.all fun x => match x with | .str s => Model.Url.supported s.toList || s.isEmpty | _ => true
    | _ => true

def tokOf (j : Json) : Token :=
  match getStrOpt j "tok" with
  | none => .none
  | some "initial" => .initial
  | some "wrong" => .wrong
  | some c => .ofClient c

def jwksOf (j : Json) : Option Bool :=
  match j.getObjVal? "jwks" with
  | .ok (.bool b) => some b
  | _ => none

def smOf (smj : Json) : ServerMeta :=
  ⟨strList smj "scopes_supported", strList smj "response_types_supported", strList smj "grant_types_supported",
    strList smj "token_endpoint_auth_methods_supported"⟩

def parseRegOp (o : Json) : Except String Op := do
  let payload : Option (Option Doc) := match o.getObjVal? "payload" with
    | .ok .null => some none
    | .ok p => (toDoc p).map some
    | _ => some none
  match payload with
  | none => throw "unsupported"
  | some p =>
    if !(p.map payloadSupported).getD true then throw "unsupported"
    else match (← getStr o "op") with
      | "register" => pure (Op.register (tokOf o) p (jwksOf o))
      | "update" => pure (Op.update (tokOf o) p (jwksOf o))
      | x => throw s!"op {x}"

def regHandle (j : Json) : Except String Json := do
  let sm0 := smOf (← j.getObjVal? "sm")
  -- an operation may carry "sm": the server metadata changed before this request (same endpoint instance)
  let ops ← (← getArr j "ops").toList.mapM fun o => do
    let smNew : Option ServerMeta := match o.getObjVal? "sm" with
      | .ok (.obj kvs) => some (smOf (.obj kvs))
      | _ => none
    let op ← parseRegOp o
    pure (smNew, op)
  let (_, s, outs) := ops.foldl (fun (acc : ServerMeta × Store × List Json) (smop : Option ServerMeta × Op) =>
    let sm := smop.1.getD acc.1
    let (s', o) := step sm acc.2.1 smop.2
    (sm, s', acc.2.2 ++ [Json.mkObj [("status", o.status), ("error", optStr o.error)]])) (sm0, ⟨[], 0⟩, [])
  pure (Json.mkObj [("outs", Json.arr outs.toArray),
    ("store", Json.arr (s.clients.map fun c => Json.arr #[Json.str c.id, Json.str c.secret, docJson c.metadata]).toArray)])

def handle : Handler := fun j => do
  match (← getStr j "op") with
  | "as" | "op" =>
    match toDoc (← j.getObjVal? "doc") with
    | none => pure (Json.mkObj [("unsupported", true)])
    | some d =>
      if !docSupported d then pure (Json.mkObj [("unsupported", true)])
      else pure (rJson (if (← getStr j "op") == "as" then validateAS d else validateOP d))
  | "oidc_claims" =>
    match toDoc (← j.getObjVal? "payload") with
    | none => pure (Json.mkObj [("unsupported", true)])
    | some d =>
      if !payloadSupported d then pure (Json.mkObj [("unsupported", true)]) else
      let mj ← j.getObjVal? "meta"
      let allowed : List (String × List String) := match mj.getObjVal? "allowed" with
        | .ok (.obj kvs) => kvs.toList.filterMap fun (k, v) => match v with
          | .arr a => some (k, a.toList.filterMap fun x => x.getStr?.toOption)
          | _ => none
        | _ => []
      let m : OidcMeta := { acrValues := (strList mj "acr_values_supported").getD [], allowed := allowed }
      match validateOidcClaims m d with
      | .ok stored => pure (Json.mkObj [("r", "ok"), ("stored", docJson stored)])
      | .invalid c => pure (Json.mkObj [("r", "invalid"), ("claim", Json.str c)])
      | .crash e => pure (Json.mkObj [("r", "crash"), ("exc", Json.str e)])
  | "reg" =>
    match regHandle j with
    | .ok r => pure r
    | .error "unsupported" => pure (Json.mkObj [("unsupported", true)])
    | .error e => throw e
  | op => throw s!"op {op}"

end Driver.C18
