import Driver.Common
import Model.AsyncRefresh
namespace Driver.C17
open Lean Driver Model.AsyncRefresh

def outcomeOf : String → Outcome
  | "success" => .success
  | "oauth_error" => .oauthError
  | _ => .serverError

def parseEv (j : Json) : Except String Ev := do
  match (← getStr j "ev") with
  | "refresh_sent" => pure (.refreshSent (← getNat j "i"))
  | "refresh_resp" => pure (.refreshResp (← getNat j "i") (outcomeOf (← getStr j "outcome")))
  | "cb_end" => pure (.cbEnd (← getNat j "i"))
  | "protected_sent" => pure (.protectedSent (← getNat j "i") (← getNat j "v"))
  | e => throw s!"event {e}"

def pcStr : Pc → String
  | .start => "start" | .inLock => "inLock" | .awaitResp => "awaitResp" | .awaitCb => "awaitCb"
  | .ready => "ready" | .done => "done" | .failed => "failed"

def handle : Handler := fun j => do
  let n ← getNat j "n"
  let evs ← (← getArr j "events").toList.mapM parseEv
  let (s, stuck) := replay (init (getBoolD j "has_cb" false)) evs
  let idx := List.range n
  pure (Json.mkObj [
    ("stuck", match stuck with | some k => Json.num k | none => Json.null),
    ("refresh_sent", s.refreshSent), ("refresh_ok", s.refreshOk), ("failures", s.failures), ("callbacks", s.callbacks),
    ("sent", Json.arr (idx.map fun i => match s.sentBy i with | some v => Json.num v | none => Json.null).toArray),
    ("pcs", Json.arr (idx.map fun i => Json.str (pcStr (s.pc i))).toArray)])

end Driver.C17
