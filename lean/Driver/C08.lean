import Driver.Common
import Model.Scope
namespace Driver.C08
open Lean Driver Model.Scope

def parseGen : String → Except String Gen
  | "bearer" => pure .bearer | "jwt7523" => pure .jwt7523 | "jwt9068" => pure .jwt9068
  | s => throw s!"gen {s}"

def parseGrant : String → Except String Grant
  | "direct" => pure .direct | "stored" => pure .stored | "refresh" => pure .refresh
  | s => throw s!"grant {s}"

def handle : Handler := fun j => do
  let g ← parseGen (← getStr j "gen")
  let gr ← parseGrant (← getStr j "kind")
  let supported : Option (List (List Char)) :=
    match j.getObjVal? "supported" with
    | .ok (.arr a) => some (a.toList.filterMap fun x => match x with | .str s => some (chars s) | _ => none)
    | _ => none
  let allowed := chars (← getStr j "allowed")
  let out := tokenRequest gr g supported allowed (optChars j "requested") (optChars j "original")
  match out with
  | .invalidScope => pure (Json.mkObj [("error", "invalid_scope")])
  | .issued i => pure (Json.mkObj [("response", optStr (i.response.map ofChars)),
                                   ("embedded", optStr (i.embedded.map ofChars))])

end Driver.C08
