import Driver.Common
import Model.Scope
import Model.ScopeHistory
namespace Driver.C08
open Lean Driver Model.Scope

def parseGen : String → Except String Gen
  | "bearer" => pure .bearer | "jwt7523" => pure .jwt7523 | "jwt9068" => pure .jwt9068
  | s => throw s!"gen {s}"

def parseGrant : String → Except String Grant
  | "direct" => pure .direct | "stored" => pure .stored | "refresh" => pure .refresh
  | s => throw s!"grant {s}"

def supportedOf (j : Json) : Option (List (List Char)) :=
  match j.getObjVal? "supported" with
  | .ok (.arr a) => some (a.toList.filterMap fun x => match x with | .str s => some (chars s) | _ => none)
  | _ => none

open Model.ScopeHistory in
def parseOp (o : Json) : Except String Op := do
  let cfg : Cfg := { gen := ← parseGen (← getStr o "gen"), supported := supportedOf o, allowed := chars (← getStr o "allowed") }
  match ← getStr o "op" with
  | "issue" => pure (.issue cfg (optChars o "requested"))
  | "refresh" => pure (.refresh cfg (← getNat o "idx") (optChars o "requested"))
  | s => throw s!"op {s}"

open Model.ScopeHistory in
def handleHistory (j : Json) : Except String Json := do
  let ops ← (← getArr j "ops").toList.mapM parseOp
  let (ts, outs) := run [] ops
  let js := outs.map fun o => match o with
    | .invalidScope => Json.mkObj [("error", "invalid_scope")]
    | .invalidGrant => Json.mkObj [("error", "invalid_grant")]
    | .issued i => Json.mkObj [("response", optStr (i.response.map ofChars)), ("embedded", optStr (i.embedded.map ofChars))]
  pure (Json.mkObj [("steps", Json.arr js.toArray), ("live", Json.arr (ts.map (fun t => Json.bool t.live)).toArray)])

def handle : Handler := fun j => do
  if (j.getObjVal? "ops").isOk then return ← handleHistory j
  let g ← parseGen (← getStr j "gen")
  let gr ← parseGrant (← getStr j "kind")
  let supported : Option (List (List Char)) :=
    match j.getObjVal? "supported" with
    | .ok (.arr a) => some (a.toList.filterMap fun x => match x with | .str s => some (chars s) | _ => none)
    | _ => none
  let allowed := chars (← getStr j "allowed")
  let out := tokenRequest gr g supported allowed (optChars j "requested") (optChars j "original")
  match out with
  | .invalidScope => pure (Json.mkObj [("error", "invalid_scope")])
  | .issued i => pure (Json.mkObj [("response", optStr (i.response.map ofChars)),
                                   ("embedded", optStr (i.embedded.map ofChars))])

end Driver.C08
