import Driver.Common
import Model.ErrorResponse
import Generated.Errors
namespace Driver.C20
open Lean Driver Model.ErrorResponse

def handle : Handler := fun j => do
  let name ← getStr j "cls"
  match Generated.Errors.classes.find? (fun c => c.1 == name) with
  | none => pure (Json.mkObj [("unsupported", true)])
  | some (_, code, status, cd) =>
    let c : ErrClass := ⟨code, status, cd⟩
    match endpoint Generated.Errors.validRanges Generated.Errors.defaultJsonHeaders (.error (.oauth c (getStrOpt j "arg"))) with
    | .ok r => pure (Json.mkObj [("status", r.status), ("error", if r.error == "" then Json.null else Json.str r.error), ("description", optStr r.description),
        ("no_store", Json.bool (r.headers.contains ("Cache-Control", "no-store")))])
    | .error e => pure (Json.mkObj [("raised", Json.str e)])

end Driver.C20
