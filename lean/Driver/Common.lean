import Lean.Data.Json
import Model.Bytes
/- JSON helpers for the line-protocol driver. -/
namespace Driver
open Lean Model

abbrev Handler := Json → Except String Json

def getStr (j : Json) (k : String) : Except String String := do
  (← j.getObjVal? k).getStr?

def getStrOpt (j : Json) (k : String) : Option String :=
  match j.getObjVal? k with
  | .ok (.str s) => some s
  | _ => none

def getNat (j : Json) (k : String) : Except String Nat := do
  (← j.getObjVal? k).getNat?

def getInt (j : Json) (k : String) : Except String Int := do
  (← j.getObjVal? k).getInt?

def getBool (j : Json) (k : String) : Except String Bool := do
  (← j.getObjVal? k).getBool?

def getBoolD (j : Json) (k : String) (d : Bool) : Bool :=
  match j.getObjVal? k with
  | .ok (.bool b) => b
  | _ => d

def getArr (j : Json) (k : String) : Except String (Array Json) := do
  (← j.getObjVal? k).getArr?

def getHex (j : Json) (k : String) : Except String Bytes := do
  let s ← getStr j k
  match ofHex s with
  | some b => pure b
  | none => throw s!"bad hex in {k}"

def getHexOpt (j : Json) (k : String) : Except String (Option Bytes) :=
  match j.getObjVal? k with
  | .ok (.str s) => match ofHex s with
    | some b => pure (some b)
    | none => throw s!"bad hex in {k}"
  | _ => pure none

def optStr : Option String → Json
  | none => Json.null
  | some s => Json.str s

def optHex : Option Bytes → Json
  | none => Json.null
  | some b => Json.str (toHex b)

def chars (s : String) : List Char := s.toList
def ofChars (l : List Char) : String := String.ofList l

def optChars (j : Json) (k : String) : Option (List Char) := (getStrOpt j k).map chars

end Driver
