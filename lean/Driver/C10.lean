import Driver.Common
import Model.Resource
namespace Driver.C10
open Lean Driver Model.Resource

def decisionStr : Decision → String
  | .served => "served"
  | .missingAuthorization => "missing_authorization"
  | .unsupportedTokenType => "unsupported_token_type"
  | .invalidToken => "invalid_token"
  | .insufficientScope => "insufficient_scope"

def handle : Handler := fun j => do
  let types := (← getArr j "types").toList.filterMap fun x => match x with | .str s => some (chars s) | _ => none
  let toks ← (← getArr j "tokens").toList.mapM fun p => do
    let k ← (← p.getArrVal? 0).getStr?
    let o ← p.getArrVal? 1
    pure (chars k, ({ expired := getBoolD o "expired" false, revoked := getBoolD o "revoked" false,
                      scope := optChars o "scope" } : Tok))
  let db : List Char → Option Tok := fun t => toks.lookup t
  let required : Option (List (List Char)) :=
    match j.getObjVal? "required" with
    | .ok (.arr a) => some (a.toList.filterMap fun x => match x with | .str s => some (chars s) | _ => none)
    | _ => none
  let d := protect types db (optChars j "auth") required
  pure (Json.mkObj [("decision", decisionStr d), ("status", status d)])

end Driver.C10
