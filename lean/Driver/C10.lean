import Driver.Common
import Model.Resource
import Model.JwtAccessToken
import Driver.C04
namespace Driver.C10
open Lean Driver Model.Resource

def decisionStr : Decision → String
  | .served => "served"
  | .missingAuthorization => "missing_authorization"
  | .unsupportedTokenType => "unsupported_token_type"
  | .invalidToken => "invalid_token"
  | .insufficientScope => "insufficient_scope"

def reqList (j : Json) (k : String) : Option (List (List Char)) :=
  match j.getObjVal? k with
  | .ok (.arr a) => some (a.toList.filterMap fun x => match x with | .str s => some (chars s) | _ => none)
  | _ => none

def handleJwt (j : Json) : Except String Json := do
  let decoded ← if getBoolD j "decoded" false then do
      let typ ← match j.getObjVal? "typ" with
        | .ok v => Driver.C04.parseVal v
        | .error _ => pure (Model.Claims.Val.atom .none)
      let claims ← Driver.C04.parsePairs Driver.C04.parseVal (← getArr j "claims")
      pure (some (typ, claims))
    else pure none
  let rq := (j.getObjVal? "req").toOption.getD (Json.mkObj [])
  let r : Model.JwtAccessToken.Required := ⟨reqList rq "scopes", reqList rq "groups", reqList rq "roles", reqList rq "entitlements"⟩
  let d := Model.JwtAccessToken.serve decoded (← getStr j "issuer") (← getStr j "rs") (← getInt j "now") r
  pure (Json.mkObj [("decision", decisionStr d), ("status", status d)])

def handle : Handler := fun j => do
  if getBoolD j "jwt" false then handleJwt j else
  let types := (← getArr j "types").toList.filterMap fun x => match x with | .str s => some (chars s) | _ => none
  let toks ← (← getArr j "tokens").toList.mapM fun p => do
    let k ← (← p.getArrVal? 0).getStr?
    let o ← p.getArrVal? 1
    pure (chars k, ({ expired := getBoolD o "expired" false, revoked := getBoolD o "revoked" false,
                      scope := optChars o "scope" } : Tok))
  let db : List Char → Option Tok := fun t => toks.lookup t
  let required : Option (List (List Char)) :=
    match j.getObjVal? "required" with
    | .ok (.arr a) => some (a.toList.filterMap fun x => match x with | .str s => some (chars s) | _ => none)
    | _ => none
  let d := protect types db (optChars j "auth") required
  pure (Json.mkObj [("decision", decisionStr d), ("status", status d)])

end Driver.C10
