import Driver.Common
import Model.Provider
import Model.Fault
namespace Driver.Provider
open Lean Driver Model Model.Provider

def parseRef (s : String) : Ref :=
  let try' (pre : String) (mk : Nat → Ref) : Option Ref :=
    if s.startsWith pre then ((s.drop pre.length).toString.toNat?).map mk else none
  (try' "code" .code).orElse (fun _ => (try' "at" .at).orElse (fun _ => (try' "rt" .rt).orElse (fun _ => try' "dc" .dc)))
    |>.getD .other

def refOpt (j : Json) (k : String) : Option Ref := (getStrOpt j k).map parseRef

def authOf (j : Json) : Auth :=
  match j.getObjVal? "auth" with
  | .ok (.arr a) => match (a[0]? : Option Json), (a[1]? : Option Json) with
    | some (Json.str c), some (Json.str m) => some (c, m)
    | _, _ => none
  | _ => none

def scopeOf (j : Json) (k : String) : Option (List Char) := (getStrOpt j k).map (·.toList)

def parseOp (j : Json) : Except String Op := do
  match (← getStr j "op") with
  | "authorize" => pure (.authorize (← getStr j "client") (getStrOpt j "redirect") (scopeOf j "scope") (getStrOpt j "challenge")
      (getStrOpt j "method") (← getNat j "user") (← getBool j "approve"))
  | "redeem" => pure (.redeem (authOf j) (refOpt j "code") (getStrOpt j "redirect") (getStrOpt j "verifier"))
  | "device_authorize" => pure (.deviceAuthorize (authOf j) (getStrOpt j "client_id") (scopeOf j "scope"))
  | "user_decide" => pure (.userDecide (← getNat j "uc") (← getNat j "user") (← getBool j "approve"))
  | "poll" => pure (.poll (authOf j) (refOpt j "dc"))
  | "issue_password" => pure (.issuePassword (authOf j) ((getNat j "user").toOption) (scopeOf j "scope"))
  | "issue_cc" => pure (.issueClientCredentials (authOf j) (scopeOf j "scope"))
  | "refresh" => pure (.refresh (authOf j) (refOpt j "token") (scopeOf j "scope"))
  | "revoke" => pure (.revoke (authOf j) (refOpt j "token") (getStrOpt j "hint"))
  | "introspect" => pure (.introspect (authOf j) (refOpt j "token") (getStrOpt j "hint"))
  | "access" => pure (.access (refOpt j "token") (match j.getObjVal? "required" with
      | .ok (.arr a) => some (a.toList.filterMap fun x => x.getStr?.toOption |>.map (·.toList))
      | _ => none))
  | "advance" => pure (.advance (← getNat j "dt"))
  | op => throw s!"op {op}"

def optNat : Option Nat → Json
  | some n => Json.num n | none => Json.null

def outJson (o : Out) : Json :=
  Json.mkObj [("status", o.status), ("error", optStr o.error), ("code", optNat o.code), ("access", optNat o.access),
    ("refresh", optNat o.refresh), ("scope", optStr (o.scope.map String.ofList)), ("device_code", optNat o.deviceCode),
    ("user_code", optNat o.userCode), ("active", match o.active with | some b => Json.bool b | none => Json.null)]

def storeJson (s : Store) : Json :=
  Json.mkObj [
    ("codes", Json.arr (s.codes.map fun c => Json.arr #[Json.num c.n, Json.str c.client, Json.num c.user]).toArray),
    ("tokens", Json.arr (s.tokens.map fun t => Json.arr #[Json.num t.access, optNat t.refresh, Json.str t.client,
        optNat t.user, optStr (t.scope.map String.ofList), Json.bool t.accessRevoked, Json.bool t.refreshRevoked]).toArray),
    ("devices", Json.arr (s.devices.map fun d => Json.arr #[Json.num d.dc, Json.str d.client]).toArray)]

def initStore (j : Json) : Except String Store := do
  let clients ← (← getArr j "clients").toList.mapM fun c => do
    pure ({ id := ← getStr c "id", uris := (← getArr c "uris").toList.filterMap (fun x => x.getStr?.toOption),
            scope := (← getStr c "scope").toList, method := ← getStr c "method" } : Client)
  pure { clients := clients, codes := [], tokens := [], devices := [], grants := [], lastPoll := [], now := ← getInt j "now",
         fresh := 0, pkceRequired := getBoolD j "pkce_required" false, strictHint := getBoolD j "strict_hint" false,
         supported := match j.getObjVal? "supported" with
           | .ok (.arr a) => some (a.toList.filterMap fun x => x.getStr?.toOption |>.map (·.toList))
           | _ => none }

def doneOf (j : Json) : Option (List String) :=
  match j.getObjVal? "done" with
  | .ok (.arr a) => some (a.toList.filterMap fun x => x.getStr?.toOption)
  | _ => none

def handle : Handler := fun j => do
  let s0 ← initStore (← j.getObjVal? "cfg")
  let ops ← (← getArr j "ops").toList.mapM fun o => do pure ((← parseOp o), doneOf o)
  let (s, outs) := ops.foldl (fun (acc : Store × List Json) (op, done) =>
    match done with
    | some d =>      -- C19: the request hit a storage fault after the events `d` completed
      let s' := stepFault acc.1 op (Model.Fault.progress d)
      (s', acc.2 ++ [Json.mkObj [("fault", true), ("done", Json.arr (d.map Json.str).toArray), ("store", storeJson s')]])
    | none =>
      let (s', o) := step acc.1 op
      (s', acc.2 ++ [outJson o])) (s0, [])
  pure (Json.mkObj [("outs", Json.arr outs.toArray), ("store", storeJson s)])

end Driver.Provider
