import Driver.Common
import Model.ClientState
namespace Driver.C14
open Lean Driver Model.ClientState

def dataOf (j : Json) : Data :=
  match j.getObjVal? "data" with
  | .ok d => ⟨getStrOpt d "redirect", getStrOpt d "verifier", getStrOpt d "nonce"⟩
  | _ => ⟨none, none, none⟩

def parseOp (j : Json) : Except String Op := do
  match (← getStr j "op") with
  | "begin" => pure (.begin (← getNat j "sess") (← getStr j "name") (← getStr j "state") (dataOf j))
  | "callback" => pure (.callback (← getNat j "sess") (← getStr j "name") (getStrOpt j "state"))
  | "advance" => pure (.advance (← getNat j "dt"))
  | op => throw s!"op {op}"

def dataJson (key : String) (d : Data) : Json := Json.arr #[Json.str key, optStr d.redirect, optStr d.verifier, optStr d.nonce]

def opName : Op → String
  | .begin _ n _ _ => n
  | .callback _ n _ => n
  | .advance _ => ""

def outJson (defaults : List (String × String)) (op : Op) : Out → Json
  | .saved => Json.mkObj [("out", "saved")]
  | .mismatch => Json.mkObj [("out", "mismatch")]
  | .ticked => Json.mkObj [("out", "ticked")]
  | .proceeds d => Json.mkObj [("out", "proceeds"), ("redirect", optStr (sentRedirect defaults (opName op) d)), ("verifier", optStr d.verifier), ("nonce", optStr d.nonce)]

def handle : Handler := fun j => do
  let cfg ← j.getObjVal? "cfg"
  let w0 := init (getBoolD cfg "cache" false) (getBoolD cfg "starlette" false) (← getInt cfg "now") (getBoolD cfg "oauth1" false)
  let defaults : List (String × String) := match cfg.getObjVal? "defaults" with
    | .ok (.obj kvs) => kvs.toList.filterMap fun (k, v) => v.getStr?.toOption.map fun s => (k, s)
    | _ => []
  let ops ← (← getArr j "ops").toList.mapM parseOp
  let (w, outs) := ops.foldl (fun (acc : World × List Json) op =>
    let (w', o) := step acc.1 op
    (w', acc.2 ++ [outJson defaults op o])) (w0, [])
  let sess (i : Nat) : Json := Json.arr ((w.sessions i).map fun e => dataJson e.key e.data).toArray
  pure (Json.mkObj [("outs", Json.arr outs.toArray),
    ("store", Json.mkObj [("sessions", Json.arr #[sess 0, sess 1]), ("cache", Json.arr (w.cache.map fun p => dataJson p.1 p.2).toArray)])])

end Driver.C14
