import Driver.Common
import Model.Jwk
import Model.KeyObject
namespace Driver.C16
open Lean Driver Model Model.Jwk

def natOf (j : Json) (k : String) : Except String Nat := do
  match (← getStr j k).toNat? with
  | some n => pure n
  | none => throw s!"nat {k}"

def fieldsOf : String → (List String × List String)
  | "rsa" => (Generated.Jose.rsaPublicKeyFields, Generated.Jose.rsaRequiredJsonFields)
  | "ec" => (Generated.Jose.ecPublicKeyFields, Generated.Jose.ecRequiredJsonFields)
  | "okp" => (Generated.Jose.okpPublicKeyFields, Generated.Jose.okpRequiredJsonFields)
  | _ => ([], Generated.Jose.octRequiredJsonFields)

def tokensOf (j : Json) : Except String Tokens := do
  (← getArr j "tokens").toList.mapM fun p => do
    pure ((← (← p.getArrVal? 0).getStr?), (← (← p.getArrVal? 1).getStr?))

def pairsOf (j : Json) (key : String) : Except String Tokens := do
  (← getArr j key).toList.mapM fun p => do
    pure ((← (← p.getArrVal? 0).getStr?), (← (← p.getArrVal? 1).getStr?))

open Model.KeyObject in
def handleKeyHist (j : Json) : Except String Json := do
  let (pf, _) := fieldsOf (← getStr j "kind")
  let k : Kind := { kty := ← getStr j "kty", publicFields := pf, allowedParams := Generated.Jose.allowedParams }
  let m : Mat := { pub := ← pairsOf j "pub", priv := ← pairsOf j "priv" }
  let options ← pairsOf j "options"
  let s0 : St ← match ← getStr j "init" with
    | "private-object" => pure (ofPrivateObject options)
    | "public-object" => pure (ofPublicObject options)
    | "private-dict" => pure (ofDict (← pairsOf j "raw") options)
    | "public-dict" => pure (ofDict (← pairsOf j "raw") options)
    | x => throw s!"init {x}"
  let ops ← (← getArr j "calls").toList.mapM fun c => do
    match ← c.getStr? with
    | "private" => pure (Op.asDict true) | "public" => pure (Op.asDict false)
    | "private-json" => pure (Op.asDict true) | "public-json" => pure (Op.asDict false)
    | "private-pem" => pure (Op.asBytes true) | "public-pem" => pure (Op.asBytes false)
    | "private-der" => pure (Op.asBytes true) | "public-der" => pure (Op.asBytes false)
    | "thumbprint" => pure Op.thumbprint | "public-key" => pure Op.getPublicKey
    | x => throw s!"call {x}"
  let (s, outs) := run k m (← getStr j "thumb") s0 ops
  let js := outs.map fun o => match o with
    | .members t =>
      let sorted := t.toArray.qsort (fun a b => a.1 < b.1)
      Json.arr (sorted.map fun (k, v) => Json.arr #[Json.str k, Json.str v])
    | .bytes true => Json.str "private-bytes"
    | .bytes false => Json.str "public-bytes"
    | .valueError => Json.str "ValueError"
    | .done => Json.str "done"
  pure (Json.mkObj [("exports", Json.arr js.toArray),
                    ("state", Json.mkObj [("private_key", Json.bool s.privObj), ("public_key", Json.bool s.pubObj), ("dict_loaded", Json.bool (!s.dict.isEmpty))])])

def handle : Handler := fun j => do
  match (← getStr j "op") with
  | "key_hist" => handleKeyHist j
  | "int_b64" => pure (Json.mkObj [("out", toHex (intToBase64 (← natOf j "n")))])
  | "b64_int" =>
    match base64ToInt (← getHex j "s") with
    | some n => pure (Json.mkObj [("n", toString n)])
    | none => pure (Json.mkObj [("n", Json.null)])
  | "coord" => pure (Json.mkObj [("out", toHex (coordToBase64 (← getNat j "len") (← natOf j "n")))])
  | "as_dict" =>
    let (pf, _) := fieldsOf (← getStr j "kind")
    match asDict pf (← getStr j "kty") (← tokensOf j) (← getBool j "isPrivate") (← getStr j "thumb") with
    | none => pure (Json.mkObj [("error", "value_error")])
    | some t =>
      let sorted := t.toArray.qsort (fun a b => a.1 < b.1)
      pure (Json.mkObj [("members", Json.arr (sorted.map fun (k, v) => Json.arr #[Json.str k, Json.str v]))])
  | "thumbprint" =>
    let (_, req) := fieldsOf (← getStr j "kind")
    match thumbprint req (← tokensOf j) with
    | some t => pure (Json.mkObj [("thumbprint", String.ofList (t.map fun c => Char.ofNat c.toNat))])
    | none => pure (Json.mkObj [("error", "key_error")])
  | op => throw s!"op {op}"

end Driver.C16
