import Driver.Common
import Model.Jwk
namespace Driver.C16
open Lean Driver Model Model.Jwk

def natOf (j : Json) (k : String) : Except String Nat := do
  match (← getStr j k).toNat? with
  | some n => pure n
  | none => throw s!"nat {k}"

def fieldsOf : String → (List String × List String)
  | "rsa" => (Generated.Jose.rsaPublicKeyFields, Generated.Jose.rsaRequiredJsonFields)
  | "ec" => (Generated.Jose.ecPublicKeyFields, Generated.Jose.ecRequiredJsonFields)
  | "okp" => (Generated.Jose.okpPublicKeyFields, Generated.Jose.okpRequiredJsonFields)
  | _ => ([], Generated.Jose.octRequiredJsonFields)

def tokensOf (j : Json) : Except String Tokens := do
  (← getArr j "tokens").toList.mapM fun p => do
    pure ((← (← p.getArrVal? 0).getStr?), (← (← p.getArrVal? 1).getStr?))

def handle : Handler := fun j => do
  match (← getStr j "op") with
  | "int_b64" => pure (Json.mkObj [("out", toHex (intToBase64 (← natOf j "n")))])
  | "b64_int" =>
    match base64ToInt (← getHex j "s") with
    | some n => pure (Json.mkObj [("n", toString n)])
    | none => pure (Json.mkObj [("n", Json.null)])
  | "coord" => pure (Json.mkObj [("out", toHex (coordToBase64 (← getNat j "len") (← natOf j "n")))])
  | "as_dict" =>
    let (pf, _) := fieldsOf (← getStr j "kind")
    match asDict pf (← getStr j "kty") (← tokensOf j) (← getBool j "isPrivate") (← getStr j "thumb") with
    | none => pure (Json.mkObj [("error", "value_error")])
    | some t =>
      let sorted := t.toArray.qsort (fun a b => a.1 < b.1)
      pure (Json.mkObj [("members", Json.arr (sorted.map fun (k, v) => Json.arr #[Json.str k, Json.str v]))])
  | "thumbprint" =>
    let (_, req) := fieldsOf (← getStr j "kind")
    match thumbprint req (← tokensOf j) with
    | some t => pure (Json.mkObj [("thumbprint", String.ofList (t.map fun c => Char.ofNat c.toNat))])
    | none => pure (Json.mkObj [("error", "key_error")])
  | op => throw s!"op {op}"

end Driver.C16
