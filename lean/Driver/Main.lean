import Driver.Common
import Driver.C08
import Driver.C04
import Driver.C04D
import Driver.C10
import Driver.C11
import Driver.C15
import Driver.C01
import Driver.C03
import Driver.C02
import Driver.C16
import Driver.C13
import Driver.C05
import Driver.C07
import Driver.Provider
import Driver.C12
import Driver.C14
import Driver.C17
import Driver.C18
import Driver.C20
open Lean Driver

def handlers : List (String × Handler) := [
  ("C08", Driver.C08.handle),
  ("C04", Driver.C04D.handle),
  ("C10", Driver.C10.handle),
  ("C11", Driver.C11.handle),
  ("C15", Driver.C15.handle),
  ("C01", Driver.C01.handle),
  ("C03", Driver.C03.handle),
  ("C02", Driver.C02.handle),
  ("C16", Driver.C16.handle),
  ("C13", Driver.C13.handle),
  ("C05", Driver.C05.handle),
  ("C07", Driver.C07.handle),
  ("C06", Driver.Provider.handle),
  ("C09", Driver.Provider.handle),
  ("C12", Driver.C12.handle),
  ("C14", Driver.C14.handle),
  ("C17", Driver.C17.handle),
  ("C18", Driver.C18.handle),
  ("C20", Driver.C20.handle),
  ("C19", fun j => match getStr j "world" with
    | .ok "oauth1" => Driver.C12.handle j
    | _ => Driver.Provider.handle j)
]

def processLine (line : String) : String :=
  match Json.parse line with
  | .error e => (Json.mkObj [("driver_error", Json.str s!"parse: {e}")]).compress
  | .ok j =>
    match getStr j "prop" with
    | .error e => (Json.mkObj [("driver_error", Json.str e)]).compress
    | .ok p =>
      match handlers.lookup p with
      | none => (Json.mkObj [("driver_error", Json.str s!"no handler for {p}")]).compress
      | some h =>
        match h j with
        | .ok r => r.compress
        | .error e => (Json.mkObj [("driver_error", Json.str e)]).compress

partial def loop (h : IO.FS.Stream) (out : IO.FS.Stream) : IO Unit := do
  let line ← h.getLine
  if line.isEmpty then return ()
  if line.trimAscii.isEmpty then loop h out else
  out.putStrLn (processLine line)
  loop h out

def main : IO Unit := do
  let out ← IO.getStdout
  loop (← IO.getStdin) out
  out.flush
