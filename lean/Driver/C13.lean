import Driver.Common
import Driver.C04
import Model.IdToken
namespace Driver.C13
open Lean Driver Model Model.Claims Model.IdToken

def parseCls : String → Except String Cls
  | "code" => pure .code | "implicit" => pure .implicit | "hybrid" => pure .hybrid
  | s => throw s!"cls {s}"

def atomJson : Atom → Json
  | .none => Json.null
  | .bool b => Json.bool b
  | .int i => Json.mkObj [("i", Json.num (Lean.JsonNumber.fromInt i))]
  | .flt q => Json.mkObj [("f", Json.num (Lean.JsonNumber.fromInt q))]
  | .str s => Json.str s

def valJson : Val → Json
  | .atom a => atomJson a
  | .list xs => Json.arr (xs.map atomJson).toArray

def handle : Handler := fun j => do
  match (← getStr j "op") with
  | "half_hash" =>
    pure (Json.mkObj [("out", optHex (createHalfHash (← getStr j "alg") (← getHex j "s")))])
  | "validate" =>
    let claims ← Driver.C04.parsePairs Driver.C04.parseVal (← getArr j "claims")
    let opts ← Driver.C04.parsePairs Driver.C04.parseOpt (← getArr j "options")
    let pj ← j.getObjVal? "params"
    let p : Params := { nonce := getStrOpt pj "nonce", clientId := getStrOpt pj "client_id",
                        accessToken := getStrOpt pj "access_token", code := getStrOpt pj "code",
                        maxAge := getBoolD pj "max_age" false }
    let r := IdToken.validate createHalfHash (← parseCls (← getStr j "cls")) claims opts p (← getStr j "alg")
      (← getInt j "now") (← getInt j "leeway")
    pure (Driver.C04.errJson r)
  | "generate" =>
    let c := generate createHalfHash (← getStr j "alg") (← getStr j "iss") (← getStr j "aud") (← getStr j "sub")
      (← getInt j "now") (← getInt j "exp") (getStrOpt j "nonce") (getStrOpt j "code") (getStrOpt j "access_token")
    let sorted := c.toArray.qsort (fun a b => a.1 < b.1)
    pure (Json.mkObj [("claims", Json.arr (sorted.map fun (k, v) => Json.arr #[Json.str k, valJson v]))])
  | op => throw s!"op {op}"

end Driver.C13
