import Driver.Common
import Model.Authorize
namespace Driver.C05
open Lean Driver Model.Authorize

def strs (j : Json) (k : String) : List String :=
  match j.getObjVal? k with
  | .ok (.arr a) => a.toList.filterMap fun x => x.getStr?.toOption
  | _ => []

def parseKind : String → Option GrantKind
  | "code" => some .code | "implicit" => some .implicit | "oidc_implicit" => some .oidcImplicit | "hybrid" => some .hybrid
  | _ => none

def parseCfg (j : Json) : Except String Config := do
  let clients ← (← getArr j "clients").toList.mapM fun c => do
    pure ({ id := ← getStr c "id", uris := strs c "uris", responseTypes := strs c "response_types", authMethod := ← getStr c "method" } : Client)
  let nonces := ((j.getObjVal? "used_nonces").toOption.bind (fun v => v.getArr?.toOption)).getD #[]
  pure { grants := (strs j "grants").filterMap parseKind, clients := clients,
         scopesSupported := match j.getObjVal? "scopes_supported" with | .ok (.arr a) => some (a.toList.filterMap fun x => x.getStr?.toOption) | _ => none,
         oidcCodeExt := getBoolD j "oidc_code_ext" false, requireNonce := getBoolD j "require_nonce" false,
         usedNonces := nonces.toList.filterMap fun p => match p.getArrVal? 0, p.getArrVal? 1 with
           | .ok (.str a), .ok (.str b) => some (a, b) | _, _ => none }

def parseReq (j : Json) : Req :=
  { responseType := getStrOpt j "response_type", clientId := getStrOpt j "client_id",
    clientSecretPresent := getBoolD j "client_secret_present" false, redirectUri := getStrOpt j "redirect_uri",
    scope := getStrOpt j "scope", state := getStrOpt j "state", nonce := getStrOpt j "nonce", prompt := getStrOpt j "prompt",
    responseMode := getStrOpt j "response_mode", codeChallenge := getStrOpt j "code_challenge",
    codeChallengeMethod := getStrOpt j "code_challenge_method", multiple := strs j "multiple" }

def modeStr : Mode → String
  | .query => "query" | .fragment => "fragment" | .formPost => "form_post"

def respJson : Resp → Json
  | .redirect t m ps => Json.mkObj [("redirect", Json.mkObj [("target", t), ("mode", modeStr m),
      ("params", Json.arr (ps.map fun (k, v) => Json.arr #[Json.str k, Json.str v]).toArray)])]
  | .localError st e => Json.mkObj [("local", Json.mkObj [("status", st), ("error", e)])]
  | .consentPage => Json.mkObj [("consent", true)]

def handle : Handler := fun j => do
  let cfg ← parseCfg (← j.getObjVal? "cfg")
  let r := parseReq (← j.getObjVal? "req")
  match (← getStr j "op") with
  | "respond" => pure (respJson (respondIss cfg (getStrOpt j "issuer") r (← getBool j "approve")))
  | "consent" => pure (respJson (consent cfg r (getBoolD j "user" true)))
  | op => throw s!"op {op}"

end Driver.C05
