import Driver.Common
import Model.ClientAuth
namespace Driver.C07
open Lean Driver Model Model.ClientAuth

def handle : Handler := fun j => do
  let clients ← (← getArr j "clients").toList.mapM fun c => do
    pure ({ id := ← getHex c "id", secret := ← getHex c "secret", method := ← getStr c "method" } : Client)
  let rj ← j.getObjVal? "req"
  let r : Req := { authorization := ← getHexOpt rj "authorization", formClientId := ← getHexOpt rj "form_client_id",
                   formSecret := ← getHexOpt rj "form_secret", dataClientId := ← getHexOpt rj "data_client_id",
                   dataSecret := ← getHexOpt rj "data_secret" }
  let methods := (← getArr j "methods").toList.filterMap fun x => x.getStr?.toOption
  match authenticate clients r methods (← getStr j "endpoint") with
  | .authenticated id m => pure (Json.mkObj [("client", toHex id), ("method", m)])
  | .invalidClient st www => pure (Json.mkObj [("invalid_client", st), ("www", www)])

end Driver.C07
