import Driver.Common
import Model.ClientAuth
import Model.ClientAssertion
import Driver.C04
namespace Driver.C07
open Lean Driver Model Model.ClientAuth

def handleAssertions (j : Json) : Except String Json := do
  let clients := (← getArr j "jwt_clients").toList.filterMap fun c =>
    (getStrOpt c "id").map fun i => ({ id := i, jwtMethod := getBoolD c "jwt" false } : Model.ClientAssertion.Client)
  let reqs ← (← getArr j "reqs").toList.mapM fun r => do
    let claims ← match r.getObjVal? "claims" with
      | .ok (.arr a) => do pure (some (← Driver.C04.parsePairs Driver.C04.parseVal a))
      | _ => pure none
    pure ({ typeOk := getBoolD r "type_ok" false, claims := claims, sigOk := getBoolD r "sig_ok" false, now := ← getInt r "now" } : Model.ClientAssertion.Req)
  let url ← getStr j "token_url"
  let (s, outs) := reqs.foldl (fun (acc : Model.ClientAssertion.St × List Json) r =>
    let (s', v) := Model.ClientAssertion.step url acc.1 r
    (s', acc.2 ++ [match v with
      | .authenticated i => Json.str ("authenticated:" ++ i)
      | .invalidClient => Json.str "invalid_client"
      | .notAttempted => Json.str "invalid_client"])) (⟨[], clients⟩, [])
  pure (Json.mkObj [("steps", Json.arr outs.toArray), ("used", Json.arr (s.used.map Json.str).toArray)])

def handle : Handler := fun j => do
  if (j.getObjVal? "reqs").toOption.isSome then handleAssertions j else
  let clients ← (← getArr j "clients").toList.mapM fun c => do
    pure ({ id := ← getHex c "id", secret := ← getHex c "secret", method := ← getStr c "method" } : Client)
  let rj ← j.getObjVal? "req"
  let r : Req := { authorization := ← getHexOpt rj "authorization", formClientId := ← getHexOpt rj "form_client_id",
                   formSecret := ← getHexOpt rj "form_secret", dataClientId := ← getHexOpt rj "data_client_id",
                   dataSecret := ← getHexOpt rj "data_secret" }
  let methods := (← getArr j "methods").toList.filterMap fun x => x.getStr?.toOption
  match authenticate clients r methods (← getStr j "endpoint") with
  | .authenticated id m => pure (Json.mkObj [("client", toHex id), ("method", m)])
  | .invalidClient st www => pure (Json.mkObj [("invalid_client", st), ("www", www)])

end Driver.C07
