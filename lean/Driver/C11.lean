import Driver.Common
import Model.OAuth1Sig
namespace Driver.C11
open Lean Driver Model Model.OAuth1Sig

def hexPairs (a : Array Json) : Except String (List (Bytes × Bytes)) :=
  a.toList.mapM fun p => do
    let k ← (← p.getArrVal? 0).getStr?
    let v ← (← p.getArrVal? 1).getStr?
    match ofHex k, ofHex v with
    | some k, some v => pure (k, v)
    | _, _ => throw "hex pair"

def handle : Handler := fun j => do
  let method ← getHex j "method"
  let parts : UrlParts := { scheme := ← getHex j "scheme", netloc := ← getHex j "netloc",
                            path := ← getHex j "path", params := ← getHex j "uparams" }
  let host ← getHexOpt j "host"
  let params ← hexPairs (← getArr j "params")
  match normalizeUri parts host with
  | none => pure (Json.mkObj [("error", "value_error")])
  | some u =>
    let bs := constructBaseString method u params
    let cs ← getHex j "cs"
    let ts ← getHex j "ts"
    let sig := hmacSignature Sha.hmacSha1 bs cs ts
    pure (Json.mkObj [("base", toHex bs), ("hmac", toHex sig), ("plaintext", toHex (sigKey cs ts))])

end Driver.C11
