import Driver.Common
import Model.ClientEmit
namespace Driver.C15
open Lean Driver Model Model.Percent Model.ClientEmit

def hexPairs (a : Array Json) : Except String Params :=
  a.toList.mapM fun p => do
    let k ← (← p.getArrVal? 0).getStr?
    let v ← (← p.getArrVal? 1).getStr?
    match ofHex k, ofHex v with
    | some k, some v => pure (k, v)
    | _, _ => throw "hex pair"

def pairsJson (ps : Params) : Json :=
  Json.arr (ps.map fun (k, v) => Json.arr #[Json.str (toHex k), Json.str (toHex v)]).toArray

def errStr : ParseErr → String
  | .missingCode => "missing_code" | .missingToken => "missing_token"
  | .missingTokenType => "missing_token_type" | .mismatchingState => "mismatching_state"

def handle : Handler := fun j => do
  let op ← getStr j "op"
  match op with
  | "token_request" =>
    let r := prepareTokenRequest (← getHex j "grant_type") (← getHex j "body") (← getHexOpt j "redirect_uri")
      (← hexPairs (← getArr j "kwargs"))
    pure (Json.mkObj [("out", toHex r), ("parsed", pairsJson (parseQsl r))])
  | "grant_query" =>
    let r := prepareGrantQuery (← getHex j "query") (← getHex j "client_id") (← getHex j "response_type")
      (← getHexOpt j "redirect_uri") (← getHexOpt j "scope") (← getHexOpt j "state") (← hexPairs (← getArr j "kwargs"))
    pure (Json.mkObj [("out", toHex r), ("parsed", pairsJson (parseQsl r))])
  | "secret_post" =>
    let r := encodeSecretPost (← getHex j "body") (← getHex j "client_id") (← getHex j "client_secret")
    pure (Json.mkObj [("out", toHex r), ("parsed", pairsJson (parseQsl r))])
  | "none" =>
    let r := encodeNone (← getHex j "body") (← getHex j "client_id")
    pure (Json.mkObj [("out", toHex r), ("parsed", pairsJson (parseQsl r))])
  | "basic" =>
    let h := encodeSecretBasic (← getHex j "client_id") (← getHex j "client_secret")
    let (a, b) := extractBasic (some h)
    pure (Json.mkObj [("out", toHex h), ("id", optHex a), ("secret", optHex b)])
  | "extract_basic" =>
    let (a, b) := extractBasic (← getHexOpt j "header")
    pure (Json.mkObj [("id", optHex a), ("secret", optHex b)])
  | "bearer" =>
    let tok ← getHex j "token"
    let ex ← getHex j "existing"
    let h := bearerHeader tok
    let q := bearerQueryOrBody ex tok
    pure (Json.mkObj [("header", toHex h), ("qs", toHex q), ("parsed", pairsJson (parseQsl q)),
      ("split", match splitNone1 h with | some (a, b) => Json.arr #[toHex a, toHex b] | none => Json.null)])
  | "parse_qsl" =>
    pure (Json.mkObj [("parsed", pairsJson (parseQsl (← getHex j "query")))])
  | "parse_code" =>
    match parseCodeResponse (← getHex j "query") (← getHexOpt j "state") with
    | .ok (c, st) => pure (Json.mkObj [("code", toHex c), ("state", optHex st)])
    | .error e => pure (Json.mkObj [("error", errStr e)])
  | "parse_implicit" =>
    match parseImplicitResponse (← getHex j "fragment") (← getHexOpt j "state") with
    | .ok (t, tt, st) => pure (Json.mkObj [("access_token", toHex t), ("token_type", toHex tt), ("state", optHex st)])
    | .error e => pure (Json.mkObj [("error", errStr e)])
  | _ => throw s!"op {op}"

end Driver.C15
