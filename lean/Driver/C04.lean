import Driver.Common
import Model.Claims
namespace Driver.C04
open Lean Driver Model.Claims

def parseAtom : Json → Except String Atom
  | .null => pure .none
  | .bool b => pure (.bool b)
  | .str s => pure (.str s)
  | j => do
    match j.getObjVal? "i" with
    | .ok v => pure (.int (← v.getInt?))
    | .error _ =>
      match j.getObjVal? "f" with
      | .ok v => pure (.flt (← v.getInt?))
      | .error _ => throw "atom"

def parseVal : Json → Except String Val
  | .arr a => do pure (.list (← a.toList.mapM parseAtom))
  | j => do pure (.atom (← parseAtom j))

def parseValidator (j : Json) : Except String Validator := do
  match j.getObjVal? "const" with
  | .ok (.bool b) => pure (.const b)
  | _ => match j.getObjVal? "eq" with
    | .ok v => pure (.eq (← parseVal v))
    | _ => match j.getObjVal? "eqClaim" with
      | .ok (.str s) => pure (.eqClaim s)
      | _ => throw "validator"

def parseOpt (j : Json) : Except String Opt := do
  let ess := getBoolD j "essential" false
  let value ← match j.getObjVal? "value" with
    | .ok v => do pure (some (← parseVal v))
    | .error _ => pure none
  let values ← match j.getObjVal? "values" with
    | .ok (.arr a) => do pure (some (← a.toList.mapM parseVal))
    | _ => pure none
  let validate ← match j.getObjVal? "validate" with
    | .ok v => do pure (some (← parseValidator v))
    | .error _ => pure none
  pure { essential := ess, value := value, values := values, validate := validate }

def parsePairs {α} (f : Json → Except String α) (a : Array Json) : Except String (List (String × α)) :=
  a.toList.mapM fun p => do
    let k ← (← p.getArrVal? 0).getStr?
    let v ← f (← p.getArrVal? 1)
    pure (k, v)

def errJson : Option Err → Json
  | none => Json.mkObj [("ok", true)]
  | some (.missing k) => Json.mkObj [("err", "missing_claim"), ("claim", k)]
  | some (.invalid k) => Json.mkObj [("err", "invalid_claim"), ("claim", k)]
  | some .expired => Json.mkObj [("err", "expired_token")]
  | some .invalidToken => Json.mkObj [("err", "invalid_token")]

def handle : Handler := fun j => do
  let claims ← parsePairs parseVal (← getArr j "claims")
  let opts ← parsePairs parseOpt (← getArr j "options")
  let now ← getInt j "now"
  let lw ← getInt j "leeway"
  pure (errJson (validate claims opts now lw))

end Driver.C04
