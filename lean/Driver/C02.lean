import Driver.Common
import Model.KeyPolicy
import Model.KeyOps
import Generated.KeyOps
namespace Driver.C02
open Lean Driver Model Model.Jws Model.KeyPolicy

def strList (j : Json) (k : String) : Option (List String) :=
  match j.getObjVal? k with
  | .ok (.arr a) => some (a.toList.filterMap fun x => x.getStr?.toOption)
  | _ => none

def parseKty (j : Json) : Except String Kty := do
  match (← getStr j "kty") with
  | "oct" => pure .oct
  | "RSA" => pure .rsa
  | "EC" => pure (.ec (← getStr j "crv"))
  | "OKP" => pure (.okp (← getStr j "crv"))
  | s => throw s!"kty {s}"

def parseKd (j : Json) : Except String KeyDesc := do
  pure { kty := ← parseKty j, isPrivate := getBoolD j "isPrivate" false, use := getStrOpt j "use",
         keyOps := strList j "keyOps", kid := getStrOpt j "kid", ident := (getNat j "ident").toOption.getD 0 }

def errStr : Err → String
  | .missingAlg => "missing_algorithm" | .unsupportedAlg => "unsupported_algorithm" | .keyValue => "key_error"
  | .invalidUse => "invalid_use" | .invalidHeaderName => "invalid_header_parameter_name"
  | .badSignature => "bad_signature" | .decode => "decode_error"

def algStr : Alg → String
  | .none => "none" | .hs b => s!"HS{b}" | .rs b => s!"RS{b}" | .ps b => s!"PS{b}"
  | .es c _ => s!"ES/{c}" | .eddsa => "EdDSA"

def handle : Handler := fun j => do
  match (← getStr j "op") with
  | "policy" =>
    let hj ← j.getObjVal? "hdr"
    let alg : Option String := match hj.getObjVal? "alg" with
      | .ok (.str s) => some s
      | .ok .null => none
      | .ok other => some ("<" ++ other.compress ++ ">")
      | .error _ => none
    let jwk : Option KeyDesc ← match hj.getObjVal? "jwk" with
      | .ok (.obj o) => do pure (some (← parseKd (.obj o)))
      | _ => pure none
    let h : Hdr := { alg := alg, kid := getStrOpt hj "kid", crit := strList hj "crit",
                     critWellFormed := getBoolD hj "critWellFormed" true, members := (strList hj "members").getD [], jwk := jwk }
    let aj ← j.getObjVal? "arg"
    let arg ← match aj.getObjVal? "single" with
      | .ok k => do pure (KeyArg.single (← parseKd k))
      | .error _ => match aj.getObjVal? "keySet" with
        | .ok (.arr a) => do pure (KeyArg.keySet (← a.toList.mapM parseKd))
        | _ => match aj.getObjVal? "dictSet" with
          | .ok (.arr a) => do pure (KeyArg.dictSet (← a.toList.mapM parseKd))
          | _ => match aj.getObjVal? "resolver" with
            | .ok (.obj o) => do pure (KeyArg.resolver (some (← parseKd (.obj o))))
            | .ok .null => pure (KeyArg.resolver none)
            | _ => if (aj.getObjVal? "absent").isOk then pure KeyArg.absent else throw "arg"
    match policy generatedRegistry Generated.Jose.privateKeyOps (strList j "allowed") ((strList j "private_headers").getD []) h arg with
    | .ok (a, k) => pure (Json.mkObj [("ok", Json.mkObj [("alg", algStr a), ("ident", k.ident)])])
    | .error e => pure (Json.mkObj [("error", errStr e)])
  | "oct_import" =>
    pure (Json.mkObj [("accepted", octImportOk Generated.Jose.possibleUnsafeKeys Generated.Jose.possibleUnsafeMarkers (← getHex j "raw"))])
  | "jwe_keyops" =>
    -- which operations the algorithm asks about: the regenerated table; whether the restricted key then performs: Model.KeyOps
    let alg ← getStr j "alg"
    let k : Model.KeyOps.Restr := { use := getStrOpt j "use", keyOps := strList j "key_ops", publicOnly := false }
    match Generated.KeyOps.keyOps.find? (fun r => r.1 == "jwe" && r.2.1 == alg) with
    | none => throw s!"alg {alg}"
    | some r =>
      let v (ops : List String) : String := if Model.KeyOps.performs ops k then "ok" else "refused"
      pure (Json.mkObj [("encrypt", v r.2.2.2.1), ("decrypt", v r.2.2.2.2)])
  | op => throw s!"op {op}"

end Driver.C02
