import Driver.Common
import Driver.C04
import Driver.C13
import Model.IdToken
import Model.JwtAccessToken
/- C04: the derived claim sets (OpenID Connect ID Token classes, RFC 9068 access-token claims) -/
namespace Driver.C04D
open Lean Driver Model Model.Claims

def handle : Handler := fun j => do
  match getStrOpt j "derived" with
  | none => Driver.C04.handle j
  | some "at9068" =>
    let claims ← Driver.C04.parsePairs Driver.C04.parseVal (← getArr j "claims")
    let typ ← match j.getObjVal? "typ" with
      | .ok v => Driver.C04.parseVal v
      | .error _ => pure (Val.atom .none)
    pure (Driver.C04.errJson (Model.JwtAccessToken.validate typ claims (← getStr j "issuer") (← getStr j "rs") (← getInt j "now")))
  | some cls =>
    let claims ← Driver.C04.parsePairs Driver.C04.parseVal (← getArr j "claims")
    let opts ← Driver.C04.parsePairs Driver.C04.parseOpt (← getArr j "options")
    let pj ← j.getObjVal? "params"
    let p : Model.IdToken.Params := { nonce := getStrOpt pj "nonce", clientId := getStrOpt pj "client_id",
                                      accessToken := getStrOpt pj "access_token", code := getStrOpt pj "code",
                                      maxAge := getBoolD pj "max_age" false }
    let r := Model.IdToken.validate Model.IdToken.createHalfHash (← Driver.C13.parseCls cls) claims opts p (← getStr j "alg")
      (← getInt j "now") (← getInt j "leeway")
    pure (Driver.C04.errJson r)

end Driver.C04D
