import Driver.Common
import Model.JwsRegistry
import Model.Sha
namespace Driver.C01
open Lean Driver Model Model.Jws

def parseKey (j : Json) : Except String Key := do
  match j.getObjVal? "oct" with
  | .ok (.str h) => match ofHex h with
    | some b => pure (.oct b)
    | none => throw "key hex"
  | _ =>
    let kind ← getStr j "kind"
    let id ← getNat j "id"
    match kind with
    | "rsa" => pure (.rsa id)
    | "ec" => pure (.ec id (← getStr j "crv"))
    | "okp" => pure (.okp id)
    | _ => throw "key kind"

def nativeMac (bits : Nat) (k m : Bytes) : Bytes :=
  if bits = 256 then Sha.hmacSha256 k m else if bits = 384 then Sha.hmacSha384 k m else Sha.hmacSha512 k m

def keyId : Key → Nat
  | .oct _ => 0 | .rsa i => i | .ec i _ => i | .okp i => i

/-- Prims from the per-case oracle tables: `headers` maps header octets (hex) to null / {"alg": …};
    `verify` is a list of {key, msg, sig, ok} answers computed by `cryptography` directly. -/
def mkPrims (j : Json) : Except String Prims := do
  let hdrs ← j.getObjVal? "headers"
  let ver := (j.getObjVal? "verify").toOption.bind (fun v => v.getArr?.toOption) |>.getD #[]
  let header : Bytes → Option (Option String) := fun b =>
    match hdrs.getObjVal? (toHex b) with
    | .ok (.obj o) => match (Json.obj o).getObjVal? "alg" with
      | .ok (.str s) => some (some s)
      | .ok .null => some none
      | .ok other => some (some ("<" ++ other.compress ++ ">"))     -- non-string alg: cannot be in the registry
      | .error _ => some none
    | _ => none
  let asymVerify : Alg → Key → Bytes → Bytes → Bool := fun _ k m s =>
    ver.any fun e =>
      (e.getObjValAs? Nat "key").toOption == some (keyId k) &&
      (e.getObjValAs? String "msg").toOption == some (toHex m) &&
      (e.getObjValAs? String "sig").toOption == some (toHex s) &&
      (e.getObjValAs? Bool "ok").toOption == some true
  pure { header := header, registry := generatedRegistry, mac := nativeMac, asymVerify := asymVerify,
         asymSign := fun _ _ _ => [] }

def errStr : JErr → String
  | .decode => "decode_error" | .missingAlg => "missing_algorithm" | .unsupportedAlg => "unsupported_algorithm"
  | .badSignature => "bad_signature" | .key => "key_error"

def parseEntry (j : Json) : Entry :=
  { protectedSeg := (getStrOpt j "protected").bind ofHex, signatureSeg := (getStrOpt j "signature").bind ofHex }

def handle : Handler := fun j => do
  let op ← getStr j "op"
  let P ← mkPrims j
  let allowed : Option (List String) := match j.getObjVal? "allowed" with
    | .ok (.arr a) => some (a.toList.filterMap fun x => x.getStr?.toOption)
    | _ => none
  let k ← parseKey (← j.getObjVal? "key")
  match op with
  | "compact" =>
    match deserializeCompact P allowed (← getHex j "token") k with
    | .ok v => pure (Json.mkObj [("ok", Json.mkObj [("header", toHex v.headerOctets), ("payload", toHex v.payload)])])
    | .error e => pure (Json.mkObj [("error", errStr e)])
  | "json" =>
    let pay := (getStrOpt j "payload").bind ofHex
    let o : JsonJws := match j.getObjVal? "signatures" with
      | .ok (.arr a) => .general pay (a.toList.map parseEntry)
      | _ => .flat pay (parseEntry j)
    match deserializeJson P allowed o k with
    | .ok v => pure (Json.mkObj [("ok", Json.mkObj [("headers", Json.arr (v.headers.map (fun h => Json.str (toHex h))).toArray), ("payload", toHex v.payload)])])
    | .error e => pure (Json.mkObj [("error", errStr e)])
  | "hmac" =>
    pure (Json.mkObj [("mac", toHex (nativeMac (← getNat j "bits") (← getHex j "k") (← getHex j "m")))])
  | "b64" =>
    pure (Json.mkObj [("dec", optHex (Base64.urlDecode (← getHex j "s")))])
  | _ => throw s!"op {op}"

end Driver.C01
