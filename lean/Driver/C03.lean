import Driver.Common
import Model.Jwe
namespace Driver.C03
open Lean Driver Model Model.Jwe

def hexOf (j : Json) (k : String) : Except String Bytes := do
  match ofHex (← getStr j k) with
  | some b => pure b
  | none => throw s!"hex {k}"

def optHex (j : Json) : Option Bytes := match j with | .str s => ofHex s | _ => none

partial def handle : Handler := fun j => do
  match (← getStr j "op") with
  | "multi" =>
    let outs ← (← getArr j "lines").toList.mapM fun l => handle l
    pure (Json.mkObj [("outs", Json.arr outs.toArray)])
  | "cbc_tag" =>
    match cbcHs (← getStr j "enc") with
    | none => throw "enc"
    | some c => pure (Json.mkObj [("tag", toHex (cbcTag c (← hexOf j "key") (← hexOf j "aad") (← hexOf j "iv") (← hexOf j "ct")))])
  | "kdf" =>
    let apu := ((getStrOpt j "apu").bind ofHex).getD []
    let apv := ((getStrOpt j "apv").bind ofHex).getD []
    let info := fixedInfo (strBytes (← getStr j "alg_id")) apu apv (← getNat j "bits")
    pure (Json.mkObj [("info", toHex info), ("key", toHex (concatKdf (← hexOf j "z") info (← getNat j "bits")))])
  | "struct" =>
    let segs := (← getArr j "segs").toList.filterMap fun s => s.getStr?.toOption |>.map fun x => x.toUTF8.toList
    let hdr : Option Header := match j.getObjVal? "header" with
      | .ok (.obj _) => match j.getObjVal? "header" with
        | .ok h => match getStrOpt h "alg", getStrOpt h "enc" with
          | some a, some e => some ⟨a, e, getStrOpt h "zip"⟩
          | _, _ => none
        | _ => none
      | _ => none
    let unwrapT : List (Bytes × Option Bytes) := (← getArr j "unwrap").toList.filterMap fun r => match r with
      | .arr a => match (a[0]? : Option Json), (a[1]? : Option Json) with
        | some k, some v => (optHex k).map fun kb => (kb, optHex v)
        | _, _ => none
      | _ => none
    let decT : List (List Bytes × Option Bytes) := (← getArr j "dec").toList.filterMap fun r => match r with
      | .arr a => some ((a.toList.take 5).filterMap optHex, (a[5]? : Option Json).bind optHex)
      | _ => none
    let infT : List (Bytes × Option Bytes) := (← getArr j "inflate").toList.filterMap fun r => match r with
      | .arr a => match (a[0]? : Option Json), (a[1]? : Option Json) with
        | some k, some v => (optHex k).map fun kb => (kb, optHex v)
        | _, _ => none
      | _ => none
    let P : Prims := {
      parseHeader := fun _ => hdr,
      unwrap := fun _ ek => (unwrapT.lookup ek).join,
      dec := fun _ cek aad iv ct tag => (decT.lookup [cek, aad, iv, ct, tag]).join,
      inflate := fun m => (infT.lookup m).join }
    match deserializeCompact P segs with
    | .ok (_, pt) => pure (Json.mkObj [("r", "ok"), ("payload", toHex pt)])
    | .error _ => pure (Json.mkObj [("r", "error")])
  | "json_struct" =>
    let prot := ((getStrOpt j "protected").getD "").toUTF8.toList
    let aadSeg := (getStrOpt j "aad").map fun a => a.toUTF8.toList
    let recs : List Recipient := (← getArr j "recipients").toList.filterMap fun r =>
      ((getStrOpt r "ek").bind ofHex).map fun ek => ⟨getStrOpt r "kid", ek⟩
    let unwrapT : List (Bytes × Option Bytes) := (← getArr j "unwrap").toList.filterMap fun r => match r with
      | .arr a => match (a[0]? : Option Json), (a[1]? : Option Json) with
        | some k, some v => (optHex k).map fun kb => (kb, optHex v)
        | _, _ => none
      | _ => none
    let decT : List (List Bytes × Option Bytes) := (← getArr j "dec").toList.filterMap fun r => match r with
      | .arr a => some ((a.toList.take 2).filterMap optHex, (a[2]? : Option Json).bind optHex)
      | _ => none
    let P : JPrims := { unwrap := fun r => (unwrapT.lookup r.ek).join, dec := fun cek aad => (decT.lookup [cek, aad]).join }
    match deserializeJson P ⟨prot, aadSeg, recs⟩ (getStrOpt j "key_kid") with
    | some pt => pure (Json.mkObj [("r", "ok"), ("payload", toHex pt)])
    | none => pure (Json.mkObj [("r", "error")])
  | op => throw s!"op {op}"

end Driver.C03
