#!/venv/bin/python
"""Entry point of every check:  ./check Cxx --tier quick|thorough   |   ./check Cxx --replay FILE

Steps (DESIGN.md §1.1): regenerate Generated/*.lean from $VERIF_REPO, build + audit the Lean
theorems of the property, run the correspondence (real code vs compiled Lean model) and the direct
property oracle on the real code, decide, write evidence.
Exit codes: 0 held / 1 VIOLATION printed / 2 harness error or timeout (never a violation).
"""
import argparse
import fcntl
import hashlib
import importlib
import json
import os
import random
import re
import subprocess
import sys
import time
import traceback

HERE = os.path.dirname(os.path.abspath(__file__))
ROOT = os.path.dirname(HERE)
LEAN = os.path.join(ROOT, "lean")
REPO = os.environ.get("VERIF_REPO", "/repo")
sys.path.insert(0, HERE)
sys.path.insert(0, REPO)
os.environ.pop("AUTHLIB_INSECURE_TRANSPORT", None)

STD_AXIOMS = {"propext", "Classical.choice", "Quot.sound"}
FORBIDDEN = re.compile(r"\bsorry\b|\badmit\b|^axiom\s|native_decide|bv_decide|implemented_by|\bunsafe\s|maxHeartbeats\s+0", re.M)


def log(*a):
    print(*a, file=sys.stderr, flush=True)


def strip_comments(src):
    # remove /- ... -/ (nested) and -- comments
    out, i, depth = [], 0, 0
    while i < len(src):
        if src.startswith("/-", i):
            depth += 1; i += 2; continue
        if depth and src.startswith("-/", i):
            depth -= 1; i += 2; continue
        if depth:
            if src[i] == "\n": out.append("\n")
            i += 1; continue
        if src.startswith("--", i):
            j = src.find("\n", i)
            i = len(src) if j < 0 else j
            continue
        out.append(src[i]); i += 1
    return "".join(out)


def lean_sources_for(pid):
    """Props file of the property + every Model/Lemmas/Generated/Props module it (transitively) imports."""
    seen, todo = [], [f"Props.{pid}"]
    while todo:
        m = todo.pop()
        p = os.path.join(LEAN, *m.split(".")) + ".lean"
        if m in seen or not os.path.exists(p):
            continue
        seen.append(m)
        for imp in re.findall(r"^import\s+(\S+)", open(p).read(), re.M):
            todo.append(imp)
    return seen


def parse_theorems(pid):
    """fully qualified names of every `theorem` in Props/<pid>.lean and in the Props.<pid>* modules it imports"""
    files, out = [os.path.join(LEAN, "Props", pid + ".lean")], []
    for imp in re.findall(r"^import\s+Props\.(\S+)", open(files[0]).read(), re.M):
        if imp.startswith(pid) and imp != pid:
            files.append(os.path.join(LEAN, "Props", imp + ".lean"))
    for p in files:
        stack = []
        for line in strip_comments(open(p).read()).split("\n"):
            m = re.match(r"^namespace\s+(\S+)", line)
            if m:
                stack.append(m.group(1)); continue
            m = re.match(r"^end\s+(\S+)", line)
            if m and stack and stack[-1] == m.group(1):
                stack.pop(); continue
            m = re.match(r"^theorem\s+([^\s:({\[]+)", line)
            if m:
                out.append(".".join(stack + [m.group(1)]))
    return out


class Build:
    def __init__(self):
        self.ok_props = False
        self.ok_driver = False
        self.log = ""
        self.broken = []          # theorem names / modules that failed
        self.axioms = {}          # theorem -> list of axioms
        self.bad_axioms = {}
        self.forbidden = []
        self.leanchecker = None


def lake(args, timeout=1500):
    return subprocess.run(["lake"] + args, cwd=LEAN, stdout=subprocess.PIPE, stderr=subprocess.STDOUT,
                          text=True, timeout=timeout)


def build_and_audit(pid, tier, theorems_expected=None):
    b = Build()
    lock = open(os.path.join(LEAN, ".build.lock"), "w")
    fcntl.flock(lock, fcntl.LOCK_EX)
    try:
        r = lake(["build", "driver"])
        b.ok_driver = r.returncode == 0
        b.log += r.stdout
        r = lake(["build", f"Props.{pid}"])
        b.ok_props = r.returncode == 0
        b.log += r.stdout
        if not b.ok_props:
            # locate the failing declarations
            for m in re.finditer(r"error: (\S+\.lean):(\d+):(\d+)", r.stdout):
                f, line = m.group(1), int(m.group(2))
                b.broken.append(locate_decl(f, line))
            if not b.broken:
                b.broken.append("build of Props.%s" % pid)
        mods = lean_sources_for(pid)
        for m in mods:
            src = strip_comments(open(os.path.join(LEAN, *m.split(".")) + ".lean").read())
            for hit in FORBIDDEN.finditer(src):
                b.forbidden.append(f"{m}: {hit.group(0).strip()}")
        if b.ok_props:
            thms = parse_theorems(pid)
            audit = os.path.join(LEAN, ".lake", f"audit_{pid}.lean")
            with open(audit, "w") as f:
                f.write(f"import Props.{pid}\n" + "".join(f"#print axioms {t}\n" for t in thms))
            r = lake(["env", "lean", audit])
            b.log += r.stdout
            cur = None
            text = r.stdout
            for m in re.finditer(r"^'([^\n]+?)' (depends on axioms: \[([^\]]*)\]|does not depend on any axioms)", text, re.S | re.M):
                ax = [a.strip() for a in (m.group(3) or "").replace("\n", " ").split(",") if a.strip()]
                b.axioms[m.group(1)] = ax
                extra = [a for a in ax if a not in STD_AXIOMS]
                if extra:
                    b.bad_axioms[m.group(1)] = extra
            for t in thms:
                if t not in b.axioms:
                    b.broken.append(t + " (not reported by #print axioms)")
            if tier == "thorough":
                r = lake(["env", "leanchecker"] + [m for m in mods], timeout=3000)
                b.leanchecker = r.returncode == 0
                b.log += r.stdout[-2000:]
    finally:
        fcntl.flock(lock, fcntl.LOCK_UN)
    return b


def locate_decl(f, line):
    p = f if os.path.isabs(f) else os.path.join(LEAN, f)
    try:
        lines = open(p).read().split("\n")
    except OSError:
        return f"{f}:{line}"
    for i in range(min(line, len(lines)) - 1, -1, -1):
        m = re.match(r"\s*(?:private\s+)?(theorem|lemma|def|example|instance|abbrev)\s+([^\s:({\[]+)?", lines[i])
        if m:
            return f"{m.group(1)} {m.group(2) or ''} ({f}:{line})"
    return f"{f}:{line}"


def run_driver(lines, timeout=3000):
    exe = os.path.join(LEAN, ".lake", "build", "bin", "driver")
    inp = "\n".join(json.dumps(l, ensure_ascii=True, separators=(",", ":")) for l in lines) + "\n"
    r = subprocess.run([exe], input=inp, stdout=subprocess.PIPE, stderr=subprocess.PIPE, text=True, timeout=timeout)
    if r.returncode != 0:
        raise RuntimeError("driver failed: " + r.stderr[-2000:])
    outs = [json.loads(x) for x in r.stdout.split("\n") if x.strip()]
    if len(outs) != len(lines):
        raise RuntimeError(f"driver answered {len(outs)} lines for {len(lines)} cases")
    return outs


def _canon_default(o):
    if isinstance(o, (set, frozenset)):
        return sorted(o, key=repr)
    if isinstance(o, bytes):
        return {"bytes": o.hex()}
    return repr(o)


def canon(x):
    return json.dumps(x, sort_keys=True, ensure_ascii=True, separators=(",", ":"), default=_canon_default)


def load_known(pid):
    p = os.path.join(ROOT, "known_findings.json")
    if not os.path.exists(p):
        return []
    data = json.load(open(p))
    return [e for e in data.get("findings", []) if e.get("property") == pid]


def match_known(entries, sig):
    for e in entries:
        if all(sig.get(k) == v for k, v in e["match"].items()):
            return e
    return None


def write_replay(pid, seed, payload):
    d = os.path.join(ROOT, "replays")
    os.makedirs(d, exist_ok=True)
    h = hashlib.sha1(canon(payload).encode()).hexdigest()[:10]
    p = os.path.join(d, f"{pid}-{seed}-{h}.json")
    with open(p, "w") as f:
        json.dump(payload, f, indent=1, sort_keys=True, default=str)
    return p


def main():
    ap = argparse.ArgumentParser()
    ap.add_argument("pid")
    ap.add_argument("--tier", default=os.environ.get("VERIF_TIER", "quick"))
    ap.add_argument("--replay")
    ap.add_argument("--no-build", action="store_true", help="development only: skip lake")
    a = ap.parse_args()
    pid, tier = a.pid, a.tier
    seed = int(os.environ.get("VERIF_SEED", "0") or 0)
    t0 = time.monotonic()
    try:
        rc = run(pid, tier, seed, a, t0)
    except subprocess.TimeoutExpired as e:
        log("TIMEOUT", e); rc = 2
    except Exception:
        traceback.print_exc(); rc = 2
    sys.exit(rc)


def run(pid, tier, seed, a, t0):
    import extract
    mod = importlib.import_module("props." + pid.lower())
    rng = random.Random(f"{pid}-{seed}")
    breaks = []          # things that no longer check (proof / correspondence / extraction)
    violations = []      # (what, sig, case, out)
    known_printed = {}

    # ---- 1. regenerated layer
    try:
        extract.run(REPO, LEAN)
    except Exception as e:
        log("extraction failed:", repr(e))
        breaks.append({"kind": "extraction", "what": f"harness/extract.py could not regenerate the data layer: {e!r}"})

    # ---- 2. build + audit
    if a.no_build:
        b = Build(); b.ok_props = b.ok_driver = True
        thms = parse_theorems(pid)
        b.axioms = {t: [] for t in thms}
    else:
        b = build_and_audit(pid, tier)
    thms = parse_theorems(pid)
    for x in b.broken:
        breaks.append({"kind": "proof-break", "what": f"Lean proof obligation no longer checks: {x}"})
    for t, ax in b.bad_axioms.items():
        breaks.append({"kind": "proof-break", "what": f"theorem {t} depends on non-standard axioms {ax}"})
    for fbd in b.forbidden:
        breaks.append({"kind": "proof-break", "what": f"forbidden construct in Lean sources: {fbd}"})
    if b.leanchecker is False:
        breaks.append({"kind": "proof-break", "what": "leanchecker rejected the compiled modules"})
    discharged = sum(1 for t in thms if t in b.axioms and t not in b.bad_axioms) if b.ok_props else 0

    # ---- 3/4. correspondence + oracle
    known = load_known(pid)
    stats = {"evaluations": 0, "hist": {}, "nontrivial": set(), "samples": [], "disagreements": 0,
             "skipped": 0, "traces": 0}
    if a.replay:
        rp = json.load(open(a.replay))
        cases = [rp["case"]] if "case" in rp and rp["case"] is not None else []
        if not cases:
            log("replay file carries no input case (no-failing-input-found); re-running the full check instead")
            cases = None
    else:
        cases = None
    if cases is None:
        cases = []
        for e in known:                       # listed witnesses first
            if "witness" in e:
                c = dict(e["witness"]); c["_known"] = e["id"]; cases.append(c)
        cdir = os.path.join(ROOT, "corpus", pid)
        if os.path.isdir(cdir):
            for fn in sorted(os.listdir(cdir)):
                cases.append(json.load(open(os.path.join(cdir, fn))))
        cases.extend(mod.cases(rng, tier))
    log(f"[{pid}] {len(cases)} cases, build props={b.ok_props} driver={b.ok_driver} t={time.monotonic()-t0:.1f}s")

    impl_outs = []
    for c in cases:
        try:
            o = mod.impl(c)
        except Exception as e:
            import traceback as _tb
            frames = _tb.extract_tb(e.__traceback__)
            lib = [f for f in frames if "/authlib/" in f.filename]
            if not lib:                      # adapter bug: harness error, not a violation
                log("adapter raised on case", canon(c)[:500]); raise
            # the library itself raised on a case of this property's domain (no case does on the unchanged tree)
            o = {"__impl_raised__": f"{type(e).__name__}: {str(e)[:160]}", "site": f"{lib[-1].filename.split('/authlib/')[-1]}:{lib[-1].name}"}
        impl_outs.append(o)
    model_outs = [None] * len(cases)
    if b.ok_driver and getattr(mod, "HAS_MODEL", True):
        def _line(c, io):
            if isinstance(io, dict) and "__impl_raised__" in io:
                return None
            try:
                return mod.model_line(c) if hasattr(mod, "model_line") else c
            except Exception:
                return None
        lines = [_line(c, io) for c, io in zip(cases, impl_outs)]
        idx = [i for i, l in enumerate(lines) if l is not None]
        try:
            outs = run_driver([dict(lines[i], prop=pid) for i in idx])
            for i, o in zip(idx, outs):
                if hasattr(mod, "model_canon_for"):          # canonical form that depends on the case (e.g. "verifies iff the chosen key is the signer's")
                    o = mod.model_canon_for(cases[i], o)
                model_outs[i] = mod.model_canon(o) if hasattr(mod, "model_canon") else o
        except Exception as e:
            breaks.append({"kind": "correspondence-break", "what": f"model driver could not run: {e!r}"})
    elif not b.ok_driver:
        breaks.append({"kind": "correspondence-break", "what": "model driver does not build against the regenerated data layer"})

    first_disagree = None
    for c, io, mo in zip(cases, impl_outs, model_outs):
        stats["evaluations"] += 1
        if isinstance(io, dict) and "__impl_raised__" in io:
            stats["hist"]["impl-raised"] = stats["hist"].get("impl-raised", 0) + 1
            violations.append({"what": f"the library raised {io['__impl_raised__']} (at {io['site']}) on an input of this property's domain that the statement requires it to handle",
                               "sig": {"kind": "impl-raised", "exc": io["__impl_raised__"].split(":")[0], "site": io["site"]}, "case": c, "impl": io})
            continue
        k = mod.classify(c, io) if hasattr(mod, "classify") else str(io)[:40]
        stats["hist"][k] = stats["hist"].get(k, 0) + 1
        nt = mod.nontrivial(c, io) if hasattr(mod, "nontrivial") else canon(c)
        if nt is not None:
            stats["nontrivial"].add(hashlib.sha1(canon(nt).encode()).hexdigest())
        if len(stats["samples"]) < 5 and rngpick(stats, k):
            stats["samples"].append({"case": trim(c), "impl": trim(io), "model": trim(mo)})
        # direct property oracle on the implementation
        try:
            verdicts = mod.oracle(c, io) or []
        except Exception as e:               # the real code answered in a shape the statement oracle cannot read: a break, decided by the search below
            verdicts = []
            if not any(b_.get("kind") == "oracle-break" for b_ in breaks):
                breaks.append({"kind": "oracle-break", "what": f"the statement oracle could not evaluate an implementation output: {type(e).__name__}: {e}",
                               "first": {"case": c, "impl": trim(io)}})
        for what, sig in verdicts:
            e = match_known(known, sig)
            if e is not None:
                known_printed.setdefault(e["id"], (e, c))
            else:
                violations.append({"what": what, "sig": sig, "case": c, "impl": io})
        # correspondence
        if mo is not None:
            if isinstance(mo, dict) and "unsupported" in mo:
                stats["skipped"] += 1
            else:
                exp = mod.project(c, io) if hasattr(mod, "project") else io
                if canon(exp) != canon(mo):
                    stats["disagreements"] += 1
                    if first_disagree is None:
                        first_disagree = {"case": c, "impl": exp, "model": mo}
                else:
                    stats["traces"] += 1
    if first_disagree is not None:
        breaks.append({"kind": "correspondence-break",
                       "what": f"model and implementation disagree on {stats['disagreements']} case(s)",
                       "first": first_disagree})

    # ---- 5. decision
    rc = 0
    for e, c in known_printed.values():
        print(f"KNOWN-FINDING: property={pid} {e['what']}")
    replay_paths = []
    if violations:
        v = min(violations, key=lambda v: len(canon(v["case"])))     # smallest failing input
        if hasattr(mod, "shrink"):
            try:
                v = mod.shrink(v) or v
            except Exception:
                traceback.print_exc()
        p = write_replay(pid, seed, {"property": pid, "kind": "impl-violation", "what": v["what"],
                                     "sig": v["sig"], "case": v["case"], "observed": v["impl"], "seed": seed,
                                     "others": len(violations) - 1,
                                     "how_to_run": f"./check {pid} --replay <this file>"})
        print(f"VIOLATION property={pid} replay={p}")
        rc = 1
    elif breaks:
        found = None
        if hasattr(mod, "search"):
            try:
                found = mod.search(breaks, random.Random(f"search-{pid}-{seed}"), known, match_known)
            except Exception:
                traceback.print_exc()
        if found:
            p = write_replay(pid, seed, {"property": pid, "kind": "impl-violation", "what": found["what"],
                                         "sig": found.get("sig"), "case": found["case"], "observed": found.get("impl"),
                                         "broken": breaks, "seed": seed})
            print(f"VIOLATION property={pid} replay={p}")
        else:
            p = write_replay(pid, seed, {"property": pid, "kind": breaks[0]["kind"], "case": None,
                                         "broken": breaks, "seed": seed,
                                         "note": "no input was found on which the property statement itself fails; "
                                                 "the property is no longer shown to hold"})
            print(f"VIOLATION property={pid} replay={p} no-failing-input-found")
        rc = 1

    # ---- 6. evidence
    wall = time.monotonic() - t0
    ev = {
        "property_id": pid, "tier": tier if tier in ("quick", "thorough") else "quick", "seed": seed, "level": "proof",
        "coverage": {
            "obligations": len(thms), "discharged": discharged,
            "checker_cmd": f"cd lean && lake build Props.{pid} && lake env lean <#print axioms of every theorem in Props/{pid}.lean>"
                           + (" && lake env leanchecker <modules>" if tier == "thorough" else ""),
            "trusted_base": ["Lean 4.33.0 kernel", "axioms actually used: " + ", ".join(sorted({x for v in b.axioms.values() for x in v})) ,
                             "no sorry/admit/native_decide/bv_decide/user axioms (grep + #print axioms on every run)",
                             "harness/extract.py (regenerated data layer)", "correspondence harness + compiled Lean driver",
                             "CPython, cryptography (primitive answers)"] + list(getattr(mod, "TRUSTED", [])),
            "theorems": thms,
            "evaluations": stats["evaluations"], "distinct_nontrivial": len(stats["nontrivial"]),
            "rule": getattr(mod, "RULE", "distinct generated cases"),
            "samples": stats["samples"] or [{"note": "no cases"}],
            "traces_validated_against_impl": stats["traces"],
            "model_skipped_unsupported": stats["skipped"],
            "disagreements": stats["disagreements"],
            "histogram": dict(sorted(stats["hist"].items(), key=lambda kv: -kv[1])[:40]),
            "leanchecker": b.leanchecker,
            "known_findings_reproduced": sorted(known_printed),
            "broken": [x["what"] for x in breaks],
        },
        "assumptions": list(getattr(mod, "ASSUMPTIONS", [])),
        "wall_s": round(wall, 2), "violations": len(violations) + (1 if (breaks and not violations) else 0),
    }
    os.makedirs(os.path.join(ROOT, "evidence"), exist_ok=True)
    with open(os.path.join(ROOT, "evidence", pid + ".json"), "w") as f:
        json.dump(ev, f, indent=1, sort_keys=True, default=str)
    log(f"[{pid}] done rc={rc} evaluations={stats['evaluations']} agree={stats['traces']} "
        f"disagree={stats['disagreements']} violations={len(violations)} breaks={len(breaks)} wall={wall:.1f}s")
    if rc and breaks:
        for x in breaks:
            log("  broken:", x["what"])
    return rc


def rngpick(stats, k):
    # keep one sample per distinct class first
    seen = stats.setdefault("_seen", set())
    if k in seen:
        return False
    seen.add(k); return True


def trim(x, n=600):
    s = canon(x)
    return x if len(s) <= n else s[:n] + "…"


if __name__ == "__main__":
    main()
