"""Reference integrator (DESIGN.md A.1): an in-memory OAuth 2 provider built on the REAL authlib core
(`authlib.oauth2.rfc6749.AuthorizationServer`, grants, endpoints, resource protector).

Everything the integrator would put in a database lives in `Store`; every integrator callback goes
through `Store.cb(name)` so that callbacks can be traced (C19 flow tables) and made to fail at the
k-th invocation (C19 fault injection). Random strings are replaced by deterministic counters so that
histories can be compared with the Lean model.
"""
import json
import time as _time

from authlib.oauth2.rfc6749 import AuthorizationServer, ClientMixin, TokenMixin, AuthorizationCodeMixin
from authlib.oauth2.rfc6749 import grants, OAuth2Request, JsonRequest
from authlib.oauth2.rfc6749.util import scope_to_list, list_to_scope
from authlib.oauth2.rfc6750 import BearerTokenGenerator, BearerTokenValidator
from authlib.oauth2.rfc7009 import RevocationEndpoint
from authlib.oauth2.rfc7662 import IntrospectionEndpoint
from authlib.oauth2.rfc7636 import CodeChallenge
from authlib.oauth2.rfc8628 import DeviceAuthorizationEndpoint, DeviceCodeGrant, DeviceCredentialMixin, DeviceCredentialDict
from authlib.oauth2 import ResourceProtector as _RP
from authlib.oauth2.rfc6749.resource_protector import ResourceProtector
from authlib.oidc.core import grants as oidc_grants
from authlib.oidc.core import UserInfo


class Fault(Exception):
    """injected storage failure"""


# storage layers fail with all sorts of exception classes; none of them may be mistaken for a protocol condition
class FaultValue(Fault, ValueError): pass
class FaultType(Fault, TypeError): pass
class FaultKey(Fault, KeyError): pass
class FaultOS(Fault, OSError): pass
class FaultAttr(Fault, AttributeError): pass
class FaultLookup(Fault, LookupError): pass
def _db_fault():
    from django.db import OperationalError

    class FaultDB(Fault, OperationalError):
        pass
    return FaultDB


class _LazyFaults(dict):
    def __missing__(self, k):
        if k == "DatabaseError":          # django.db.OperationalError, as a database that is down raises it
            self[k] = _db_fault()
            return self[k]
        raise KeyError(k)


FAULT_CLASSES = _LazyFaults({None: Fault, "Fault": Fault, "ValueError": FaultValue, "TypeError": FaultType, "KeyError": FaultKey, "OSError": FaultOS, "AttributeError": FaultAttr,
                 "LookupError": FaultLookup})


class Clock:
    def __init__(self, now=1_000_000):
        self.now = now

    def __call__(self):
        return self.now


CLOCK = Clock()


def install_clock():
    _time.time = CLOCK


class User:
    def __init__(self, uid):
        self.id = self.pk = uid

    def get_user_id(self):
        return self.id


from authlib.integrations.sqla_oauth2 import OAuth2ClientMixin, OAuth2TokenMixin, OAuth2AuthorizationCodeMixin
from authlib.integrations.sqla_oauth2 import create_revocation_endpoint, create_bearer_token_validator, create_query_token_func


class Client(OAuth2ClientMixin):
    """the repo's own reference client (sqla_oauth2.OAuth2ClientMixin) without a database"""
    def __init__(self, cid, secret="", uris=(), scope="", grant_types=(), response_types=(), method="client_secret_basic",
                 extra=None):
        self.client_id = cid
        self.client_secret = secret
        self.client_id_issued_at = 0
        self.client_secret_expires_at = 0
        md = {"redirect_uris": list(uris), "scope": scope, "grant_types": list(grant_types), "response_types": list(response_types), "token_endpoint_auth_method": method}
        if method is None:
            md.pop("token_endpoint_auth_method")          # registered without the member: RFC 7591's default (client_secret_basic) applies
        self.set_client_metadata(md)
        self.extra = extra or {}


class AuthCode(OAuth2AuthorizationCodeMixin):
    def __init__(self, **kw):
        self.__dict__.update(kw)
        self.code_challenge = kw.get("code_challenge")
        self.code_challenge_method = kw.get("code_challenge_method")


class Token(OAuth2TokenMixin):
    def __init__(self, **kw):
        self.access_token_revoked_at = 0
        self.refresh_token_revoked_at = 0
        self.__dict__.update(kw)

    def get_user(self):
        return User(self.user_id) if self.user_id is not None else None

    def get_client(self):
        return self._store.clients.get(self.client_id)


class FakeQuery:
    def __init__(self, items):
        self.items = items

    def filter_by(self, **kw):
        return FakeQuery([i for i in self.items if all(getattr(i, k, None) == v for k, v in kw.items())])

    def first(self):
        return self.items[0] if self.items else None


class FakeSession:
    """just enough of a SQLAlchemy session for sqla_oauth2.functions"""
    def __init__(self, store):
        self.store = store

    def query(self, model):
        self.store.cb("query_token")
        self._begin = [(t, dict(t.__dict__)) for t in self.store.tokens]     # transaction start: what a rollback restores
        return FakeQuery(list(self.store.tokens))

    def add(self, obj):
        pass

    def commit(self):
        try:
            self.store.cb("commit")
        except Fault:
            for t, d in getattr(self, "_begin", []):      # a failed commit leaves the database as it was
                t.__dict__.clear(); t.__dict__.update(d)
            raise


class DeviceCred(DeviceCredentialDict):
    """the repo's own dict-backed device credential (rfc8628.models.DeviceCredentialDict: its expiry rule is the code under
    verification), holding everything DeviceAuthorizationEndpoint hands to save_device_credential"""
    device_code = property(lambda self: self["device_code"])
    user_code = property(lambda self: self["user_code"])
    client_id = property(lambda self: self["client_id"])
    scope = property(lambda self: self.get("scope"))
    expires_at = property(lambda self: self["expires_at"])


class Store:
    def __init__(self):
        self.clients = {}
        self.codes = []
        self.tokens = []
        self.devices = []
        self.user_grants = {}      # user_code -> (uid, approved)
        self.last_poll = {}
        self.jtis = set()
        self.fresh = 0
        self.trace = []            # callback names in invocation order (per request; reset by caller)
        self.events = []           # callbacks + "gen" (a credential string was generated) + "respond" (response object built)
        self.fail_at = None        # index of the callback invocation that raises Fault
        self.users = {1: User(1), 2: User(2)}
        self.jwt = {"key": "id-token-secret", "alg": "HS256", "iss": "https://as.example", "exp": 3600}
        self.used_nonces = set()   # (client_id, nonce) pairs the integrator recorded for front-channel ID tokens

    def cb(self, name):
        i = len(self.trace)
        self.trace.append(name)
        if self.fail_at is not None and i == self.fail_at:
            raise FAULT_CLASSES[getattr(self, "fault_type", None)](f"injected fault at callback #{i} {name}")
        self.events.append(name)

    def nxt(self, prefix):
        self.events.append("gen")
        self.fresh += 1
        return f"{prefix}{self.fresh}"

    def snapshot(self):
        return {
            "codes": sorted((c.code, c.client_id, c.user_id) for c in self.codes),
            "tokens": sorted((t.access_token, t.refresh_token or "", t.client_id, t.user_id if t.user_id is not None else -1,
                              t.scope or "", int(bool(t.access_token_revoked_at)), int(bool(t.refresh_token_revoked_at)))
                             for t in self.tokens),
            "devices": sorted((d.device_code, d.client_id) for d in self.devices),
        }


class Req:
    """framework request as the harness hands it to the server"""
    def __init__(self, method="POST", uri="https://as.example/ep", form=None, headers=None, user=None, json_body=None):
        self.method, self.uri, self.form, self.headers, self.user = method, uri, form or {}, headers or {}, user
        self.json_body = json_body          # a JSON document as the request body (Content-Type: application/json) instead of a form


class Resp:
    def __init__(self, status, body, headers):
        self.status, self.body, self.headers = status, body, dict(headers)

    # (the attribute response hooks such as RFC 9207's IssuerParameter read and write, as on a werkzeug response)
    @property
    def location(self):
        return self.headers.get("Location")

    @location.setter
    def location(self, v):
        self.headers["Location"] = v


class MemServer(AuthorizationServer):
    def __init__(self, store, scopes_supported=None):
        super().__init__(scopes_supported=scopes_supported)
        self.store = store
        self.signals = []

    def query_client(self, client_id):
        self.store.cb("query_client")
        return self.store.clients.get(client_id)

    def save_token(self, token, request):
        self.store.cb("save_token")
        st = self.store
        st.tokens.append(Token(
            _store=st, access_token=token["access_token"], refresh_token=token.get("refresh_token"),
            client_id=request.client.get_client_id(), user_id=request.user.get_user_id() if request.user else None,
            scope=token.get("scope"), expires_in=token.get("expires_in", 0), issued_at=CLOCK(), token_type=token["token_type"],
        ))

    def send_signal(self, name, *args, **kwargs):
        self.signals.append(name)

    def create_oauth2_request(self, request):
        if isinstance(request, OAuth2Request):
            return request
        r = OAuth2Request(request.method, request.uri, dict(request.form) if request.form is not None else None, request.headers)
        r.user = request.user
        return r

    def create_json_request(self, request):
        return JsonRequest(request.method, request.uri, request.form, request.headers)

    def handle_response(self, status, body, headers):
        self.store.events.append("respond")
        return Resp(status, body, headers)


def _save_token(store, token, request):
    store.cb("save_token")
    store.tokens.append(Token(
        _store=store, access_token=token["access_token"], refresh_token=token.get("refresh_token"),
        client_id=request.client.get_client_id(), user_id=request.user.get_user_id() if request.user else None,
        scope=token.get("scope"), expires_in=token.get("expires_in", 0), issued_at=CLOCK(), token_type=token["token_type"],
    ))


def flask_server(store, scopes_supported=None, lazy=False):
    """the Flask integration's AuthorizationServer (its request wrapper, response builder and configuration reading) over the same in-memory store"""
    from flask import Flask
    from authlib.integrations.flask_oauth2 import AuthorizationServer as FlaskAS
    app = Flask("memserver-flask")
    app.config["PROPAGATE_EXCEPTIONS"] = True
    if scopes_supported is not None:
        app.config["OAUTH2_SCOPES_SUPPORTED"] = scopes_supported

    def query_client(client_id):
        store.cb("query_client")
        return store.clients.get(client_id)
    if lazy:
        # the application-factory pattern: the server object exists before the app, init_app() configures it
        srv = FlaskAS()
        srv.init_app(app, query_client=query_client, save_token=lambda token, request: _save_token(store, token, request))
    else:
        srv = FlaskAS(app, query_client=query_client, save_token=lambda token, request: _save_token(store, token, request))
    srv.store, srv.app, srv.framework = store, app, "flask"
    return srv


def django_server(store, scopes_supported=None):
    """the Django integration's AuthorizationServer over the same in-memory store (fake model classes in place of the ORM)"""
    from django.conf import settings
    if not settings.configured:
        settings.configure(DEBUG=False, SECRET_KEY="x", ALLOWED_HOSTS=["*"])
    import django
    django.setup()
    from authlib.integrations.django_oauth2 import AuthorizationServer as DjangoAS
    settings.AUTHLIB_OAUTH2_PROVIDER = {} if scopes_supported is None else {"scopes_supported": scopes_supported}

    class DoesNotExist(Exception):
        pass

    class Objects:
        @staticmethod
        def get(client_id=None):
            store.cb("query_client")
            c = store.clients.get(client_id)
            if c is None:
                raise DoesNotExist()
            return c

    class ClientModel:
        objects = Objects
    ClientModel.DoesNotExist = DoesNotExist

    class Srv(DjangoAS):
        def save_token(self, token, request):
            return _save_token(store, token, request)
    try:
        srv = Srv(ClientModel, None)
    finally:
        del settings.AUTHLIB_OAUTH2_PROVIDER
    srv.store, srv.framework = store, "django"
    return srv


def fw_call(srv, req, what, *pre, **kw):
    """run `what` (a server method name) on the request `req` (a Req) through the framework the server belongs to; returns a Resp or the method's value"""
    from urllib.parse import urlparse as _up
    fw = getattr(srv, "framework", None)
    if fw is None:
        return getattr(srv, what)(*pre, req, **kw)
    u = _up(req.uri)
    path = u.path + ("?" + u.query if u.query else "")
    if fw == "flask":
        body_kw = {"json": req.json_body} if getattr(req, "json_body", None) is not None else {"data": dict(req.form) if req.method != "GET" else None}
        with srv.app.test_request_context(path, method=req.method, headers=dict(req.headers), base_url=f"{u.scheme}://{u.netloc}", **body_kw):
            r = getattr(srv, what)(*pre, None, **kw)
            if hasattr(r, "status_code"):
                ct = r.headers.get("Content-Type", "")
                text = r.get_data(as_text=True)
                return Resp(r.status_code, json.loads(text) if text[:1] == "{" else text, list(r.headers.items()))
            return r
    from django.test import RequestFactory
    rf = RequestFactory()
    extra = {"HTTP_" + k.upper().replace("-", "_"): v for k, v in dict(req.headers).items()}
    if getattr(req, "json_body", None) is not None:
        dreq = rf.post(path, data=json.dumps(req.json_body), content_type="application/json", secure=u.scheme == "https", HTTP_HOST=u.netloc, **extra)
    else:
        dreq = (rf.get if req.method == "GET" else rf.post)(path, **({} if req.method == "GET" else {"data": dict(req.form)}), secure=u.scheme == "https", HTTP_HOST=u.netloc, **extra)
    r = getattr(srv, what)(*pre, dreq, **kw)
    if hasattr(r, "status_code"):
        text = r.content.decode()
        return Resp(r.status_code, json.loads(text) if text[:1] == "{" else text, list(r.items()))
    return r


def make_generators(store, server, jwt_generator=None):
    def at(client, grant_type, user, scope):
        return store.nxt("at")

    def rt(client, grant_type, user, scope):
        return store.nxt("rt")
    server.register_token_generator("default", BearerTokenGenerator(at, rt))


class CodeGrant(grants.AuthorizationCodeGrant):
    TOKEN_ENDPOINT_AUTH_METHODS = ["client_secret_basic", "client_secret_post", "none"]

    def generate_authorization_code(self):
        return self.server.store.nxt("code")

    def save_authorization_code(self, code, request):
        st = self.server.store
        st.cb("save_authorization_code")
        st.codes.append(AuthCode(
            code=code, client_id=request.client.get_client_id(), redirect_uri=request.redirect_uri, scope=request.scope,
            user_id=request.user.get_user_id(), nonce=request.data.get("nonce"),
            code_challenge=request.data.get("code_challenge"), code_challenge_method=request.data.get("code_challenge_method"),
            auth_time=CLOCK(),
        ))
        return code

    def query_authorization_code(self, code, client):
        st = self.server.store
        st.cb("query_authorization_code")
        for c in st.codes:
            if c.code == code and c.client_id == client.get_client_id() and not c.is_expired():
                return c

    def delete_authorization_code(self, authorization_code):
        st = self.server.store
        st.cb("delete_authorization_code")
        st.codes = [c for c in st.codes if c is not authorization_code]

    def authenticate_user(self, authorization_code):
        st = self.server.store
        st.cb("authenticate_user")
        return st.users.get(authorization_code.user_id)


class OpenIDCodeExt(oidc_grants.OpenIDCode):
    def __init__(self, store, require_nonce=False):
        super().__init__(require_nonce=require_nonce)
        self.store = store

    def exists_nonce(self, nonce, request):
        self.store.cb("exists_nonce")
        return any(c.nonce == nonce and c.client_id == request.client_id for c in self.store.codes) or \
            (request.client_id, nonce) in self.store.used_nonces

    def get_jwt_config(self, grant):
        return self.store.jwt if getattr(self.store, "jwt_shared", False) else dict(self.store.jwt)

    def get_audiences(self, request):
        # (an integrator may name the audience as one string: a JWT `aud` is a string or a list of strings)
        return request.client.get_client_id() if getattr(self.store, "aud_str", False) else super().get_audiences(request)

    def generate_user_info(self, user, scope):
        return UserInfo(sub=str(user.get_user_id()))


class ImplicitGrant(grants.ImplicitGrant):
    pass


class OIDCImplicit(oidc_grants.OpenIDImplicitGrant):
    def exists_nonce(self, nonce, request):
        self.server.store.cb("exists_nonce")
        return (request.client_id, nonce) in self.server.store.used_nonces or \
            any(c.nonce == nonce and c.client_id == request.client_id for c in self.server.store.codes)

    def get_jwt_config(self):
        return self.server.store.jwt if getattr(self.server.store, "jwt_shared", False) else dict(self.server.store.jwt)

    def get_audiences(self, request):
        return request.client.get_client_id() if getattr(self.server.store, "aud_str", False) else super().get_audiences(request)

    def generate_user_info(self, user, scope):
        return UserInfo(sub=str(user.get_user_id()))


class OIDCHybrid(oidc_grants.OpenIDHybridGrant):
    def generate_authorization_code(self):
        return self.server.store.nxt("code")

    def save_authorization_code(self, code, request):
        return CodeGrant.save_authorization_code(self, code, request)

    def exists_nonce(self, nonce, request):
        self.server.store.cb("exists_nonce")
        return (request.client_id, nonce) in self.server.store.used_nonces or \
            any(c.nonce == nonce and c.client_id == request.client_id for c in self.server.store.codes)

    def get_jwt_config(self):
        return self.server.store.jwt if getattr(self.server.store, "jwt_shared", False) else dict(self.server.store.jwt)

    def get_audiences(self, request):
        return request.client.get_client_id() if getattr(self.server.store, "aud_str", False) else super().get_audiences(request)

    def generate_user_info(self, user, scope):
        return UserInfo(sub=str(user.get_user_id()))


class PasswordGrant(grants.ResourceOwnerPasswordCredentialsGrant):
    TOKEN_ENDPOINT_AUTH_METHODS = ["client_secret_basic", "client_secret_post", "none"]

    def authenticate_user(self, username, password):
        self.server.store.cb("authenticate_user")
        if password == "pw":
            try:
                return self.server.store.users.get(int(username))
            except ValueError:
                return None


class ClientCredentialsGrant(grants.ClientCredentialsGrant):
    TOKEN_ENDPOINT_AUTH_METHODS = ["client_secret_basic", "client_secret_post"]


class RefreshGrant(grants.RefreshTokenGrant):
    TOKEN_ENDPOINT_AUTH_METHODS = ["client_secret_basic", "client_secret_post", "none"]
    INCLUDE_NEW_REFRESH_TOKEN = True

    def authenticate_refresh_token(self, refresh_token):
        st = self.server.store
        st.cb("authenticate_refresh_token")
        for t in st.tokens:
            if t.refresh_token == refresh_token and not t.refresh_token_revoked_at:
                return t

    def authenticate_user(self, credential):
        self.server.store.cb("authenticate_user")
        return self.server.store.users.get(credential.user_id)

    def revoke_old_credential(self, credential):
        self.server.store.cb("revoke_old_credential")
        credential.access_token_revoked_at = CLOCK()
        credential.refresh_token_revoked_at = CLOCK()


class DevGrant(DeviceCodeGrant):
    def query_device_credential(self, device_code):
        st = self.server.store
        st.cb("query_device_credential")
        for d in st.devices:
            if d.device_code == device_code:
                return d

    def query_user_grant(self, user_code):
        st = self.server.store
        st.cb("query_user_grant")
        g = st.user_grants.get(user_code)
        if g is None:
            return None
        return st.users.get(g[0]), g[1]

    def should_slow_down(self, credential):
        st = self.server.store
        st.cb("should_slow_down")
        last = st.last_poll.get(credential.device_code)
        st.last_poll[credential.device_code] = CLOCK()
        return last is not None and CLOCK() - last < 5


class DevEndpoint(DeviceAuthorizationEndpoint):
    CLIENT_AUTH_METHODS = ["client_secret_basic", "client_secret_post", "none"]

    def get_verification_uri(self):
        return "https://as.example/activate"

    def generate_user_code(self):
        return self.server.store.nxt("uc")

    def generate_device_code(self):
        return self.server.store.nxt("dc")

    def save_device_credential(self, client_id, scope, data):
        st = self.server.store
        st.cb("save_device_credential")
        st.devices.append(DeviceCred(data, client_id=client_id, scope=scope, expires_at=CLOCK() + data["expires_in"]))


def make_endpoints(store):
    session = FakeSession(store)
    _sqla_query_token = create_query_token_func(session, Token)

    def _strict_query_token(token_string, token_type_hint):
        # the example in RevocationEndpoint.query_token's docstring: look only where the hint says
        q = session.query(Token)
        if token_type_hint == "access_token":
            return q.filter_by(access_token=token_string).first()
        if token_type_hint == "refresh_token":
            return q.filter_by(refresh_token=token_string).first()
        return q.filter_by(access_token=token_string).first() or q.filter_by(refresh_token=token_string).first()

    def _query_token(token_string, token_type_hint):
        return (_strict_query_token if getattr(store, "strict_hint", False) else _sqla_query_token)(token_string, token_type_hint)

    class Revocation(create_revocation_endpoint(session, Token)):
        CLIENT_AUTH_METHODS = ["client_secret_basic", "client_secret_post"]

        def query_token(self, token_string, token_type_hint):
            if getattr(store, "strict_hint", False):
                return _strict_query_token(token_string, token_type_hint)
            return super().query_token(token_string, token_type_hint)

    class Introspection(IntrospectionEndpoint):
        CLIENT_AUTH_METHODS = ["client_secret_basic", "client_secret_post"]
        PERMISSIVE = False

        def query_token(self, token_string, token_type_hint):
            return _query_token(token_string, token_type_hint)

        def check_permission(self, token, client, request):
            return self.PERMISSIVE or token.client_id == client.get_client_id()

        def introspect_token(self, token):
            return {"active": True, "client_id": token.client_id, "scope": token.get_scope(),
                    "sub": str(token.user_id), "exp": token.issued_at + token.expires_in, "iat": token.issued_at}

    class MemBearerValidator(create_bearer_token_validator(session, Token)):
        pass
    return Revocation, Introspection, MemBearerValidator


class MemBearerValidator(BearerTokenValidator):
    """kept for callers that build a validator directly on a store"""
    def __init__(self, store, **kw):
        super().__init__(**kw)
        self._v = make_endpoints(store)[2]()

    def authenticate_token(self, token_string):
        return self._v.authenticate_token(token_string)


def build(store=None, scopes_supported=None, oidc=True, pkce_required=False, require_nonce=False, grants_enabled=None, framework=None, front_channel_pkce=False):
    """Assemble a provider with every built-in grant registered."""
    install_clock()
    store = store or Store()
    srv = MemServer(store, scopes_supported) if framework is None else {"flask": flask_server, "django": django_server, "flask-lazy": lambda st, sup: flask_server(st, sup, lazy=True)}[framework](store, scopes_supported)
    make_generators(store, srv)
    g = grants_enabled or ["code", "implicit", "oidc_implicit", "hybrid", "password", "client_credentials", "refresh", "device"]
    if "code" in g:
        ext = [CodeChallenge(required=pkce_required)]
        if oidc:
            ext.append(OpenIDCodeExt(store, require_nonce=require_nonce))
        srv.register_grant(CodeGrant, ext)
    if "oidc_implicit" in g:
        srv.register_grant(OIDCImplicit)
    if "hybrid" in g:
        # (optionally with the PKCE extension, as a provider that wants code_challenge on hybrid requests registers it)
        srv.register_grant(OIDCHybrid, [CodeChallenge(required=False)] if front_channel_pkce else None)
    if "implicit" in g:
        srv.register_grant(ImplicitGrant)
    if "password" in g:
        srv.register_grant(PasswordGrant)
    if "client_credentials" in g:
        srv.register_grant(ClientCredentialsGrant)
    if "refresh" in g:
        srv.register_grant(RefreshGrant)
    if "device" in g:
        srv.register_grant(DevGrant)
        srv.register_endpoint(DevEndpoint)
    Revocation, Introspection, Validator = make_endpoints(store)
    srv.register_endpoint(Revocation)
    srv.register_endpoint(Introspection)
    rp = ResourceProtector()
    rp.register_token_validator(Validator())
    return store, srv, rp


ALL_GRANT_TYPES = ["authorization_code", "implicit", "password", "client_credentials", "refresh_token",
                   "urn:ietf:params:oauth:grant-type:device_code", "urn:ietf:params:oauth:grant-type:jwt-bearer"]
ALL_RESPONSE_TYPES = ["code", "token", "id_token", "id_token token", "code id_token", "code token", "code id_token token"]


def basic(cid, secret):
    import base64
    return {"Authorization": "Basic " + base64.b64encode(f"{cid}:{secret}".encode()).decode()}


# ---------------------------------------------------------------- RFC 7523 JWT bearer grant
from authlib.oauth2.rfc7523 import JWTBearerGrant as _JWTBearerGrant
from authlib.jose import OctKey as _OctKey

JWT_BEARER = "urn:ietf:params:oauth:grant-type:jwt-bearer"


class JwtBearerGrant(_JWTBearerGrant):
    def resolve_issuer_client(self, issuer):
        self.server.store.cb("query_client")
        return self.server.store.clients.get(issuer)

    def resolve_client_key(self, client, headers, payload):
        return _OctKey.import_key(("key-of-" + client.get_client_id()).encode())

    def authenticate_user(self, subject):
        self.server.store.cb("authenticate_user")
        try:
            return self.server.store.users.get(int(subject))
        except ValueError:
            return None

    def has_granted_permission(self, client, user):
        return True


def jwt_bearer_assertion(client_id, sub="1", aud="https://as.example/ep"):
    return _JWTBearerGrant.sign(("key-of-" + client_id).encode(), issuer=client_id, audience=aud, subject=sub,
                                issued_at=CLOCK(), expires_at=CLOCK() + 600, alg="HS256", header={"alg": "HS256"})


# ---------------------------------------------------------------- RFC 7523 client assertion authentication
from authlib.oauth2.rfc7523 import JWTBearerClientAssertion as _JBCA

TOKEN_URL = "https://as.example/token"


class JwtClientAuth(_JBCA):
    def __init__(self, store, **kw):
        super().__init__(TOKEN_URL, **kw)
        self.store = store

    def validate_jti(self, claims, jti):
        self.store.cb("validate_jti")
        key = "jti:{}-{}".format(claims["sub"], jti)      # as in the documented example
        if key in self.store.jtis:
            return False
        self.store.jtis.add(key)
        return True

    def resolve_client_public_key(self, client, headers):
        # client_secret_jwt: the shared secret; private_key_jwt: the registered public key
        pub = client.extra.get("public_key")
        return pub if (pub and headers.get("alg", "").startswith(("RS", "ES", "PS"))) else client.client_secret


def enable_jwt_client_auth(store, srv):
    srv.register_client_auth_method(_JBCA.CLIENT_AUTH_METHOD, JwtClientAuth(store))
