"""Histories against the in-memory provider (shared by C06 and C09): generation, execution on the real code,
canonical outputs, and the property oracles evaluated over the observed history."""
import base64
import hashlib
import json
import re
from urllib.parse import urlparse, parse_qsl

import memserver as ms
from memserver import Req, Client, CLOCK
from authlib.oauth2 import OAuth2Error

CLIENTS = [("c1", "s1", "client_secret_basic", "a b c", ["https://c1/cb", "https://c1/cb2", "https://c1/dir/", "https://c1/cb3?next=%2Fhome"]), ("c2", "s2", "client_secret_post", "a b", ["https://c2/cb"]),
           ("pub", "", "none", "a", ["https://pub/cb"]),
           ("c3", "s3", None, "a b", ["https://c3/cb"])]          # a confidential client registered without token_endpoint_auth_method (default: client_secret_basic)
CFG_CLIENTS = [{"id": c, "uris": u, "scope": sc, "method": m or "client_secret_basic"} for c, s, m, sc, u in CLIENTS]
V43 = "v" * 43
V_ALT = "A-._~0" * 8


def s256(v):
    return base64.urlsafe_b64encode(hashlib.sha256(v.encode()).digest()).rstrip(b"=").decode()


def creds(cid, ok=True, method=None):
    """(headers, form additions) that authenticate `cid` with its registered method (or the one named) — or fail"""
    c = {x[0]: x for x in CLIENTS}[cid]
    c = (c[0], c[1], method or c[2] or "client_secret_basic") + tuple(c[3:])
    sec = c[1] if ok else c[1] + "-wrong"
    if c[2] == "client_secret_basic":
        return ms.basic(cid, sec), {}
    if c[2] == "client_secret_post":
        return ({}, {"client_id": cid, "client_secret": sec}) if ok else (ms.basic(cid, sec), {})
    return ({}, {"client_id": cid}) if ok else (ms.basic("c1", "nope"), {})


def auth_of(op):
    a = op.get("auth")
    if not a:
        return ms.basic("c1", "definitely-wrong"), {}
    return creds(a[0], True, a[1] if len(a) > 1 and a[0] == "c3" else None)


class World:
    def __init__(self, pkce_required=False, supported=None, strict_hint=False, oidc=False, framework=None, jwt_first=False):
        CLOCK.now = 1_000_000
        self.store, self.srv, self.rp = ms.build(oidc=oidc, pkce_required=pkce_required, scopes_supported=supported, framework=framework)
        self.framework = framework
        if jwt_first:
            # a deployment that also issues RFC 9068 JWT access tokens: the JWT revocation / introspection endpoints are registered in front of
            # the ordinary ones, which opaque tokens must still reach (ContinueIteration)
            from authlib.jose import KeySet, OctKey
            from authlib.oauth2.rfc9068 import JWTIntrospectionEndpoint, JWTRevocationEndpoint
            jwks = KeySet([OctKey.import_key(b"k" * 32, {"kid": "k1"})])
            auth_methods = ["client_secret_basic", "client_secret_post"]

            class JRev(JWTRevocationEndpoint):
                CLIENT_AUTH_METHODS = auth_methods
                def get_jwks(self): return jwks

            class JInt(JWTIntrospectionEndpoint):
                CLIENT_AUTH_METHODS = auth_methods
                def get_jwks(self): return jwks
                def get_username(self, user_id): return None
                def check_permission(self, token, client, request): return token["client_id"] == client.get_client_id()
            for name, ep in (("revocation", JRev(issuer="https://as.example", server=self.srv)), ("introspection", JInt(issuer="https://as.example", server=self.srv))):
                self.srv._endpoints[name].insert(0, ep)
            self._jwt_first = True
        # a resource server that is not co-located with the provider: rfc7662.IntrospectTokenValidator asking the provider's introspection endpoint
        from authlib.oauth2.rfc7662 import IntrospectTokenValidator
        from authlib.oauth2 import ResourceProtector as _RP
        world = self

        class Remote(IntrospectTokenValidator):
            def introspect_token(self, token_string):
                ep = world.srv._endpoints["introspection"][0]
                tok = ep.query_token(token_string, "access_token")
                if tok is not None and tok.access_token != token_string:
                    tok = None                       # the resource server asks about an ACCESS token
                return ep.create_introspection_payload(tok)
        self.rp_remote = _RP()
        self.rp_remote.register_token_validator(Remote())
        self.store.strict_hint = strict_hint
        for cid, sec, m, sc, uris in CLIENTS:
            self.store.clients[cid] = Client(cid, sec, uris, sc, ms.ALL_GRANT_TYPES, ms.ALL_RESPONSE_TYPES, m)
        self.cfg = {"clients": CFG_CLIENTS, "now": 1_000_000, "pkce_required": pkce_required, "supported": supported, "strict_hint": strict_hint}
        if oidc:
            self.cfg["oidc"] = True
        if getattr(self, "_jwt_first", False):
            self.cfg["jwt_first"] = True

    def num(self, s, prefix):
        m = re.fullmatch(prefix + r"(\d+)", s or "")
        return int(m.group(1)) if m else None

    def out(self, status, body=None, **kw):
        body = body or {}
        o = {"status": status, "error": body.get("error"), "code": None, "access": None, "refresh": None, "scope": None, "device_code": None, "user_code": None,
             "active": None}
        if "access_token" in body:
            o["access"] = self.num(body["access_token"], "at"); o["refresh"] = self.num(body.get("refresh_token"), "rt"); o["scope"] = body.get("scope")
        if "device_code" in body:
            o["device_code"] = self.num(body["device_code"], "dc"); o["user_code"] = self.num(body["user_code"], "uc")
        if "active" in body:
            o["active"] = body["active"]
            if body["active"]:
                o["scope"] = body.get("scope")
        o.update(kw)
        return o

    def step(self, op):
        """one request; with op["fault"] = k the k-th storage callback of the request raises (C19)"""
        st = self.store
        st.trace, st.events = [], []
        st.fail_at = op.get("fault")
        st.fault_type = op.get("fault_type")
        try:
            o = self._step(op)
        finally:
            st.fail_at = None
        if op.get("fault") is not None:
            if str(o.get("raised", "")).startswith("Fault"):
                return {"fault": True, "done": list(st.events), "store": self.snapshot()}
            if len(st.trace) <= op["fault"] and "raised" not in o:
                o = dict(o, nofault=True)       # the request made fewer callbacks than the fault index: it ran fault-free
            else:
                o = dict(o, swallowed=True, done=list(st.events), store=self.snapshot())   # a callback failed and the request still answered
        return o

    def _step(self, op):
        srv, store = self.srv, self.store
        k = op["op"]
        try:
            if k == "authorize":
                form = {"response_type": "code", "client_id": op["client"]}
                for f, key in (("redirect", "redirect_uri"), ("scope", "scope"), ("challenge", "code_challenge"), ("method", "code_challenge_method")):
                    if op.get(f) is not None:
                        form[key] = op[f]
                areq = Req("POST", "https://as.example/authorize", form)
                if op.get("user_on_request") and self.framework is None:
                    # the library's own request object as the consent step leaves it: it still names the resource owner while the decision is a denial
                    areq.user = store.users[op["user"]]
                    areq = srv.create_oauth2_request(areq)
                r = ms.fw_call(srv, areq, "create_authorization_response", grant_user=store.users[op["user"]] if op["approve"] else None)
                loc = dict(r.headers).get("Location")
                if loc:
                    q = dict(parse_qsl(urlparse(loc).query))
                    return self.out(302, {"error": q.get("error")}, code=self.num(q.get("code"), "code"))
                return self.out(r.status, r.body if isinstance(r.body, dict) else {})
            if k == "implicit":      # C19 only: traced and checked by the oracle, not part of the Lean state machine
                form = {"response_type": "token", "client_id": op["client"], "redirect_uri": op["redirect"], "scope": op["scope"]}
                r = ms.fw_call(srv, Req("POST", "https://as.example/authorize", form), "create_authorization_response", grant_user=store.users[op["user"]])
                loc = dict(r.headers).get("Location") or ""
                q = dict(parse_qsl(urlparse(loc).fragment))
                return self.out(r.status, {"error": q.get("error"), **({"access_token": q["access_token"], "scope": q.get("scope")} if "access_token" in q else {})})
            if k == "oidc_authorize":  # C19 only: OpenID code / implicit / hybrid authorization requests (traced, oracle-checked)
                form = {"response_type": op["rt"], "client_id": op["client"], "redirect_uri": op["redirect"], "scope": op["scope"]}
                if op.get("nonce") is not None:
                    form["nonce"] = op["nonce"]
                r = ms.fw_call(srv, Req("POST", "https://as.example/authorize", form), "create_authorization_response", grant_user=store.users[op["user"]])
                loc = dict(r.headers).get("Location") or ""
                u = urlparse(loc)
                q = dict(parse_qsl(u.query)); q.update(parse_qsl(u.fragment))
                body = {"error": q.get("error")}
                if "access_token" in q:
                    body.update(access_token=q["access_token"], scope=q.get("scope"))
                return self.out(r.status, body, code=self.num(q.get("code"), "code"), id_token="id_token" in q)
            if k == "advance":
                CLOCK.now += op["dt"]; return self.out(200)
            if k == "user_decide":
                store.user_grants[f"uc{op['uc']}"] = (op["user"], op["approve"]); return self.out(200)
            if k == "access":
                class R: headers = {"Authorization": "Bearer " + op["token"]} if op.get("token") is not None else {}
                try:
                    if op.get("via") == "introspection":
                        self.rp_remote.validate_request(op.get("required"), R)
                        return self.out(200, {"access_token": op["token"]})
                    t = self.rp.validate_request(op.get("required"), R)
                    return self.out(200, {"access_token": t.access_token})
                except OAuth2Error as e:
                    return self.out(e.status_code, {"error": e.error})
            hdr, extra = auth_of(op)
            if k == "redeem":
                f = {"grant_type": "authorization_code"}
                for fld, key in (("code", "code"), ("redirect", "redirect_uri"), ("verifier", "code_verifier"), ("req_scope", "scope")):
                    if op.get(fld) is not None:
                        f[key] = op[fld]
                r = ms.fw_call(srv, Req("POST", ms.TOKEN_URL, dict(f, **extra), hdr), "create_token_response")
            elif k == "device_authorize":
                f = {}
                if op.get("scope") is not None: f["scope"] = op["scope"]
                if op.get("client_id") is not None: f["client_id"] = op["client_id"]
                f.update(extra)
                r = ms.fw_call(srv, Req("POST", "https://as.example/device", f, hdr), "create_endpoint_response", "device_authorization")
            elif k == "poll":
                f = {"grant_type": "urn:ietf:params:oauth:grant-type:device_code"}
                if op.get("dc") is not None: f["device_code"] = op["dc"]
                if op.get("req_scope") is not None: f["scope"] = op["req_scope"]      # a scope parameter on the token request: what was approved stays what is issued
                r = ms.fw_call(srv, Req("POST", ms.TOKEN_URL, dict(f, **extra), hdr), "create_token_response")
            elif k == "issue_password":
                f = {"grant_type": "password", "password": "pw"}
                if op.get("user") is not None: f["username"] = str(op["user"])
                if op.get("scope") is not None: f["scope"] = op["scope"]
                r = ms.fw_call(srv, Req("POST", ms.TOKEN_URL, dict(f, **extra), hdr), "create_token_response")
            elif k == "issue_cc":
                f = {"grant_type": "client_credentials"}
                if op.get("scope") is not None: f["scope"] = op["scope"]
                r = ms.fw_call(srv, Req("POST", ms.TOKEN_URL, dict(f, **extra), hdr), "create_token_response")
            elif k == "refresh":
                f = {"grant_type": "refresh_token"}
                if op.get("token") is not None: f["refresh_token"] = op["token"]
                if op.get("scope") is not None: f["scope"] = op["scope"]
                r = ms.fw_call(srv, Req("POST", ms.TOKEN_URL, dict(f, **extra), hdr), "create_token_response")
            elif k in ("revoke", "introspect"):
                f = {}
                if op.get("token") is not None: f["token"] = op["token"]
                if op.get("hint") is not None: f["token_type_hint"] = op["hint"]
                r = ms.fw_call(srv, Req("POST", "https://as.example/ep", dict(f, **extra), hdr), "create_endpoint_response", "revocation" if k == "revoke" else "introspection")
            else:
                raise AssertionError(k)
            return self.out(r.status, r.body if isinstance(r.body, dict) else {})
        except Exception as e:
            return {"raised": type(e).__name__ + ": " + str(e)[:80]}

    def snapshot(self):
        st = self.store
        return {"codes": sorted([self.num(c.code, "code"), c.client_id, c.user_id] for c in st.codes),
                "tokens": sorted([self.num(t.access_token, "at"), self.num(t.refresh_token, "rt"), t.client_id, t.user_id, t.scope, bool(t.access_token_revoked_at),
                                  bool(t.refresh_token_revoked_at)] for t in st.tokens),
                "devices": sorted([self.num(d.device_code, "dc"), d.client_id or ""] for d in st.devices)}


def gen_history(rng, length, flavor, pkce_required=False, supported=None, strict_hint=False, fault_p=0.0):
    """random walk; references are drawn from what the real provider handed out so far (mostly valid), plus stale / foreign / unknown ones"""
    w = World(pkce_required, supported, strict_hint)
    ops, outs = [], []
    codes, ats, rts, dcs, ucs = [], [], [], [], []
    cids = [c[0] for c in CLIENTS[:3]]
    def auth(p_ok=0.85, prefer=None):
        if rng.random() > p_ok:
            return None
        c = prefer if (prefer and rng.random() < 0.75) else rng.choice(cids)
        return [c, {x[0]: x for x in CLIENTS}[c][2]]
    scopes = [None, "a", "a b", "b a", "a z", "c", ""]
    for _ in range(length):
        r = rng.random()
        op = None
        if flavor == "code":
            kinds = ["authorize"] * 3 + ["redeem"] * 5 + ["advance", "device_authorize", "user_decide", "poll", "poll", "poll"]
        else:
            kinds = ["issue_password"] * 2 + ["issue_cc", "refresh", "refresh", "revoke", "revoke", "introspect", "introspect", "access", "access", "access", "advance"]
        k = rng.choice(kinds)
        if k == "authorize":
            cid = rng.choice(cids)
            uris = {x[0]: x for x in CLIENTS}[cid][4]
            ch = rng.choice([None, None, V43, s256(V43), s256(V_ALT), "short", V43 + "\n"])
            op = {"op": k, "client": cid, "redirect": rng.choice([None, uris[0], uris[-1], "https://evil/cb"]), "scope": rng.choice(scopes), "challenge": ch,
                  "method": rng.choice([None, "plain", "S256"]) if ch else rng.choice([None, None, "S256"]), "user": rng.choice([1, 2]), "approve": rng.random() < 0.85}
            if rng.random() < 0.4:
                op["user_on_request"] = True
        elif k == "redeem":
            code = rng.choice(codes) if codes and rng.random() < 0.9 else rng.choice([None, "code999", "garbage"])
            owner = code[1] if isinstance(code, tuple) else None
            op = {"op": k, "auth": auth(prefer=owner), "code": code[0] if isinstance(code, tuple) else code,
                  "redirect": (code[2] if rng.random() < 0.8 else rng.choice([None, "https://evil/cb", "https://c1/cb"])) if isinstance(code, tuple) else None,
                  "verifier": rng.choice([None, V43, V43, V_ALT, "short", V43 + "\n", V43 + "x"])}
            if rng.random() < 0.3:
                op["req_scope"] = rng.choice(["a", "a b", "c", "a b c"])
        elif k == "device_authorize":
            a = auth()
            # request.client_id is what gets stored with the device code: for post / none it IS the authenticating client_id parameter,
            # with Basic it is a separate, optional form parameter; without valid authentication we send none at all
            if a is None:
                cidp = None
            elif a[1] == "client_secret_basic":
                cidp = rng.choice([a[0], a[0], a[0], None, rng.choice(cids)])
            else:
                cidp = a[0]
            op = {"op": k, "auth": a, "client_id": cidp, "scope": rng.choice(scopes)}
        elif k == "user_decide":
            op = {"op": k, "uc": rng.choice(ucs) if ucs else 999, "user": rng.choice([1, 2]), "approve": rng.random() < 0.7}
        elif k == "poll":
            d = rng.choice(dcs) if dcs and rng.random() < 0.9 else None
            op = {"op": k, "auth": auth(prefer=d[1] if d else None), "dc": d[0] if d else rng.choice([None, "dc999", "x"])}
            if rng.random() < 0.3:
                op["req_scope"] = rng.choice(["a", "a b", "c", "a b c"])
        elif k == "issue_password":
            op = {"op": k, "auth": auth(), "user": rng.choice([1, 2, 2, None]), "scope": rng.choice(scopes)}
        elif k == "issue_cc":
            op = {"op": k, "auth": auth(), "scope": rng.choice(scopes)}
        elif k == "refresh":
            t = rng.choice(rts) if rts and rng.random() < 0.9 else None
            op = {"op": k, "auth": auth(prefer=t[1] if t else None), "token": (t[0] if t else rng.choice([None, "rt999", "at1", "zzz"])), "scope": rng.choice([None, None, "a", "a b", "a z", "c"])}
        elif k in ("revoke", "introspect"):
            pool = ats + rts
            t = rng.choice(pool) if pool and rng.random() < 0.9 else None
            op = {"op": k, "auth": auth(prefer=t[1] if t else None), "token": (t[0] if t else rng.choice([None, "at999", "rt999", "zzz"])),
                  "hint": rng.choice([None, None, "access_token", "refresh_token", "bogus", ""])}
        elif k == "access":
            t = rng.choice(ats) if ats and rng.random() < 0.8 else None
            if t is None and rts and rng.random() < 0.6:
                t = rng.choice(rts)           # a live refresh token string presented as a bearer token
            op = {"op": k, "token": (t[0] if t else rng.choice([None, "at999", "rt1", "zzz"])), "required": rng.choice([None, None, ["a"], ["a b"], ["z"], ["c", "a"], []])}
            if rng.random() < 0.35:
                op["via"] = "introspection"
        else:
            op = {"op": "advance", "dt": rng.choice([1, 3, 10, 299, 301, 1700, 1801, 3601, 900000])}
        if fault_p and op["op"] not in ("advance", "user_decide") and rng.random() < fault_p:
            # C19: the same request first hits a storage fault at its k-th callback (possibly twice), then is repeated fault-free
            for _ in range(rng.choice([1, 1, 2])):
                fop = dict(op, fault=rng.choice([0, 1, 1, 2, 2, 3, 3, 4, 5]))
                fo = w.step(fop)
                if fo.get("fault"):
                    fop["done"] = fo["done"]
                ops.append(fop); outs.append(fo)
        o = w.step(op)
        ops.append(op); outs.append(o)
        if "raised" in o:
            break
        if op["op"] == "authorize" and o.get("code") is not None:
            codes.append((f"code{o['code']}", op["client"], op["redirect"]))
        if o.get("access") is not None and op["op"] != "access":
            cid = op["auth"][0] if op.get("auth") else None
            ats.append((f"at{o['access']}", cid))
            if o.get("refresh") is not None:
                rts.append((f"rt{o['refresh']}", cid))
        if o.get("device_code") is not None:
            dcs.append((f"dc{o['device_code']}", op["client_id"])); ucs.append(o["user_code"])
    return {"cfg": w.cfg, "ops": ops, "_outs": outs, "_store": w.snapshot()}


def replay_all(case):
    """the history on the core server and on the Flask and Django integrations over the same kind of store; a framework's answer is kept only where it differs"""
    out = replay(case)
    for fw in ("flask", "django"):
        o = replay(case, fw)
        if o != out:
            out["differs:" + fw] = o
    return out


def oracle_all(oracle):
    """lift a property oracle over the core outcome to the framework outcomes that differ from it"""
    def lifted(c, out):
        v = oracle(c, {k: x for k, x in out.items() if not k.startswith("differs:")})
        for fw in ("flask", "django"):
            if "differs:" + fw in out:
                v += [(f"[{fw} integration] {what}", dict(sig, fw=fw)) for what, sig in oracle(c, out["differs:" + fw])]
        return v
    return lifted


def replay(case, framework=None):
    """run a recorded history on the real code again (used for replays and seeded-mutant checks)"""
    cfg = case["cfg"]
    w = World(cfg.get("pkce_required", False), cfg.get("supported"), cfg.get("strict_hint", False), framework=framework, jwt_first=cfg.get("jwt_first", False))
    outs = []
    for op in case["ops"]:
        o = w.step(op)
        outs.append(o)
        if "raised" in o:
            break
    return {"outs": outs, "store": w.snapshot()}


def model_canon(mo):
    if "store" in mo:
        st = mo["store"]
        mo = dict(mo, store={"codes": sorted(st["codes"]), "tokens": sorted(st["tokens"], key=lambda t: t[0]), "devices": sorted(st["devices"])})
    return mo
