"""C17 — the real AsyncOAuth2Client on an asyncio loop under a controllable scheduler.

Every request reaching the transport, and every update_token callback, parks on a future.  The controller lets the
loop run until nothing moves, then takes ONE decision: start the next caller, or release one parked item.  A schedule
is the sequence of decisions; `explore` enumerates all of them (odometer over the option counts actually met)."""
import asyncio
import contextvars
import json
import time

import httpx

TASK = contextvars.ContextVar("c17_task", default=None)
TOKEN_URL = "https://as.example/token"


class Run:
    def __init__(self, cfg, decisions):
        self.cfg = cfg
        self.decisions = list(decisions)
        self.taken = []          # (choice, number of options) at every decision point
        self.events = []
        self.parked = []         # dicts: kind, i, fut, ...
        self.refresh_n = 0
        self.ok_n = 0
        self.results = {}

    # ---- transport -------------------------------------------------------------------------
    def transport(self):
        run = self

        class T(httpx.AsyncBaseTransport):
            async def handle_async_request(self, request):
                i = TASK.get()
                url = str(request.url)
                if url == TOKEN_URL and getattr(run, "bootstrap", False):
                    # the application's own first fetch_token(url) (no grant_type argument): answered at once, with a token that is already expired
                    run.bootstrap = False
                    return httpx.Response(200, json={"access_token": "old0", "token_type": "Bearer", "expires_in": -10}, request=request)
                if url == TOKEN_URL:
                    body = request.content.decode()
                    k = run.refresh_n
                    run.refresh_n += 1
                    run.events.append({"ev": "refresh_sent", "i": i, "body": body})
                    fut = asyncio.get_running_loop().create_future()
                    run.parked.append({"kind": "refresh", "i": i, "fut": fut, "k": k})
                    outcome = await fut
                    if outcome == "success":
                        run.ok_n += 1
                        tok = {"access_token": f"new{run.ok_n}" + run.cfg.get("token_suffix", ""), "token_type": "Bearer", "expires_in": 3600}
                        if run.cfg.get("resp") == "no-expiry":
                            tok.pop("expires_in")          # RFC 6749: expires_in is RECOMMENDED, not required
                        if run.cfg["grant"] == "refresh_rotating":
                            tok["refresh_token"] = f"r{run.ok_n}"
                        return httpx.Response(200, json=tok, request=request)
                    if outcome == "oauth_error":
                        return httpx.Response(400, json={"error": "invalid_grant", "error_description": "refused"}, request=request)
                    return httpx.Response(503, text="unavailable", request=request)
                run.events.append({"ev": "protected_sent", "i": i, "auth": request.headers.get("Authorization"), "url": url})
                fut = asyncio.get_running_loop().create_future()
                run.parked.append({"kind": "protected", "i": i, "fut": fut})
                await fut
                return httpx.Response(200, json={"ok": True}, request=request)
        return T()

    async def update_token(self, token, refresh_token=None, access_token=None):
        i = TASK.get()
        self.events.append({"ev": "cb_start", "i": i, "new": token.get("access_token"), "refresh_token": refresh_token, "access_token": access_token})
        fut = asyncio.get_running_loop().create_future()
        self.parked.append({"kind": "cb", "i": i, "fut": fut})
        await fut

    # ---- the callers ------------------------------------------------------------------------
    async def caller(self, client, i):
        TASK.set(i)
        try:
            if self.cfg.get("stream") and i % 2 == 1:
                async with client.stream("GET", f"https://api.example/r/{i}") as r:
                    self.results[i] = r.status_code
            else:
                r = await client.get(f"https://api.example/r/{i}")
                self.results[i] = r.status_code
        except Exception as e:
            self.results[i] = type(e).__name__

    async def quiesce(self, tasks):
        stable, last = 0, None
        for _ in range(400):
            await asyncio.sleep(0)
            sig = (len(self.events), len(self.parked), sum(t.done() for t in tasks), len(self.results))
            stable = stable + 1 if sig == last else 0
            last = sig
            if stable >= 6:
                return

    def choose(self, n):
        k = len(self.taken)
        c = self.decisions[k] if k < len(self.decisions) else 0
        c = min(c, n - 1)
        self.taken.append((c, n))
        return c

    async def main(self):
        from authlib.integrations.httpx_client import AsyncOAuth2Client
        cfg = self.cfg
        token = {"access_token": "old0", "token_type": "Bearer", "expires_at": int(time.time()) - 10}
        if cfg.get("clock") == "fraction":
            # the clock stands in the last tenth of the second in which the token (less the client's 60 s leeway) expired
            token["expires_at"] = int(time.time()) + 60
        kw = {}
        if cfg.get("leeway"):
            # the application configured a wider safety margin: the token is expired by the client's own rule, not by the default 60 s one
            kw["leeway"] = cfg["leeway"]
            token["expires_at"] = int(time.time()) + (60 + cfg["leeway"]) // 2
        if cfg["grant"].startswith("refresh"):
            token["refresh_token"] = "r0"
        else:
            kw["grant_type"] = "client_credentials"
        cb = self.update_token if cfg["has_cb"] else None
        if cb is not None and cfg.get("cb_kind") == "sync-returning-awaitable":
            # "update_token can be sync or async": a plain callable that binds arguments around an async function and returns its awaitable
            cb = lambda token, **k2: self.update_token(token, **k2)
        if cfg.get("cc_via_fetch"):
            # client credentials the other documented way: no grant_type keyword; the first token comes from `await client.fetch_token(url)`
            kw.pop("grant_type", None)
            client = AsyncOAuth2Client("cid", "csecret", token_endpoint=TOKEN_URL, transport=self.transport(), update_token=cb, **kw)
            self.bootstrap = True
            await client.fetch_token(TOKEN_URL)
        else:
            client = AsyncOAuth2Client("cid", "csecret", token=token, token_endpoint=TOKEN_URL, transport=self.transport(), update_token=cb, **kw)
        tasks, started = [], 0
        n = cfg["n"]
        while True:
            await self.quiesce(tasks)
            options = []
            if started < n:
                options.append(("start", None))
            options += [("release", p) for p in self.parked]
            if not options:
                break
            kind, p = options[self.choose(len(options))]
            if kind == "start":
                tasks.append(asyncio.ensure_future(self.caller(client, started)))
                started += 1
            else:
                self.parked.remove(p)
                if p["kind"] == "refresh":
                    outs = cfg["outcomes"]
                    outcome = outs[min(p["k"], len(outs) - 1)]
                    self.events.append({"ev": "refresh_resp", "i": p["i"], "outcome": outcome})
                    p["fut"].set_result(outcome)
                elif p["kind"] == "cb":
                    self.events.append({"ev": "cb_end", "i": p["i"]})
                    p["fut"].set_result(None)
                else:
                    self.events.append({"ev": "protected_resp", "i": p["i"]})
                    p["fut"].set_result(None)
        stuck = [i for i, t in enumerate(tasks) if not t.done()]
        for t in tasks:
            t.cancel()
        await client.aclose()
        return {"events": self.events, "results": [self.results.get(i) for i in range(n)], "stuck": stuck, "final_token": (client.token or {}).get("access_token")}


def run_schedule(cfg, decisions):
    r = Run(cfg, decisions)
    loop = asyncio.new_event_loop()
    real = time.time
    if cfg.get("clock") == "fraction":
        time.time = lambda: 2_000_000_000.9
    try:
        out = loop.run_until_complete(r.main())
    finally:
        time.time = real
        loop.close()
    out["taken"] = r.taken
    return out


def explore(cfg, limit=None, rng=None):
    """all schedules (odometer); or, with rng, `limit` random ones"""
    if rng is not None:
        for _ in range(limit):
            dec = [rng.randrange(6) for _ in range(40)]
            yield run_schedule(cfg, dec)
        return
    dec, count = [], 0
    while True:
        out = run_schedule(cfg, dec)
        yield out
        count += 1
        if limit and count >= limit:
            return
        taken = out["taken"]
        # next decision vector in depth-first order
        k = len(taken) - 1
        while k >= 0 and taken[k][0] + 1 >= taken[k][1]:
            k -= 1
        if k < 0:
            return
        dec = [c for c, _ in taken[:k]] + [taken[k][0] + 1]
