"""The individual extractors. Each imports the live objects from $VERIF_REPO (already on sys.path)."""
from extract import emitter, lean_str, lean_str_list, lean_bytes


@emitter("Grants.lean")
def grants(repo):
    from authlib.oauth2.rfc6749 import grants as g
    from authlib.oauth2.rfc6750 import BearerTokenGenerator
    lines = ["namespace Generated.Grants", ""]
    lines.append("/-- `GRANT_TYPE` of the built-in grants -/")
    lines.append("def grantTypes : List (String × String) := [")
    items = []
    for cls in (g.AuthorizationCodeGrant, g.ImplicitGrant, g.ResourceOwnerPasswordCredentialsGrant,
                g.ClientCredentialsGrant, g.RefreshTokenGrant):
        items.append(f"  ({lean_str(cls.__name__)}, {lean_str(cls.GRANT_TYPE)})")
    lines.append(",\n".join(items) + "]")
    lines.append("")
    lines.append("end Generated.Grants")
    return "\n".join(lines) + "\n"
