"""The individual extractors. Each imports the live objects from $VERIF_REPO (already on sys.path)."""
import os
from extract import emitter, lean_str, lean_str_list, lean_bytes


def _regex_shape(pattern):
    """(ranges, min, max, end) for patterns of the shape ^[class]{m,n}($|\\Z) — anything else is refused"""
    import re._parser as sp
    tree = list(sp.parse(pattern))
    ops = [(str(op), av) for op, av in tree]
    if len(ops) != 3 or ops[0][0] != "AT" or str(ops[0][1]) != "AT_BEGINNING" or ops[1][0] != "MAX_REPEAT" or ops[2][0] != "AT":
        raise ValueError(f"pattern outside the modelled subset: {pattern!r}")
    lo, hi, body = ops[1][1]
    body = list(body)
    if len(body) != 1 or str(body[0][0]) != "IN":
        raise ValueError(f"pattern outside the modelled subset: {pattern!r}")
    ranges = []
    for op, av in body[0][1]:
        if str(op) == "RANGE":
            ranges.append((av[0], av[1]))
        elif str(op) == "LITERAL":
            ranges.append((av, av))
        else:
            raise ValueError(f"pattern outside the modelled subset: {pattern!r}")
    end = {"AT_END": "dollar", "AT_END_STRING": "Z"}[str(ops[2][1])]
    return ranges, int(lo), int(hi), end


@emitter("Grants.lean")
def grants(repo):
    from authlib.oauth2.rfc6749 import grants as g
    from authlib.oidc.core import grants as og
    from authlib.oauth2.rfc7636 import challenge as ch
    from authlib.oauth2.rfc8628 import DeviceCodeGrant
    lines = ["namespace Generated.Grants", ""]
    classes = [("code", g.AuthorizationCodeGrant), ("implicit", g.ImplicitGrant), ("oidcImplicit", og.OpenIDImplicitGrant), ("hybrid", og.OpenIDHybridGrant)]
    lines.append("/-- `RESPONSE_TYPES` of the authorization-endpoint grants -/")
    for nm, cls in classes:
        lines.append(f"def {nm}ResponseTypes : List String := " + lean_str_list(sorted(cls.RESPONSE_TYPES)))
    lines.append("")
    lines.append("/-- `ERROR_RESPONSE_FRAGMENT` / default response mode: does the grant put errors in the fragment -/")
    for nm, cls in classes:
        lines.append(f"def {nm}ErrorFragment : Bool := " + ("true" if cls.ERROR_RESPONSE_FRAGMENT else "false"))
    lines.append("def oidcDefaultResponseMode : String := " + lean_str(og.OpenIDImplicitGrant.DEFAULT_RESPONSE_MODE))
    lines.append("def hybridDefaultResponseMode : String := " + lean_str(og.OpenIDHybridGrant.DEFAULT_RESPONSE_MODE))
    lines.append("")
    lines.append("/-- `TOKEN_ENDPOINT_AUTH_METHODS` as shipped (the reference integrator widens some of them, see memserver.py) -/")
    for nm, cls in classes + [("password", g.ResourceOwnerPasswordCredentialsGrant), ("clientCredentials", g.ClientCredentialsGrant), ("refresh", g.RefreshTokenGrant),
                              ("device", DeviceCodeGrant)]:
        lines.append(f"def {nm}AuthMethods : List String := " + lean_str_list(list(cls.TOKEN_ENDPOINT_AUTH_METHODS)))
    lines.append("")
    for nm, pat in (("codeVerifier", ch.CODE_VERIFIER_PATTERN.pattern), ("codeChallenge", ch.CODE_CHALLENGE_PATTERN.pattern)):
        ranges, lo, hi, end = _regex_shape(pat)
        lines.append(f"/-- `{pat}` as (character ranges, min, max, end anchor) -/")
        lines.append(f"def {nm}Ranges : List (Nat × Nat) := [" + ", ".join(f"({a}, {b})" for a, b in ranges) + "]")
        lines.append(f"def {nm}Min : Nat := {lo}")
        lines.append(f"def {nm}Max : Nat := {hi}")
        lines.append(f"def {nm}EndIsDollar : Bool := " + ("true" if end == "dollar" else "false"))
    lines.append("def supportedChallengeMethods : List String := " + lean_str_list(list(ch.CodeChallenge.SUPPORTED_CODE_CHALLENGE_METHOD)))
    lines.append("def defaultChallengeMethod : String := " + lean_str(ch.CodeChallenge.DEFAULT_CODE_CHALLENGE_METHOD))
    lines.append("")
    lines.append("end Generated.Grants")
    return "\n".join(lines) + "\n"


@emitter("Jose.lean")
def jose(repo):
    """JWS algorithm registry, unsafe HMAC key prefixes, header parameter names, key field lists."""
    from authlib.jose import JsonWebSignature
    from authlib.jose.rfc7518 import oct_key, rsa_key, ec_key
    from authlib.jose.rfc8037 import okp_key
    lines = ["namespace Generated.Jose", ""]
    lines.append("/-- `JsonWebSignature.ALGORITHMS_REGISTRY`: (name, implementing class, hash bits, EC curve, EC coordinate octets) -/")
    lines.append("def jwsRegistry : List (String × String × Nat × String × Nat) := [")
    items = []
    for name, alg in JsonWebSignature.ALGORITHMS_REGISTRY.items():
        cls = type(alg).__name__
        bits = 0
        h = getattr(alg, "hash_alg", None)
        if h is not None:
            bits = getattr(h, "digest_size", None)
            if bits is None:
                bits = h().digest_size
            bits *= 8
        curve = getattr(alg, "curve", "") or ""
        coord = 0
        if curve:
            coord = (ec_key.ECKey.DSS_CURVES[curve]().key_size + 7) // 8
        items.append(f"  ({lean_str(name)}, {lean_str(cls)}, {bits}, {lean_str(curve)}, {coord})")
    lines.append(",\n".join(items) + "]")
    lines.append("")
    lines.append("/-- `OctKey` refuses raw keys starting with one of these (asymmetric key material in text form) -/")
    pref = getattr(oct_key, "POSSIBLE_UNSAFE_KEYS")
    lines.append("def possibleUnsafeKeys : List (List UInt8) := [")
    lines.append(",\n".join("  " + lean_bytes(p) for p in pref) + "]")
    lines.append("")
    markers = getattr(oct_key, "POSSIBLE_UNSAFE_MARKERS", ())
    lines.append("/-- `OctKey` refuses raw keys containing one of these anywhere -/")
    lines.append("def possibleUnsafeMarkers : List (List UInt8) := [" + ", ".join(lean_bytes(m) for m in markers) + "]")
    lines.append("")
    lines.append("/-- `SSH_PUBLIC_PREFIX` of the asymmetric key classes (what `load_pem_key` hands to the SSH loader) -/")
    lines.append("def sshPublicPrefixes : List (List UInt8) := [" + ", ".join(lean_bytes(c.SSH_PUBLIC_PREFIX) for c in (rsa_key.RSAKey, ec_key.ECKey, okp_key.OKPKey)) + "]")
    from authlib.jose.rfc7517.base_key import Key as _K
    lines.append("def privateKeyOps : List String := " + lean_str_list(list(_K.PRIVATE_KEY_OPS)))
    lines.append("def publicKeyOps : List String := " + lean_str_list(list(_K.PUBLIC_KEY_OPS)))
    lines.append("/-- `Key.ALLOWED_PARAMS`: the options a key object copies into its members -/")
    lines.append("def allowedParams : List String := " + lean_str_list(list(_K.ALLOWED_PARAMS)))
    lines.append("")
    lines.append("def registeredHeaderParameterNames : List String := " + lean_str_list(sorted(JsonWebSignature.REGISTERED_HEADER_PARAMETER_NAMES)))
    lines.append("")
    for nm, cls in (("rsa", rsa_key.RSAKey), ("ec", ec_key.ECKey), ("okp", okp_key.OKPKey)):
        lines.append(f"def {nm}PublicKeyFields : List String := " + lean_str_list(list(cls.PUBLIC_KEY_FIELDS)))
        lines.append(f"def {nm}PrivateKeyFields : List String := " + lean_str_list(list(cls.PRIVATE_KEY_FIELDS)))
        lines.append(f"def {nm}RequiredJsonFields : List String := " + lean_str_list(list(cls.REQUIRED_JSON_FIELDS)))
    lines.append("def octRequiredJsonFields : List String := " + lean_str_list(list(oct_key.OctKey.REQUIRED_JSON_FIELDS)))
    lines.append("")
    lines.append("end Generated.Jose")
    return "\n".join(lines) + "\n"


@emitter("Flows.lean")
def flows(repo):
    """C19: the event scripts of the protocol flows, traced on the real code (fault-free, success paths)"""
    import flows as F
    rows = []
    for name in F.scenarios():
        ev, _, _ = F.trace(name)
        rows.append(f"  ({lean_str(name)}, {lean_str_list(ev)})")
    return ("namespace Generated.Flows\n\n/-- flow name ↦ events of one fault-free request: storage callbacks in invocation order, \"gen\", \"respond\" -/\n"
            "def flows : List (String × List String) := [\n" + ",\n".join(rows) + "]\n\nend Generated.Flows\n")


@emitter("Metadata.lean")
def metadata(repo):
    """C18: the registry key lists that drive validate(), and the registered client metadata members"""
    from authlib.oauth2.rfc8414 import AuthorizationServerMetadata
    from authlib.oidc.discovery import OpenIDProviderMetadata
    from authlib.oauth2.rfc7591 import ClientMetadataClaims
    from authlib.oauth2.rfc7592 import ClientConfigurationEndpoint
    import inspect, re
    src = inspect.getsource(ClientConfigurationEndpoint.create_update_client_response)
    m = re.search(r"must_not_include = \((.*?)\)", src, re.S)
    forbidden = re.findall(r'"([a-z_]+)"', m.group(1)) if m else []
    return ("namespace Generated.Metadata\n\n"
            f"def asRegistryKeys : List String := {lean_str_list(AuthorizationServerMetadata.REGISTRY_KEYS)}\n\n"
            f"def opRegistryKeys : List String := {lean_str_list(OpenIDProviderMetadata.REGISTRY_KEYS)}\n\n"
            f"def clientRegisteredClaims : List String := {lean_str_list(ClientMetadataClaims.REGISTERED_CLAIMS)}\n\n"
            f"def updateMustNotInclude : List String := {lean_str_list(forbidden)}\n\n"
            "end Generated.Metadata\n")


@emitter("Errors.lean")
def errors(repo):
    """C20: every OAuth 2 error class (code, status, class-level description), every description the library passes
    when it raises one (static text, or the source of a dynamic expression with its site), the RFC 6749 character
    ranges of invalid_error_characters, and the default JSON response headers"""
    import ast, importlib, inspect, os, pkgutil
    import authlib.oauth2, authlib.oidc
    from authlib.oauth2.base import OAuth2Error
    from authlib.consts import default_json_headers
    for pkg in (authlib.oauth2, authlib.oidc):
        for m in pkgutil.walk_packages(pkg.__path__, pkg.__name__ + "."):
            try:
                importlib.import_module(m.name)
            except Exception:
                pass
    classes = {}
    def walk(c):
        for s in c.__subclasses__():
            if s.__module__.startswith("authlib."):
                classes[s.__name__] = s
            walk(s)
    walk(OAuth2Error)
    rows = sorted((n, c.error or "", int(c.status_code or 0), c.description or "") for n, c in classes.items())
    static, dynamic = set(), set()
    root = os.path.join(repo, "authlib")
    for base in ("oauth2", "oidc"):
        for dp, _, fs in os.walk(os.path.join(root, base)):
            for f in fs:
                if not f.endswith(".py"):
                    continue
                path = os.path.join(dp, f)
                src = open(path).read()
                tree = ast.parse(src)
                for node in ast.walk(tree):
                    if not isinstance(node, ast.Call):
                        continue
                    name = node.func.id if isinstance(node.func, ast.Name) else (node.func.attr if isinstance(node.func, ast.Attribute) else None)
                    cls = classes.get(name)
                    if cls is None:
                        continue
                    params = list(inspect.signature(cls.__init__).parameters)[1:]
                    arg = None
                    for kw in node.keywords:
                        if kw.arg == "description":
                            arg = kw.value
                    if arg is None and params and params[0] == "description" and node.args:
                        arg = node.args[0]
                    if arg is None:
                        continue
                    if isinstance(arg, ast.Constant) and isinstance(arg.value, str):
                        static.add(arg.value)
                    elif isinstance(arg, ast.Constant) and arg.value is None:
                        continue
                    else:
                        dynamic.add(os.path.relpath(path, root) + ": " + " ".join(ast.get_source_segment(src, arg).split()))
    import authlib.oauth2.base as b
    fsrc = inspect.getsource(b.invalid_error_characters)
    ranges = None
    for node in ast.walk(ast.parse(fsrc)):
        if isinstance(node, ast.Assign) and getattr(node.targets[0], "id", None) == "valid_ranges":
            ranges = ast.literal_eval(node.value)
    if ranges is None:
        raise ValueError("invalid_error_characters: valid_ranges not found")
    return ("namespace Generated.Errors\n\n"
            "/-- class name, error code, status, class-level description of every OAuth2Error subclass -/\n"
            "def classes : List (String × String × Nat × String) := [\n" + ",\n".join(
                f"  ({lean_str(n)}, {lean_str(e)}, {s}, {lean_str(d)})" for n, e, s, d in rows) + "]\n\n"
            "/-- descriptions given as string literals where the library raises an OAuth 2 error -/\n"
            f"def staticDescriptions : List String := {lean_str_list(sorted(static))}\n\n"
            "/-- descriptions that are computed (site: source of the expression) -/\n"
            f"def dynamicDescriptionSites : List String := {lean_str_list(sorted(dynamic))}\n\n"
            f"def validRanges : List (Nat × Nat) := [{', '.join(f'({a}, {b_})' for a, b_ in ranges)}]\n\n"
            f"def defaultJsonHeaders : List (String × String) := [{', '.join(f'({lean_str(k)}, {lean_str(v)})' for k, v in default_json_headers)}]\n\n"
            "end Generated.Errors\n")


@emitter("KeyFamily.lean")
def key_family(repo):
    """C02 / C20: what `prepare_key` of every registered JWS / JWE algorithm does with a key of every kind and form — observed on the real code.
    The header's alg is the attacker's choice, the key is the server's: every cell must be `ok` or `ValueError`, never another exception."""
    from authlib.jose import JsonWebSignature, JsonWebEncryption, JsonWebKey, OctKey
    keys = {"oct": OctKey.import_key(b"0123456789abcdef0123456789abcdef"), "RSA": JsonWebKey.generate_key("RSA", 2048, is_private=True),
            "EC": JsonWebKey.generate_key("EC", "P-256", is_private=True), "OKP": JsonWebKey.generate_key("OKP", "Ed25519", is_private=True),
            "OKPX": JsonWebKey.generate_key("OKP", "X25519", is_private=True)}
    rows = []
    for reg_name, reg in (("jws", JsonWebSignature.ALGORITHMS_REGISTRY), ("jwe", JsonWebEncryption.ALG_REGISTRY)):
        for alg in sorted(reg):
            for kty, k in keys.items():
                for form in ("object", "jwk", "pem"):
                    if form == "pem" and kty == "oct":
                        continue
                    arg = k if form == "object" else dict(k.as_dict(is_private=True)) if form == "jwk" else k.as_pem(is_private=True)
                    try:
                        reg[alg].prepare_key(arg)
                        outcome = "ok"
                    except ValueError:
                        outcome = "ValueError"
                    except Exception as e:
                        outcome = type(e).__name__
                    rows.append(f"  ({lean_str(reg_name)}, {lean_str(alg)}, {lean_str(type(reg[alg]).__name__)}, {lean_str(kty)}, {lean_str(form)}, {lean_str(outcome)})")
    return ("namespace Generated.KeyFamily\n\n/-- (registry, alg, implementing class, key kind, key form, outcome of `prepare_key`) -/\n"
            "def prepareKey : List (String × String × String × String × String × String) := [\n" + ",\n".join(rows) + "]\n\nend Generated.KeyFamily\n")


@emitter("KeyOps.lean")
def key_ops(repo):
    """C02: which key operation every registered algorithm asks the CALLER'S key to permit (Key.check_key_op), per side — observed by running
    one sign / verify / encrypt / decrypt with a recording hook. `use` and `key_ops` restrictions are enforced by exactly these checks."""
    from authlib.jose import JsonWebSignature, JsonWebEncryption, JsonWebKey, OctKey
    from authlib.jose.rfc7517 import base_key
    keys = {"oct": lambda n=32: OctKey.import_key(b"k" * n), "RSA": lambda: JsonWebKey.generate_key("RSA", 2048, is_private=True),
            "EC": lambda crv="P-256": JsonWebKey.generate_key("EC", crv, is_private=True), "OKP": lambda: JsonWebKey.generate_key("OKP", "Ed25519", is_private=True)}
    rec = []
    orig = base_key.Key.check_key_op

    def hook(self, operation):
        rec.append((id(self), operation))
        return orig(self, operation)
    rows = []
    base_key.Key.check_key_op = hook
    try:
        J = JsonWebSignature()
        for alg in sorted(J.ALGORITHMS_REGISTRY):
            a = J.ALGORITHMS_REGISTRY[alg]
            cls = type(a).__name__
            if cls == "NoneAlgorithm":
                continue
            k = {"HMACAlgorithm": keys["oct"], "RSAAlgorithm": keys["RSA"], "RSAPSSAlgorithm": keys["RSA"], "EdDSAAlgorithm": keys["OKP"]}.get(cls) or (lambda: keys["EC"](a.curve))
            key = k()
            del rec[:]
            tok = J.serialize_compact({"alg": alg}, b"x", key)
            sign_ops = [op for i, op in rec if i == id(key)]
            del rec[:]
            J.deserialize_compact(tok, key)
            rows.append(("jws", alg, cls, sign_ops, [op for i, op in rec if i == id(key)]))
        E = JsonWebEncryption()
        for alg in sorted(E.ALG_REGISTRY):
            a = E.ALG_REGISTRY[alg]
            cls = type(a).__name__
            if cls == "ECDH1PUAlgorithm":
                continue          # draft, needs a sender key; not in the property's scope
            key = keys["RSA"]() if cls == "RSAAlgorithm" else keys["EC"]() if cls == "ECDHESAlgorithm" else keys["oct"](16 if alg == "dir" else int(alg[1:4]) // 8)
            del rec[:]
            tok = E.serialize_compact({"alg": alg, "enc": "A128GCM"}, b"x", key)
            enc_ops = [op for i, op in rec if i == id(key)]
            del rec[:]
            E.deserialize_compact(tok, key)
            rows.append(("jwe", alg, cls, enc_ops, [op for i, op in rec if i == id(key)]))
    finally:
        base_key.Key.check_key_op = orig
    body = ",\n".join(f"  ({lean_str(r)}, {lean_str(alg)}, {lean_str(cls)}, {lean_str_list(a)}, {lean_str_list(b)})" for r, alg, cls, a, b in rows)
    return ("namespace Generated.KeyOps\n\n/-- (registry, alg, implementing class, operations checked on the caller's key when producing, … when consuming) -/\n"
            "def keyOps : List (String × String × String × List String × List String) := [\n" + body + "]\n\nend Generated.KeyOps\n")


@emitter("Jwe.lean")
def jwe(repo):
    """JWE registries as registered on JsonWebEncryption: content-encryption algorithms (CEK / IV sizes, key and tag octets, hash) and
    key-management algorithms (class, key size)."""
    from authlib.jose import JsonWebEncryption
    lines = ["/- GENERATED by harness/extract_data.py from authlib/jose/rfc7518/jwe_encs.py, jwe_algs.py, jwe_zips.py — do not edit -/", "namespace Generated.Jwe", ""]
    lines.append("/-- `JsonWebEncryption.ENC_REGISTRY`: (name, class, CEK_SIZE bits, IV_SIZE bits, key_len octets (0 = n/a), hash name ('' = n/a)) -/")
    items = []
    rfc7518 = lambda a: type(a).__module__.startswith("authlib.jose.rfc7518")      # (the draft algorithms are registered only on request)
    for name, a in sorted((n, a) for n, a in JsonWebEncryption.ENC_REGISTRY.items() if rfc7518(a)):
        h = getattr(a, "hash_alg", None)
        hname = h().name if h else ""
        items.append(f"  ({lean_str(name)}, {lean_str(type(a).__name__)}, {int(a.CEK_SIZE)}, {int(a.IV_SIZE)}, {int(getattr(a, 'key_len', 0) or 0)}, {lean_str(hname)})")
    lines.append("def encRegistry : List (String × String × Nat × Nat × Nat × String) := [\n" + ",\n".join(items) + "]")
    lines.append("")
    lines.append("/-- `JsonWebEncryption.ALG_REGISTRY`: (name, class, key_size bits (0 = none)) -/")
    items = []
    for name, a in sorted((n, a) for n, a in JsonWebEncryption.ALG_REGISTRY.items() if rfc7518(a)):
        items.append(f"  ({lean_str(name)}, {lean_str(type(a).__name__)}, {int(getattr(a, 'key_size', 0) or 0)})")
    lines.append("def algRegistry : List (String × String × Nat) := [\n" + ",\n".join(items) + "]")
    lines.append("")
    lines.append("def zipRegistry : List String := " + lean_str_list(sorted(JsonWebEncryption.ZIP_REGISTRY)))
    lines.append("")
    lines.append("end Generated.Jwe")
    return "\n".join(lines) + "\n"


@emitter("OAuth1.lean")
def oauth1(repo):
    """OAuth 1 provider constants: timestamp window, default signature methods, the nonce memory of the Flask cache hooks and of the Django integration."""
    import inspect, re
    from authlib.oauth1.rfc5849.base_server import BaseServer
    from authlib.integrations.flask_oauth1 import cache as fcache
    lines = ["/- GENERATED by harness/extract_data.py from authlib/oauth1/rfc5849/base_server.py, integrations/flask_oauth1/cache.py, integrations/django_oauth1 — do not edit -/",
             "namespace Generated.OAuth1", ""]
    lines.append("/-- `BaseServer.EXPIRY_TIME`: timestamps older than this many seconds are refused (0 = falsy: no check) -/")
    lines.append(f"def expiryTime : Nat := {int(BaseServer.EXPIRY_TIME or 0)}")
    lines.append("def defaultSignatureMethods : List String := " + lean_str_list(list(BaseServer.SUPPORTED_SIGNATURE_METHODS)))
    lines.append("def knownSignatureMethods : List String := " + lean_str_list(sorted(BaseServer.SIGNATURE_METHODS)))
    def default_of(fn, name):
        p = inspect.signature(fn).parameters.get(name)
        return int(p.default) if p is not None and isinstance(p.default, int) else 0
    lines.append("/-- default `expires` of `create_exists_nonce_func` / `register_nonce_hooks` (flask_oauth1/cache.py) -/")
    lines.append(f"def flaskNonceExpires : Nat := {default_of(fcache.create_exists_nonce_func, 'expires')}")
    lines.append(f"def flaskRegisterNonceExpires : Nat := {default_of(fcache.register_nonce_hooks, 'expires')}")
    def dj(path):
        try:
            m = re.search(r'get\(\s*"nonce_expires_in"\s*,\s*(\d+)\s*\)', open(os.path.join(repo, path)).read())
            return int(m.group(1)) if m else 0
        except OSError:
            return 0
    lines.append("/-- default of the `nonce_expires_in` setting in django_oauth1 (authorization server, resource protector) -/")
    lines.append(f"def djangoServerNonceExpires : Nat := {dj('authlib/integrations/django_oauth1/authorization_server.py')}")
    lines.append(f"def djangoProtectorNonceExpires : Nat := {dj('authlib/integrations/django_oauth1/resource_protector.py')}")
    lines.append("")
    lines.append("end Generated.OAuth1")
    return "\n".join(lines) + "\n"
