"""The individual extractors. Each imports the live objects from $VERIF_REPO (already on sys.path)."""
from extract import emitter, lean_str, lean_str_list, lean_bytes


@emitter("Grants.lean")
def grants(repo):
    from authlib.oauth2.rfc6749 import grants as g
    from authlib.oauth2.rfc6750 import BearerTokenGenerator
    lines = ["namespace Generated.Grants", ""]
    lines.append("/-- `GRANT_TYPE` of the built-in grants -/")
    lines.append("def grantTypes : List (String × String) := [")
    items = []
    for cls in (g.AuthorizationCodeGrant, g.ImplicitGrant, g.ResourceOwnerPasswordCredentialsGrant,
                g.ClientCredentialsGrant, g.RefreshTokenGrant):
        items.append(f"  ({lean_str(cls.__name__)}, {lean_str(cls.GRANT_TYPE)})")
    lines.append(",\n".join(items) + "]")
    lines.append("")
    lines.append("end Generated.Grants")
    return "\n".join(lines) + "\n"


@emitter("Jose.lean")
def jose(repo):
    """JWS algorithm registry, unsafe HMAC key prefixes, header parameter names, key field lists."""
    from authlib.jose import JsonWebSignature
    from authlib.jose.rfc7518 import oct_key, rsa_key, ec_key
    from authlib.jose.rfc8037 import okp_key
    lines = ["namespace Generated.Jose", ""]
    lines.append("/-- `JsonWebSignature.ALGORITHMS_REGISTRY`: (name, implementing class, hash bits, EC curve, EC coordinate octets) -/")
    lines.append("def jwsRegistry : List (String × String × Nat × String × Nat) := [")
    items = []
    for name, alg in JsonWebSignature.ALGORITHMS_REGISTRY.items():
        cls = type(alg).__name__
        bits = 0
        h = getattr(alg, "hash_alg", None)
        if h is not None:
            bits = getattr(h, "digest_size", None)
            if bits is None:
                bits = h().digest_size
            bits *= 8
        curve = getattr(alg, "curve", "") or ""
        coord = 0
        if curve:
            coord = (ec_key.ECKey.DSS_CURVES[curve]().key_size + 7) // 8
        items.append(f"  ({lean_str(name)}, {lean_str(cls)}, {bits}, {lean_str(curve)}, {coord})")
    lines.append(",\n".join(items) + "]")
    lines.append("")
    lines.append("/-- `OctKey` refuses raw keys starting with one of these (asymmetric key material in text form) -/")
    pref = getattr(oct_key, "POSSIBLE_UNSAFE_KEYS")
    lines.append("def possibleUnsafeKeys : List (List UInt8) := [")
    lines.append(",\n".join("  " + lean_bytes(p) for p in pref) + "]")
    lines.append("")
    markers = getattr(oct_key, "POSSIBLE_UNSAFE_MARKERS", ())
    lines.append("/-- `OctKey` refuses raw keys containing one of these anywhere -/")
    lines.append("def possibleUnsafeMarkers : List (List UInt8) := [" + ", ".join(lean_bytes(m) for m in markers) + "]")
    lines.append("")
    lines.append("/-- `SSH_PUBLIC_PREFIX` of the asymmetric key classes (what `load_pem_key` hands to the SSH loader) -/")
    lines.append("def sshPublicPrefixes : List (List UInt8) := [" + ", ".join(lean_bytes(c.SSH_PUBLIC_PREFIX) for c in (rsa_key.RSAKey, ec_key.ECKey, okp_key.OKPKey)) + "]")
    from authlib.jose.rfc7517.base_key import Key as _K
    lines.append("def privateKeyOps : List String := " + lean_str_list(list(_K.PRIVATE_KEY_OPS)))
    lines.append("def publicKeyOps : List String := " + lean_str_list(list(_K.PUBLIC_KEY_OPS)))
    lines.append("")
    lines.append("def registeredHeaderParameterNames : List String := " + lean_str_list(sorted(JsonWebSignature.REGISTERED_HEADER_PARAMETER_NAMES)))
    lines.append("")
    for nm, cls in (("rsa", rsa_key.RSAKey), ("ec", ec_key.ECKey), ("okp", okp_key.OKPKey)):
        lines.append(f"def {nm}PublicKeyFields : List String := " + lean_str_list(list(cls.PUBLIC_KEY_FIELDS)))
        lines.append(f"def {nm}PrivateKeyFields : List String := " + lean_str_list(list(cls.PRIVATE_KEY_FIELDS)))
        lines.append(f"def {nm}RequiredJsonFields : List String := " + lean_str_list(list(cls.REQUIRED_JSON_FIELDS)))
    lines.append("def octRequiredJsonFields : List String := " + lean_str_list(list(oct_key.OctKey.REQUIRED_JSON_FIELDS)))
    lines.append("")
    lines.append("end Generated.Jose")
    return "\n".join(lines) + "\n"
