#!/venv/bin/python
"""Regenerates MANIFEST.json from the table below (development helper, not a registered command)."""
import json, os
ROOT = os.path.dirname(os.path.dirname(os.path.abspath(__file__)))
ids = [json.loads(l)["id"] for l in open(os.path.join(ROOT, "properties.jsonl"))]

CLAIMED = {
 "C03": dict(
   text="Lean 4 theorems (Props/C03.lean over Model/Jwe.lean; AES, GCM, key wrap, RSA, ECDH are parameters): accept_implies_primitives_accepted (an accepted compact serialization made the "
        "AEAD primitive accept exactly the received IV / ciphertext / tag under AAD = the RECEIVED protected segment and the CEK unwrapped from the received encrypted key), "
        "roundtrip_compact(_zip), accepted_altered_component_is_a_forgery (reduction of tamper rejection to the unforgeability of the primitive); for AES_CBC_HMAC_SHA2, which the "
        "library composes itself (HMAC native in Lean): cbc_accept_implies_tag_eq, cbc_wrong_tag_rejected (AES is never reached), cbc_tag_length_enforced (shortened / lengthened tag), "
        "mac_input_injective + al64_injective_length + cbc_tamper_reduces_to_mac_collision (an accepted altered aad / iv / ciphertext is an HMAC collision on DIFFERENT inputs); "
        "fixedInfo_injective (Concat KDF other-info); general JSON serialization: json_accept_implies_authenticated, json_every_recipient_decrypts / json_recipient_gets_plaintext "
        "(a recipient whose entry is intact is served whatever the foreign entries unwrap to), first_unwrapping_loop_loses_recipient (the pre-fix loop, counterexample), jsonAad_injective. Correspondence: CBC-HS tag and Concat KDF (other-info and derived key, SHA-256 native) against the real methods; the compact "
        "deserializer's structure against the model fed with the primitive verdicts of an independent RFC 7516 implementation, on valid and altered tokens for all 14 algs. Oracle: full "
        "14 × 6 × 2 round-trip matrix in three directions (authlib↔authlib, authlib→independent, independent→authlib) over 5 curves, general JSON serialization with 1..3 recipients and AAD, "
        "every component × bit flips / truncation / lengthening / splicing, header rewrites, non-recipient and wrong-size keys, a deterministic RSA1_5 multi-recipient witness.",
   note="Trusted: Lean kernel; the `cryptography` primitives (both sides); harness/jweref.py as the independent implementation; JSON header parsing abstract in the model. The JSON "
        "model starts after base64 / JSON decoding of the members. ECDH-1PU drafts and C20P/XC20P not exercised. Observation: in dir / ECDH-ES the encrypted-key segment is ignored.",
   technique="Lean 4 proof (structural theorems + reduction to primitive unforgeability / MAC collision) + differential correspondence with an independent implementation + tamper oracle",
   design="§5 C03"),
 "C20": dict(
   text="Lean 4 theorems (Props/C20.lean) over the regenerated error layer (Generated/Errors.lean: every OAuth2Error subclass with code / status / class-level description, every "
        "literal description passed when the library raises one, every site where a description is computed, the invalid_error_characters ranges, the default JSON headers — "
        "re-extracted from the source by AST and import on every run): ranges_are_rfc6749, static_ and class_descriptions_in_charset, error_codes_registered, statuses_fit, "
        "dynamic_description_sites_reviewed (the computed-description sites are exactly a reviewed list), json_responses_not_cacheable; and over Model/ErrorResponse.lean "
        "(OAuth2Error.__init__ → __call__ → handle_error_response): response_wellformed (registered code, fitting status, description within the RFC 6749 set), "
        "no_crash_partial, forbidden_character_crashes (the complement: how an embedded request value became a ValueError). Correspondence: every error class × description "
        "pool against the real constructors. Hostile-input oracle: 11 000 (quick) requests over all OAuth 2 / OIDC / OAuth 1 endpoints, registration / configuration, both "
        "resource protectors (core and Flask), RFC 7523 / RFC 9068 JWT consumers, and JWS / JWT / JWE parsing: any escaping exception, unregistered code, misfit status, "
        "out-of-set description or token response without no-store is a concrete failing input.",
   note="PARTIAL as labelled: 'the endpoint body raises nothing but OAuth2Error' is searched for by the oracle, not proved — Python code is not total by construction. Readings: the "
        "RFC 6749 description character set is applied to OAuth 2 responses (OAuth 1 problem reports are form-encoded; RFC 5849 defines neither registry nor set); for JOSE calls "
        "ValueError('Invalid JSON Web Key Set') for an unknown kid and the ValueError / InvalidUnwrap / InvalidTag of JWE decryption are the documented outcomes (docstring, tests/jose). "
        "Not driven: the Django provider integrations.",
   technique="Lean 4 proof over an AST-regenerated error table + error-path model (correspondence on constructors) + exhaustive-pool hostile-input oracle",
   design="§5 C20"),
 "C18": dict(
   text="Lean 4 theorems. Metadata (Props/C18.lean over Model/Metadata.lean + Model/Url.lean, validators run in the REGISTRY_KEYS order regenerated from both classes on every "
        "run): as_/op_metadata_valid_iff_rules_partial — validate() accepts a document IFF every member satisfies its rule (required members present, endpoints https, issuer "
        "without query / fragment, array members arrays, signing-alg lists present when JWT client authentication is advertised and never containing none, enumerated members "
        "within their values), proved per member and lifted to any key list; guards ScalarLists / ListTyped / NoLoopbackHttp each with a witness outside; "
        "loopback_http_issuer_accepted (negation, known finding); every_registry_key_has_a_validator. Registration (Props/C18Reg.lean over Model/Registration.lean): "
        "validated_metadata_is_good (a successful ClientMetadataClaims.validate stores only absolute fragment-free URIs and supported scope / grant types / response types / "
        "auth method), store_good_over_every_history (INVARIANT over all sequences of register / update requests, merge included), register_without_token_refused, "
        "update_other_client_refused, update_wrong_secret_refused, update_server_member_refused (list regenerated from the endpoint source), all with the store unchanged; "
        "OpenID registration claims class: oidc_validated_is_good (application_type web / native, signing algorithms never none, subject type supported, URI entries absolute). "
        "Correspondence: ~4 000 (quick) metadata documents (every member × retype pool, pairs) on both classes with outcome class AND message compared; registration / update "
        "requests and short histories on the real endpoints with outcome and stored metadata compared; independent statement oracle.",
   note="PARTIAL as labelled (guards above). Readings: scalar / URL members are present when truthy, array members when non-null. Trusted: Lean kernel; urlsplit subset (printable ASCII, no "
        "brackets); jwks verdict abstract; in-memory registration endpoints (regworld.py); the OIDC registration claims class is modelled and compared on its own (not through the endpoints). Observation: an object "
        "given as grant_types / response_types is accepted by its keys; 0/1 accepted for boolean members.",
   technique="Lean 4 proof (per-member iff lifted over regenerated key lists; validated-metadata invariant over all histories) + differential correspondence + statement oracle",
   design="§5 C18"),
 "C17": dict(
   text="Lean 4 theorems over the transition system Model/AsyncRefresh.lean (N coroutines, lock, token version, counters; scheduler picks any enabled step, the token "
        "endpoint's answers are the environment's choice, lock handed to any waiter), by an 11-clause invariant preserved by every step (step_preserves_inv) and induction "
        "over the schedule — for EVERY N, EVERY schedule, EVERY endpoint behaviour: mutual_exclusion, at_most_one_successful_refresh (and callbacks ≤ 1), "
        "callback_exactly_once_per_refresh (at any point where nobody is in the refresh section), no_protected_request_with_expired_token, failed_refresh_sends_nothing, "
        "refresh_requests_accounted, exactly_one_refresh_when_endpoint_succeeds (≤ 1 refresh request ever; once any protected request went out: exactly one, it succeeded, "
        "the request carried version 1). Correspondence: the real AsyncOAuth2Client on an asyncio loop with gating transport and callback; ALL schedules for N ≤ 4 (5 thorough) "
        "× grants × callback × outcome sequences; each observed event trace must be an enabled run of the model with equal final counters and per-caller results. Trace oracle from the statement.",
   note="Trusted: Lean kernel; coroutine-level atomicity of asyncio between awaits (the granularity of model actions); harness scheduler (asyncworld.py). Cannot exhibit: thread "
        "pre-emption, real network timing, lock hand-off orders other than anyio's FIFO on the real side (the model covers them). Hypothesis FreshTokenLive: the refreshed token is not itself expired.",
   technique="Lean 4 proof (inductive invariant of a transition system, all N and all schedules) + trace-inclusion correspondence over exhaustively enumerated real schedules + trace oracle",
   design="§5 C17"),
 "C14": dict(
   text="Lean 4 theorems over Model/ClientState.lean (get/set/clear_state_data of FrameworkIntegration and StarletteIntegration, _clear_session_state, the authorize_redirect / "
        "authorize_access_token pairs; any number of sessions and providers): callback_proceeds_implies_begun_in_same_session_partial (for EVERY history of begin / callback / "
        "clock operations in session storage: a callback that goes on to the token endpoint was preceded by a begin in the SAME session creating exactly that key, and the "
        "verifier / nonce / redirect_uri used are the ones saved), state_single_use_partial (after a callback the same state is a mismatch after ANY later history that does "
        "not begin that key again in that session), callback_without_entry_is_mismatch_partial (no request: Out.mismatch carries none), other_sessions_untouched_partial, "
        "keyOf_injective (provider names without '_'). NEGATION proved for cache storage: cache_mode_foreign_session_completes (replayed on Flask, Django, Starlette: known finding), "
        "and the '_' key collision (known finding). Correspondence: histories on the three real integrations × session/cache × PKCE × OpenID with a recording transport; "
        "per-step outputs and final session/cache contents compared; statement oracle ties the data sent to the authorization URL (S256 of the verifier, redirect_uri, ID-token nonce verdict).",
   note="PARTIAL as labelled: the theorems carry cacheMode = false; the statement's 'with or without a shared cache' is false of the code (known finding C14-cache-foreign-session). "
        "Trusted: Lean kernel; harness-side sessions (dicts carried between requests), plain cache object, deterministic token generator; OAuth 1 apps share the same state functions and are not driven separately.",
   technique="Lean 4 proof (history invariant + step characterisation, negation witness for cache mode) + differential correspondence on histories over three frameworks + statement oracle",
   design="§5 C14"),
 "C19": dict(
   text="Lean 4 theorems (Props/C19.lean): script level — orderOk_consume_only_after_store and orderOk_respond_last: for EVERY script obeying the order discipline and "
        "EVERY fault position k, the exchanged credential is consumed only after its replacement was stored, and nothing is written after the response was built; "
        "generated_flows_ordered (decide +kernel over Generated/Flows.lean, the event scripts traced from the current code on every run: all 16 flows use only classified "
        "callbacks and obey the discipline), hence generated_flow_consume_only_after_store / generated_flow_respond_last for every traced flow and every k. State level "
        "(Model/Fault.lean = the state machines of C06/C09/C12 masked by the completed events): provider_/oauth1_fault_before_any_write (nothing completed ⇒ store "
        "unchanged), _unstored_nothing_new, _unconsumed_kept, provider_fault_after_everything (= step). Correspondence: every flow × every callback position × every "
        "pair of positions on successive attempts, plus random walks with interleaved faults, on the real providers: the store right after each fault, every later "
        "output (the retries) and the final store equal the model's. Statement oracle: failure surfaces, no response hands out an unstored credential, consumed ⇒ "
        "stored, grant not lost.",
   note="Trusted: Lean kernel; Python exception semantics (an exception raised in a callback unwinds to the caller unless caught — the oracle checks it is not swallowed); "
        "reference integrators memserver.py / mem1.py (fault raised before the callback acts; failed commit rolls back); the name→kind classification of callbacks in "
        "Model/Fault.lean; implicit flow covered by trace table + oracle only; OIDC/hybrid id_token paths not faulted.",
   technique="Lean 4 proof (script order discipline for every fault position + regenerated traced scripts + masked state machine) + differential correspondence on faulted histories + statement oracle",
   design="§5 C19"),
 "C12": dict(
   text="Lean 4 theorems over the OAuth 1.0 provider state machine Model/OAuth1Flow.lean (temporary credential request, user authorisation, token request, "
        "protected resource access, clock): exchangeCheck_ok_spec + exchange_ok_implies (token credentials only for a temporary credential in the store, bound to the "
        "requesting client, with the verifier issued at authorisation, signed with client secret + temporary secret by a configured method; bound to the approving user; "
        "the temporary credential is consumed), temp_single_use (INVARIANT over ALL histories: at most one token credential per temporary credential and a redeemed one "
        "is gone), access_ok_implies, only_configured_methods, nonces_monotone_run + nonce_tuple_accepted_at_most_once (after a served request, for EVERY later history a "
        "request with the same client, token, timestamp and nonce is refused), old_timestamp_refused. Correspondence: random walks and directed attack histories "
        "(replay, other client, wrong verifier, unsigned, wrong method, stale timestamp) against the real OAuth1 provider classes, requests signed by the real client; "
        "per-step outputs and final store compared; history oracle written from the statement.",
   note="Trusted: Lean kernel; reference integrator harness/mem1.py (in-memory nonce/credential store with the documented exists_nonce semantics); the signature "
        "primitive is abstracted to 'signed with (client secret, token secret)' — base string and signing are C11's subject; PLAINTEXT without timestamp/nonce is exempt "
        "from the replay check exactly as the code does.",
   technique="Lean 4 proof (step characterisation + invariants by induction over all histories) + differential correspondence on histories + statement oracle",
   design="§5 C12"),
 "C06": dict(
   text="Lean 4 theorems over the provider state machine Model/Provider.lean (authorize, redeem with PKCE, device authorize / user decision / poll, clock): "
        "redeemCheck_ok_spec + redeem_token_implies (a token is issued for a code only if the code is in the store — i.e. issued here and unconsumed —, belongs to the "
        "authenticated client, is unexpired, the redirect URI is identical when one was sent, and PKCE is satisfied; the token carries the approving user and the "
        "code is consumed), code_single_use (INVARIANT over ALL operation sequences of any length: no two tokens for one code, a redeemed code is gone), "
        "poll_token_implies and poll_no_token_unless_approved (device flow). PKCE patterns are regenerated from challenge.py and characterised for every string: "
        "verifier_accepted_iff_rfc7636 / challenge_accepted_iff_rfc7636 (Props/C06Pkce.lean). Correspondence: random walks and directed "
        "histories (boundary verifiers 42/43/128/129 chars, trailing newline, replay, other client, redirect present/absent, expiry) against the real provider; every "
        "step output and the final store compared; history oracle written from the statement.",
   note="Trusted: Lean kernel; reference integrator (memserver.py on the repo's sqla_oauth2 mixins); client authentication inside histories is abstracted to "
        "'authenticates as X via method m' (C07); SHA-256 for S256 is native Lean, self-tested under C01.",
   technique="Lean 4 proof (step characterisation + invariant by induction over all histories) + differential correspondence on histories + statement oracle",
   design="§5 C06"),
 "C09": dict(
   text="Lean 4 theorems over the same state machine (issue, refresh, revoke, introspect, access, clock): refresh_ok_implies_unrevoked_same_client (and the replaced "
        "credential is revoked in the same step), owner_revoke_is_permanent (after the owner's revocation request, for EVERY later operation sequence the token is refused by "
        "the resource protector and never reported active), foreign_revoke_refused_and_frame and unknown_revoke_200_and_frame (state unchanged), "
        "expired_or_unknown_refused, bounded_reachable. Correspondence: random walks (3 clients, tokens referenced by access or refresh string, all hints) and directed "
        "revoke-then-use histories against the real provider built on the repo's own sqla_oauth2 functions; per-step outputs and final store compared; history oracle.",
   note="Trusted: Lean kernel; reference integrator; introspection permission = same client; ContinueIteration chaining with RFC 9068 endpoints is not modelled.",
   technique="Lean 4 proof (monotone revocation invariant over all histories) + differential correspondence on histories + statement oracle",
   design="§5 C09"),
 "C07": dict(
   text="Lean 4 theorems for the secret-based methods AND the JWT assertion method. JWT assertion (Props/C07Jwt.lean over Model/ClientAssertion.lean, built on the claims model and theorems of C04; state = the documented integrator's jti store): authenticated_implies (signature verified under the key of the client named by sub, iss = sub = that client, audience contains the token endpoint, unexpired within the 60 s leeway, jti fresh, client registered for the method), used_monotone_run, replayed_assertion_never_authenticates (for EVERY later history); correspondence on assertion histories (replays, other jti / client, clock) against the real token endpoint. Secret-based methods: Lean 4 theorems over Model/ClientAuth.lean (extract_basic_authorization incl. lenient base64, UTF-8 check, first-colon split and unquote; "
        "authenticate_client_secret_basic / _post / authenticate_none with their raise-on-unknown-client rules; the ClientAuthentication.authenticate loop with "
        "check_endpoint_auth_method; the 401 rule): authenticated_implies_valid_credentials_and_permitted_method (∀ requests, client tables, method lists, endpoints), "
        "public_client_with_secret_rejected, wrong_secret_rejected, unregistered_method_rejected, exhausted_status (401 + challenge iff Basic permitted), "
        "otherwise_invalid_client (400/401 and the challenge accompanies exactly 401). Correspondence: registered method × presented credentials (Basic header shapes, "
        "form, query placement, several at once) × method lists × endpoints through the real ClientAuthentication; endpoint-level runs (token per grant, revocation, "
        "introspection, device authorization) with before/after store snapshots; RFC 7523 client assertions with each claim mutated and replayed; the built-in grants with the permitted-method lists they ship with (shipped_method_lists pins the regenerated table, shipped_basic_only_grants / shipped_code_grant_not_none derive the consequence).",
   note="Trusted: Lean kernel; reference integrator client semantics; the jti store of the JWT assertion method is the documented integrator's; signature primitives are abstract in the model "
        "(failed assertion may record a jti: integrator callback invoked before the method check).",
   technique="Lean 4 proof over hand-written authentication model + differential correspondence + endpoint-level side-effect oracle",
   design="§5 C07"),
 "C05": dict(
   text="Lean 4 theorems over Model/Authorize.lean (response_type normalisation, grant lookup over RESPONSE_TYPES regenerated from the grant classes, client "
        "identification per grant, validate_authorization_redirect_uri, response-type / scope / PKCE / nonce / openid / prompt checks in code order, "
        "OAuth2Error redirect rule, create_response_mode_response incl. form_post, both entry points): redirect_only_to_registered and "
        "consent_redirect_only_to_registered (every 302 / form_post target is a URI registered by the identified existing client: the requested one or the "
        "default — for ALL requests, client tables, grant registrations, decisions), state_echoed_once_unchanged, credential_only_if_approved; the same three with the RFC 9207 "
        "issuer extension registered, plus iss_exactly_once (Props/C05Issuer.lean). "
        "registered_query_preserved is C15's add_params_preserves_existing. Correspondence: mostly-valid + mutated + fully random request streams (GET consent and "
        "POST decision, parameter placement query/form/split, duplicated parameters) against the real core provider with all five authorization grants; "
        "direct oracle on Location / form action.",
   note="Trusted: Lean kernel; reference integrator client semantics (exact URI membership, first URI default); URL rendering (urlparse/urlunparse) is exercised and "
        "canonicalised, not modelled; Flask/Django integrations are not driven; hostile characters that crash the error constructor belong to C20.",
   technique="Lean 4 proof over hand-written endpoint model + regenerated grant constants + differential correspondence + direct redirect oracle",
   design="§5 C05"),
 "C13": dict(
   text="Lean 4 theorems over Model/IdToken.lean (IDToken / ImplicitIDToken / HybridIDToken.validate in code order, generate_id_token payload, create_half_hash): "
        "nonce_mismatch_rejected, nonce_missing_rejected, client_mismatch_rejected, issuer_mismatch_rejected, expired_rejected, c_hash_missing_rejected "
        "(all unconditional, every claim set / parameter set), at_hash_mismatch_is_collision and c_hash_mismatch_is_collision (acceptance with a different access "
        "token / code = explicit half-hash collision, for any hash), half_hash_eq_spec (left half of the SHA-2 matched to the algorithm for the 12 algorithms). "
        "Correspondence: the REAL provider grants issue the ID Token for all 6 response types × signing algorithms, the library's claims classes validate it under "
        "each near-miss (nonce, access token, code, client, issuer, key) and clock offsets around exp ± leeway; create_half_hash, generate_id_token payload and "
        "validate on perturbed claim sets are compared with the compiled model (SHA-2 native in Lean); nonce replay histories per client.",
   note="Trusted: Lean kernel; signature verification is C01's subject (jwt.decode exercised with the right / a wrong key); general acceptance of provider tokens is shown by "
        "correspondence + a kernel-checked instance, not by a universally quantified theorem; one known finding (code token / c_hash) listed in known_findings.json.",
   technique="Lean 4 proof (mismatch ⇒ rejection; binding ⇒ half-hash collision) + differential correspondence with the real provider and claims classes",
   design="§5 C13"),
 "C16": dict(
   text="Histories (Model/KeyObject.lean, Props/C16Hist.lean): one key object as a state machine (cached JWK members and cryptography objects); export_is_history_independent (∀ call sequences: an export returns what it returns on the fresh object), public_export_never_leaks and private_export_of_public_only_always_errors at every point of every history; correspondence on random call histories incl. the object's final internal flags. Lean 4 theorems over Model/Jwk.lean: int_b64_roundtrip (∀ n>0, via the Base64 round trip and beNat∘minBE = id), rsa_members_minimal_length "
        "(no leading zero octet, ∀ n), ec_members_full_length / ec_coord_roundtrip / ec_coord_decodes_to_full_length (fixed width, ∀ n < 256^len), "
        "public_export_only_public_members and public_export_has_no_private_member (∀ member lists, over the PUBLIC/PRIVATE_KEY_FIELDS lists regenerated from "
        "the key classes), private_export_of_public_is_error, thumbprint_members_eq_rfc7638 (regenerated REQUIRED_JSON_FIELDS sort to the RFC 7638 member order). "
        "Correspondence: int_to_base64/base64_to_int/_coordinate_to_base64/as_dict/thumbprint (SHA-256 native in Lean) against the compiled model; "
        "key-level oracle: every key type/curve/size × import form × private/public exported as dict/JSON/PEM/DER/encrypted PEM, re-imported and compared with "
        "the original cryptography object, RFC 7518 member encodings and RFC 7638 thumbprints computed independently, EC keys with a leading-zero coordinate forced per curve.",
   note="Trusted: Lean kernel; PEM/DER codecs, key generation, RSA d-only reconstruction are cryptography primitives (exercised only); as_dict modelled for string members; "
        "OctKey.as_dict always carries k (observation, DESIGN §3.2).",
   technique="Lean 4 proof (encodings for all integers, export filter for all member lists) + regenerated field lists + differential correspondence + independent RFC 7518/7638 oracle",
   design="§5 C16"),
 "C02": dict(
   text="Lean 4 theorems over Model/KeyPolicy.lean (crit check, missing/allowed/registered alg, key selection by kid for KeySet objects and dict key sets, "
        "family and curve check, check_key_op): verified_implies_policy (a key reaches signature verification only if alg is named, registered, allowed, "
        "not none, same family/curve, the designated key, use/key_ops permit, every crit extension understood and present), none_rejected, "
        "wrong_curve_rejected, wrong_family_rejected, kid_selects_designated_key, unknown_kid_is_error, missing_kid_many_keys_is_error, "
        "use_keyops_honoured, crit_unknown_rejected, any_crit_rejected_by_default, resolver_key_is_used / resolver_without_key_never_verifies / "
        "embedded_jwk_only_without_designated_key (callable keys and the token's own jwk header), and asym_text_never_hmac_key over the unsafe-prefix and marker "
        "lists REGENERATED from oct_key.py on every run (hypothesis PemNeedsMarker about cryptography's loaders). Correspondence: alg value × allow-list × "
        "key kind/form × kid × use/key_ops × crit matrix against real deserialize_compact / jwt.decode with tokens signed by an independent signer; "
        "confusion cells: every PEM/SSH/certificate text form (with whitespace, BOM, comment prefixes) offered as HMAC secret, incl. an end-to-end forgery attempt.",
   note="Trusted: Lean kernel; PemNeedsMarker is an explicit hypothesis about the primitive; JWE alg/enc/zip lookup and callable keys are not modelled (C03 / not claimed); "
        "alg values of JSON type list/object are left to C20.",
   technique="Lean 4 proof over hand-written policy model + regenerated data layer (registry, unsafe prefixes/markers) + differential correspondence",
   design="§5 C02"),
 "C01": dict(
   text="Lean 4 theorems over Model/Jws.lean (compact, flattened and general JSON deserialization, per-algorithm verify with the ECDSA length guard, "
        "allow-list and registry lookup; registry regenerated from JsonWebSignature.ALGORITHMS_REGISTRY on every run): accept_implies_prim_verified "
        "(acceptance ⇒ the primitive accepted exactly the received signing input and every octet of the received signature, and the returned header/payload "
        "are the decodings of the received segments), roundtrip_compact (∀ header, payload, key; SigCorrect is a theorem for HS*), none_never_verifies, "
        "hmac_sig_length / ecdsa_sig_length (unconditional), tamper_reduces_to_collision, general_all_signatures (every entry verified AND at least one entry), "
        "flat_signature_verified, registry_eq_rfc / registry_none_only_none over the generated registry; base64url round trip for all octet strings. "
        "Correspondence: 15 algorithms × key forms × 3 serializations × bit-flip / truncation / extension / splice / other-key / alg-swap mutations against the "
        "compiled model (HMAC-SHA2 computed natively in Lean and self-tested against hashlib); oracle = independent RFC 7515/7518 signer+verifier in both directions.",
   note="Trusted: Lean kernel; RSA/PSS/ECDSA/EdDSA and JSON header decoding are per-case oracle tables answered by cryptography / CPython json; "
        "JSON round trips (flattened/general) are covered by correspondence, not by a Lean round-trip theorem; base64 leniency (same octets, different text) is an accepted reading (DESIGN §3.2).",
   technique="Lean 4 proof (acceptance ⇒ primitive verification, reduction to MAC collision) + regenerated registry + differential correspondence + independent verifier",
   design="§5 C01"),
 "C15": dict(
   text="Lean 4 theorems, for every octet string in every position: parse_qsl∘urlencode = id (Lemmas/Percent) and its corollaries "
        "add_params_preserves_existing, token_body_roundtrip, grant_uri_roundtrip, post/none_roundtrip, bearer_query_body_roundtrip; basic_roundtrip "
        "(Base64 round trip + first-colon split + unquote identity, under the property's own side conditions), bearer_header_roundtrip, "
        "code_response_roundtrip and state_mismatch_reported. Correspondence: every prepare_*/encode_*/parse_* function and extract_basic_authorization "
        "against the compiled model on hostile text; end-to-end runs of the requests, httpx and async-httpx clients with recording transports whose wire "
        "requests are parsed by the library's server half and compared with each other.",
   note="Trusted: Lean kernel; octet-level model (UTF-8; latin-1 for the Basic header); urlparse/urlunparse component splitting and the HTTP libraries are "
        "exercised, not modelled; str-level unquote(errors='replace') outside the model.",
   technique="Lean 4 proof (codec round trips for all inputs) + differential correspondence + three-client end-to-end oracle",
   design="§5 C15"),
 "C11": dict(
   text="Lean 4 theorems over Model/OAuth1Sig.lean (escape, normalize_parameters with merge sort, construct_base_string, normalize_base_string_uri, "
        "signing key, HMAC signature): base_string_injective (base string determines upper-cased method, normalised URI, normalised parameters), "
        "normalized_determines_multiset, escape_injective, secret_change_changes_key, hmac_tamper_reduces_to_collision / tampered_request_is_collision "
        "(acceptance of a changed request = explicit MAC collision, for any MAC), base_string_eq_rfc_partial under two decidable guards and two proved "
        "negation witnesses (known findings). Correspondence: the real client signs, the real server parses/verifies; base string, HMAC-SHA1 (native Lean SHA-1) "
        "and PLAINTEXT key compared with the model; base string compared with an independent RFC 5849 implementation; every single-field mutation must be rejected.",
   note="Trusted: Lean kernel; RSA-SHA1 is a primitive (not modelled; for RSA the verification key is mutated instead of the unused shared secrets, RFC 5849 §3.4.3); "
        "header render/parse is exercised end to end, not modelled; urlparse components come from CPython. Two known findings (realm, double unescape) are listed in known_findings.json.",
   technique="Lean 4 proof (injectivity + reduction to MAC collision) + differential correspondence + independent RFC 5849 reference",
   design="§5 C11"),
 "C10": dict(
   text="Lean 4 theorems for BOTH token kinds. RFC 9068 JWT access tokens (Props/C10Jwt.lean over Model/JwtAccessToken.lean, built on the claims model and theorems of C04): served_implies, served_token_is_valid (issuer, audience contains the resource server, unexpired, every required claim), expired_never_served, wrong_typ_never_served, undecodable_is_invalid_token, insufficient_scope_only_for_valid_token, decision_is_served_401_or_403; correspondence on every crafted token (JWS verdict decided independently by HMAC recomputation). Opaque bearer tokens: Lean 4 theorems served_iff (full iff, every header string / token table / type list / requirement list), error_kind_mapping and "
        "rejected_token_never_current over Model/Resource.lean, which mirrors ResourceProtector.validate_request, split(None,1), type lookup, "
        "BearerTokenValidator.validate_token and scope_insufficient. Correspondence: header shapes × token states × scope subsets × requirement specs "
        "against the real core ResourceProtector; RFC 9068 JWT access tokens (45 single mutations, pairs, 11 requirement specs) are additionally decided by an "
        "independent transcription of RFC 9068 §4 run against the real JWTBearerTokenValidator.",
   note="Trusted: Lean kernel; ASCII lower(); theorem hypothesis AltsNonEmpty (each required alternative names a word); in the RFC 9068 half "
        "the signature primitives and jwt.decode's JWS layer are exercised, not modelled (the model takes the JWS verdict as input).",
   technique="Lean 4 proof (bearer decision iff) + differential correspondence + independent RFC 9068 oracle",
   design="§5 C10"),
 "C04": dict(
   text="Covers the base class AND the derived claim sets (OpenID Connect Code / Implicit / Hybrid ID Token classes via Model/IdToken, RFC 9068 access-token claims via Model/JwtAccessToken — theorems in Props/C13 and Props/C10Jwt — with typed pools for nonce, azp, auth_time, amr, typ compared against the real classes and an independent rule set). Lean 4 theorem validate_ok_iff_conforms: for every claim dictionary, option dictionary, now and leeway, JWTClaims.validate (Model/Claims.lean, "
        "mirroring rfc7519/claims.py branch by branch) raises nothing iff the claims satisfy the property statement transcribed as the structure Conforms; "
        "error_names_violated_constraint + violates_not_conforms; corollaries for expired / not-yet-valid / boolean time / wrong iss, sub, aud. "
        "Model tied to the code by a correspondence run (exhaustive single-claim×single-option pools + seeded random dictionaries) and an independent "
        "Python transcription of the statement used as oracle on the real code.",
   note="Trusted: Lean kernel; numbers restricted to k/4 so int/float comparison is exact; validator callables drawn from a named finite family; "
        "named allowances (value options on exp/nbf/iat ignored, falsy expected values, aud only when present) are part of Conforms and listed in DESIGN §3.2. "
        "Derived claim classes (IDToken, JWTAccessTokenClaims) are covered under C13/C10, not here.",
   technique="Lean 4 proof (spec ⇔ model, all inputs) + differential correspondence + independent oracle",
   design="§5 C04"),
 "C08": dict(
   text="Lean 4 theorems over the scope model (Model/Scope.lean): for every grant kind, token generator, supported set, client allowance, "
        "requested and original scope string, issued words ⊆ requested ∩ allowed ∩ supported (∩ original for refresh); unsupported ⇒ invalid_scope; "
        "refresh widening ⇒ invalid_scope; embedded = response. Histories (Model/ScopeHistory.lean, Props/C08Hist.lean): history_never_widens — after ANY sequence of "
        "token and refresh requests under configurations that change between requests every token's scope is within the scope of the token it was refreshed from and of "
        "the first token of its chain (induction, no bound on chain length); refused_changes_nothing; refresh_is_single_use; issue_within_current_config. "
        "Model tied to the code by a correspondence run of the real provider "
        "(7 grants × 3 generators; random refresh histories with per-step outputs and final revocation flags) against the compiled Lean definitions plus a direct subset oracle on the real responses.",
   note="Trusted: Lean kernel; python str.split modelled by Model/Text.splitWs (validated by the correspondence on whitespace variants); "
        "reference integrator client.get_allowed_scope = order-preserving filter; correspondence is differential testing bounded by the generator.",
   technique="Lean 4 proof over hand-written model + differential correspondence with the real provider",
   design="§5 C08"),
}

def main():
    checks = []
    for i in ids:
        if i in CLAIMED:
            c = CLAIMED[i]
            checks.append({
                "property_id": i,
                "quick_cmd": f"./check {i} --tier quick",
                "thorough_cmd": f"./check {i} --tier thorough",
                "evidence_file": f"evidence/{i}.json",
                "replay_cmd_template": f"./check {i} --replay {{path}}",
                "engine": "lean4-model-correspondence",
                "level_claimed": {"category": "proof", "text": c["text"], "design_ref": c["design"]},
                "level_note": c["note"],
                "technique": c["technique"],
            })
    m = {
        "version": 1,
        "setup_cmd": "./setup.sh",
        "hooks": {"guard": "LEPTURE_AUTHLIB_VERIF", "enable": "no hooks are needed: checks import /repo in-process (VERIF_REPO, default /repo) and wrap integrator callbacks from outside",
                  "baseline_off_cmd": "cd /repo && /venv/bin/python -m pytest -ra -q -p no:cacheprovider --timeout=900 --continue-on-collection-errors",
                  "source_commits": [], "add_only": True},
        "engines": [{"name": "lean4-model-correspondence", "path": "check", "serves_properties": sorted(CLAIMED),
                     "kind_free_text": "Lean 4 theorems about hand-written executable models + regenerated data layer; compiled Lean driver diffed against the real code; direct property oracle produces replays"}],
        "checks": checks,
        "not_applicable": [{"property_id": i, "reason": "check not built yet (work in progress; see DESIGN.md §9 build order)"} for i in ids if i not in CLAIMED],
        "notes": "See DESIGN.md. fix: commits in /repo are listed in known_findings.json under 'fixed'.",
    }
    json.dump(m, open(os.path.join(ROOT, "MANIFEST.json"), "w"), indent=1, ensure_ascii=False)
    import subprocess
    subprocess.run(["/opt/veriftools/pyvenv/bin/python", "-c",
                    "import json,jsonschema;jsonschema.validate(json.load(open('%s/MANIFEST.json')),json.load(open('/root/.vp/MANIFEST.schema.json')));print('manifest ok')" % ROOT], check=True)

if __name__ == "__main__":
    main()
