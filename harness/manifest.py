#!/venv/bin/python
"""Regenerates MANIFEST.json from the table below (development helper, not a registered command)."""
import json, os
ROOT = os.path.dirname(os.path.dirname(os.path.abspath(__file__)))
ids = [json.loads(l)["id"] for l in open(os.path.join(ROOT, "properties.jsonl"))]

CLAIMED = {
 "C08": dict(
   text="Lean 4 theorems over the scope model (Model/Scope.lean): for every grant kind, token generator, supported set, client allowance, "
        "requested and original scope string, issued words ⊆ requested ∩ allowed ∩ supported (∩ original for refresh); unsupported ⇒ invalid_scope; "
        "refresh widening ⇒ invalid_scope; embedded = response. Model tied to the code by a correspondence run of the real provider "
        "(7 grants × 3 generators) against the compiled Lean definitions plus a direct subset oracle on the real responses.",
   note="Trusted: Lean kernel; python str.split modelled by Model/Text.splitWs (validated by the correspondence on whitespace variants); "
        "reference integrator client.get_allowed_scope = order-preserving filter; correspondence is differential testing bounded by the generator.",
   technique="Lean 4 proof over hand-written model + differential correspondence with the real provider",
   design="§4 C08"),
}

def main():
    checks = []
    for i in ids:
        if i in CLAIMED:
            c = CLAIMED[i]
            checks.append({
                "property_id": i,
                "quick_cmd": f"./check {i} --tier quick",
                "thorough_cmd": f"./check {i} --tier thorough",
                "evidence_file": f"evidence/{i}.json",
                "replay_cmd_template": f"./check {i} --replay {{path}}",
                "engine": "lean4-model-correspondence",
                "level_claimed": {"category": "proof", "text": c["text"], "design_ref": c["design"]},
                "level_note": c["note"],
                "technique": c["technique"],
            })
    m = {
        "version": 1,
        "setup_cmd": "./setup.sh",
        "hooks": {"guard": "LEPTURE_AUTHLIB_VERIF", "enable": "no hooks are needed: checks import /repo in-process (VERIF_REPO, default /repo) and wrap integrator callbacks from outside",
                  "baseline_off_cmd": "cd /repo && /venv/bin/python -m pytest -ra -q -p no:cacheprovider --timeout=900 --continue-on-collection-errors",
                  "source_commits": [], "add_only": True},
        "engines": [{"name": "lean4-model-correspondence", "path": "check", "serves_properties": sorted(CLAIMED),
                     "kind_free_text": "Lean 4 theorems about hand-written executable models + regenerated data layer; compiled Lean driver diffed against the real code; direct property oracle produces replays"}],
        "checks": checks,
        "not_applicable": [{"property_id": i, "reason": "check not built yet (work in progress; see DESIGN.md §9 build order)"} for i in ids if i not in CLAIMED],
        "notes": "See DESIGN.md. fix: commits in /repo are listed in known_findings.json under 'fixed'.",
    }
    json.dump(m, open(os.path.join(ROOT, "MANIFEST.json"), "w"), indent=1, ensure_ascii=False)
    import subprocess
    subprocess.run(["/opt/veriftools/pyvenv/bin/python", "-c",
                    "import json,jsonschema;jsonschema.validate(json.load(open('%s/MANIFEST.json')),json.load(open('/root/.vp/MANIFEST.schema.json')));print('manifest ok')" % ROOT], check=True)

if __name__ == "__main__":
    main()
