"""Independent reference for RFC 7515 / 7518 / 8037 signatures, written against hashlib / hmac / `cryptography` only
(never imports authlib). Also the shared key material for the JOSE checks (generated once per process)."""
import base64
import hashlib
import hmac
import json

from cryptography.exceptions import InvalidSignature
from cryptography.hazmat.primitives import hashes, serialization as ser
from cryptography.hazmat.primitives.asymmetric import ec, ed25519, ed448, padding, rsa, x25519, x448
from cryptography.hazmat.primitives.asymmetric.utils import decode_dss_signature, encode_dss_signature

HASH = {256: hashes.SHA256, 384: hashes.SHA384, 512: hashes.SHA512}
HL = {256: hashlib.sha256, 384: hashlib.sha384, 512: hashlib.sha512}
EC_ALGS = {"ES256": (ec.SECP256R1, 256, 32, "P-256"), "ES384": (ec.SECP384R1, 384, 48, "P-384"), "ES512": (ec.SECP521R1, 512, 66, "P-521"),
           "ES256K": (ec.SECP256K1, 256, 32, "secp256k1")}
ALL_ALGS = ["none", "HS256", "HS384", "HS512", "RS256", "RS384", "RS512", "ES256", "ES384", "ES512", "ES256K", "PS256", "PS384", "PS512", "EdDSA"]


def b64u(b):
    return base64.urlsafe_b64encode(b).rstrip(b"=")


def b64u_strict_dec(s):
    """RFC 7515 base64url without padding, strict alphabet and canonical trailing bits; None if invalid"""
    if isinstance(s, str):
        s = s.encode()
    if any(c not in b"ABCDEFGHIJKLMNOPQRSTUVWXYZabcdefghijklmnopqrstuvwxyz0123456789-_" for c in s) or len(s) % 4 == 1:
        return None
    out = base64.urlsafe_b64decode(s + b"=" * (-len(s) % 4))
    return out if b64u(out) == s else None


_KEYS = {}


def keys():
    """private keys by name, generated once: rsa1, rsa2, ec-<crv>-1/2, ed25519-1/2, ed448-1"""
    if not _KEYS:
        _KEYS["rsa1"] = rsa.generate_private_key(65537, 2048)
        _KEYS["rsa2"] = rsa.generate_private_key(65537, 2048)
        for name, (crv, _, _, jn) in EC_ALGS.items():
            _KEYS[f"ec-{jn}-1"] = ec.generate_private_key(crv())
            _KEYS[f"ec-{jn}-2"] = ec.generate_private_key(crv())
        _KEYS["ed25519-1"] = ed25519.Ed25519PrivateKey.generate()
        _KEYS["ed25519-2"] = ed25519.Ed25519PrivateKey.generate()
        _KEYS["ed448-1"] = ed448.Ed448PrivateKey.generate()
    return _KEYS


def key_index(name):
    return sorted(keys()).index(name) + 1


def pem_private(k):
    return k.private_bytes(ser.Encoding.PEM, ser.PrivateFormat.PKCS8, ser.NoEncryption())


def pem_public(k):
    return k.public_key().public_bytes(ser.Encoding.PEM, ser.PublicFormat.SubjectPublicKeyInfo)


def key_for_alg(alg, n=1):
    if alg.startswith(("RS", "PS")):
        return f"rsa{n}"
    if alg in EC_ALGS:
        return f"ec-{EC_ALGS[alg][3]}-{n}"
    if alg == "EdDSA":
        return f"ed25519-{n}"
    return None


def sign(alg, key, msg):
    """key: bytes for HS*, a cryptography private key otherwise"""
    if alg == "none":
        return b""
    if alg.startswith("HS"):
        return hmac.new(key, msg, HL[int(alg[2:])]).digest()
    if alg.startswith("RS"):
        return key.sign(msg, padding.PKCS1v15(), HASH[int(alg[2:])]())
    if alg.startswith("PS"):
        h = HASH[int(alg[2:])]
        return key.sign(msg, padding.PSS(mgf=padding.MGF1(h()), salt_length=h.digest_size), h())
    if alg in EC_ALGS:
        _, bits, n, _ = EC_ALGS[alg]
        r, s = decode_dss_signature(key.sign(msg, ec.ECDSA(HASH[bits]())))
        return r.to_bytes(n, "big") + s.to_bytes(n, "big")
    if alg == "EdDSA":
        return key.sign(msg)
    raise ValueError(alg)


def verify(alg, key, msg, sig):
    """RFC 7518 §3 verification; key: bytes for HS*, a cryptography public (or private) key otherwise. `none` never verifies."""
    try:
        if alg not in ALL_ALGS or alg == "none":
            return False
        if alg.startswith("HS"):
            if not isinstance(key, bytes):
                return False
            return hmac.compare_digest(hmac.new(key, msg, HL[int(alg[2:])]).digest(), sig)
        if isinstance(key, bytes):
            return False
        pub = key.public_key() if hasattr(key, "public_key") else key
        if alg.startswith("RS"):
            if not isinstance(pub, rsa.RSAPublicKey): return False
            pub.verify(sig, msg, padding.PKCS1v15(), HASH[int(alg[2:])]()); return True
        if alg.startswith("PS"):
            if not isinstance(pub, rsa.RSAPublicKey): return False
            h = HASH[int(alg[2:])]
            pub.verify(sig, msg, padding.PSS(mgf=padding.MGF1(h()), salt_length=h.digest_size), h()); return True
        if alg in EC_ALGS:
            crv, bits, n, _ = EC_ALGS[alg]
            if not isinstance(pub, ec.EllipticCurvePublicKey) or not isinstance(pub.curve, crv) or len(sig) != 2 * n:
                return False
            der = encode_dss_signature(int.from_bytes(sig[:n], "big"), int.from_bytes(sig[n:], "big"))
            pub.verify(der, msg, ec.ECDSA(HASH[bits]())); return True
        if alg == "EdDSA":
            if not isinstance(pub, (ed25519.Ed25519PublicKey, ed448.Ed448PublicKey)): return False
            pub.verify(sig, msg); return True
    except (InvalidSignature, ValueError):
        return False
    return False


def ref_serialize_compact(header, payload, key):
    h = b64u(json.dumps(header, separators=(",", ":")).encode())
    p = b64u(payload)
    return h + b"." + p + b"." + b64u(sign(header["alg"], key, h + b"." + p))


def ref_verify_compact_strict(token, key):
    """RFC 7515 §5.2, strict: exactly three canonical base64url segments; returns (header, payload) or None"""
    parts = token.split(b".")
    if len(parts) != 3:
        return None
    dec = [b64u_strict_dec(x) for x in parts]
    if any(d is None for d in dec):
        return None
    try:
        header = json.loads(dec[0])
    except ValueError:
        return None
    if not isinstance(header, dict) or not isinstance(header.get("alg"), str):
        return None
    if verify(header["alg"], key, parts[0] + b"." + parts[1], dec[2]):
        return header, dec[1]
    return None
