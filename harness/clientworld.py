"""C14 — the three client integrations driven for real: Flask (test_request_context), Django (RequestFactory) and
Starlette (async, minimal request object), 2 user sessions, a configurable set of registered providers, optional shared
cache, a recording transport in place of the providers' endpoints, deterministic state / verifier / nonce generation."""
import asyncio
import base64
import hashlib
import json
import re
from urllib.parse import urlparse, parse_qsl

import memserver as ms
from memserver import CLOCK

NOW0 = 1_000_000
JWK2 = {"kty": "oct", "kid": "k2", "k": base64.urlsafe_b64encode(b"fedcba9876543210fedcba9876543210").rstrip(b"=").decode()}
JWK = {"kty": "oct", "kid": "k1", "k": base64.urlsafe_b64encode(b"0123456789abcdef0123456789abcdef").rstrip(b"=").decode()}


def s256(v):
    return base64.urlsafe_b64encode(hashlib.sha256(v.encode()).digest()).rstrip(b"=").decode()


class Tokens:
    """deterministic replacement for authlib.common.security.generate_token"""
    def __init__(self):
        self.n = 0

    def __call__(self, length=30, chars=None):
        self.n += 1
        return f"g{self.n}x{length}"


class SyncCache:
    def __init__(self):
        self.d = {}

    def get(self, k):
        return self.d.get(k)

    def set(self, k, v, timeout=None):
        self.d[k] = v

    def delete(self, k):
        self.d.pop(k, None)


class AsyncCache(SyncCache):
    async def get(self, k):
        return self.d.get(k)

    async def set(self, k, v, timeout=None):
        self.d[k] = v

    async def delete(self, k):
        self.d.pop(k, None)


def id_token(name, nonce, client_id, rotated=False, iss_suffix=""):
    from authlib.jose import jwt
    claims = {"iss": f"https://{name}.example" + iss_suffix, "sub": "u1", "aud": client_id, "exp": CLOCK.now + 600, "iat": CLOCK.now}
    if nonce is not None:
        claims["nonce"] = nonce
    return jwt.encode({"alg": "HS256", "kid": "k2" if rotated else "k1"}, claims, JWK2 if rotated else JWK).decode()


class ClientWorld:
    def __init__(self, framework, names, cache_mode, pkce, openid, oauth1=False, rotate=False, discovery=False, ext_cache=False):
        ms.install_clock()
        CLOCK.now = NOW0
        self.framework, self.names, self.cache_mode, self.pkce, self.openid = framework, list(names), cache_mode, pkce, openid
        self.oauth1 = oauth1          # the providers are OAuth 1 services (request token = the flow's state)
        self.ext_cache = ext_cache    # (Flask) a cache extension (Flask-Caching style) is initialised on the app, but NO cache is handed to the OAuth registry
        self.discovery = discovery    # the providers are registered with server_metadata_url only: endpoints come from the discovery document, fetched on first use
        self.rotate = rotate          # the provider signs ID tokens with a key that is not in the client's cached JWKS (key rotation)
        self.issued_secrets = {}      # OAuth 1: request token -> its secret, as the provider issued them
        self.sessions = [{}, {}]
        self.sent = []          # requests that reached the transport
        self.gen = Tokens()
        import authlib.common.security as sec
        import authlib.integrations.base_client.sync_app as sa
        import authlib.integrations.base_client.async_app as aa
        import authlib.oauth2.client as oc
        for m in (sec, sa, aa, oc):
            if hasattr(m, "generate_token"):
                m.generate_token = self.gen
        self.cache = (AsyncCache() if framework == "starlette" else SyncCache()) if cache_mode else None
        self.next_id_nonce = None
        self.next_fail = False
        getattr(self, "_setup_" + framework)()

    # ---- registration ---------------------------------------------------------------------
    def _reg_kwargs(self, name):
        if self.oauth1:
            return dict(client_id="cid-" + name, client_secret="sec-" + name, request_token_url=f"https://{name}.example/request",
                        access_token_url=f"https://{name}.example/access", authorize_url=f"https://{name}.example/authorize",
                        client_kwargs={"signature_method": "PLAINTEXT"})       # PLAINTEXT shows which token secret signed the request
        ck = {"scope": "openid profile" if self.openid else "profile"}
        if self.pkce:
            ck["code_challenge_method"] = "S256"
        if name == self.names[-1]:
            ck["redirect_uri"] = "https://rp/registered-default"       # a provider registered with a default redirect_uri
        kw = dict(client_id="cid-" + name, client_secret="sec-" + name, access_token_url=f"https://{name}.example/token",
                  authorize_url=f"https://{name}.example/authorize", client_kwargs=ck, jwks={"keys": [JWK]}, issuer=f"https://{name}.example",
                  id_token_signing_alg_values_supported=["HS256"])
        if self.rotate:
            kw["jwks_uri"] = f"https://{name}.example/jwks"
        if self.discovery:
            for k in ("access_token_url", "authorize_url", "issuer", "id_token_signing_alg_values_supported"):
                kw.pop(k)
            kw["server_metadata_url"] = f"https://{name}.example/.well-known/openid-configuration"
        return kw

    def _discovery_endpoint(self, url):
        self.sent.append({"url": url, "form": {}, "discovery": True})
        base = url.split("/.well-known/")[0]
        return {"issuer": base, "authorization_endpoint": base + "/authorize", "token_endpoint": base + "/token", "id_token_signing_alg_values_supported": ["HS256"]}

    def _setup_flask(self):
        from flask import Flask
        from authlib.integrations.flask_client import OAuth
        self.app = Flask("c14"); self.app.secret_key = "x"
        if self.ext_cache:
            self.app.extensions["cache"] = {SyncCache(): "backend"}          # as Flask-Caching registers itself: {Cache instance: backend}
        self.oauth = OAuth(self.app, cache=self.cache)
        for n in self.names:
            self.oauth.register(n, **self._reg_kwargs(n))

    def _setup_django(self):
        from django.conf import settings
        if not settings.configured:
            settings.configure(DEBUG=False, SECRET_KEY="x", ALLOWED_HOSTS=["*"])
        from authlib.integrations.django_client import OAuth
        self.oauth = OAuth(cache=self.cache)
        for n in self.names:
            self.oauth.register(n, **self._reg_kwargs(n))

    def _setup_starlette(self):
        import httpx
        from authlib.integrations.starlette_client import OAuth
        self.oauth = OAuth(cache=self.cache)

        def handler(request):
            if self.oauth1:
                status, text = self._oauth1_endpoint(str(request.url), dict(request.headers))
                return httpx.Response(status, text=text)
            if request.url.path == "/jwks":
                return httpx.Response(200, json=self._jwks_endpoint())
            if request.url.path.startswith("/.well-known/"):
                return httpx.Response(200, json=self._discovery_endpoint(str(request.url)))
            body = self._token_endpoint(str(request.url), request.content.decode())
            return httpx.Response(400 if "error" in body else 200, json=body)
        for n in self.names:
            kw = self._reg_kwargs(n)
            kw["client_kwargs"]["transport"] = httpx.MockTransport(handler)
            self.oauth.register(n, **kw)

    # ---- the provider side ----------------------------------------------------------------
    def _token_endpoint(self, url, body):
        form = dict(parse_qsl(body))
        self.sent.append({"url": url, "form": form})
        name = urlparse(url).hostname.split(".")[0]
        if self.next_fail:
            return {"error": "invalid_grant", "error_description": "refused by the provider"}
        tok = {"access_token": "at-" + str(len(self.sent)), "token_type": "Bearer"}
        if self.next_id_nonce is not False:
            tok["id_token"] = id_token(name, self.next_id_nonce, "cid-" + name, rotated=self.rotate, iss_suffix=getattr(self, "next_id_iss", "") or "")
        return tok

    def _oauth1_endpoint(self, url, headers):
        """the OAuth 1 provider: /request issues request tokens, /access records the access-token request"""
        u = urlparse(url)
        auth = {k.lower(): v for k, v in headers.items()}.get("authorization", "")
        if isinstance(auth, bytes):
            auth = auth.decode()
        from urllib.parse import unquote
        params = {k: unquote(v) for k, v in re.findall(r'(oauth_\w+)="([^"]*)"', auth)}
        name = u.hostname.split(".")[0]
        if u.path == "/request":
            n = len(self.issued_secrets) + 1
            self.issued_secrets[f"rq{n}"] = f"rs{n}"
            self.last_callback = params.get("oauth_callback")
            return 200, f"oauth_token=rq{n}&oauth_token_secret=rs{n}&oauth_callback_confirmed=true"
        sig = params.get("oauth_signature", "")
        self.sent.append({"url": url, "form": {"code": params.get("oauth_verifier"), "oauth_token": params.get("oauth_token"),
                                               "code_verifier": sig.split("&", 1)[1] if "&" in sig else None, "redirect_uri": None}})
        if self.next_fail:
            return 401, "oauth_problem=token_rejected"
        return 200, f"oauth_token=acc{len(self.sent)}&oauth_token_secret=as{len(self.sent)}"

    def _jwks_endpoint(self):
        self.jwks_fetches = getattr(self, "jwks_fetches", 0) + 1
        return {"keys": [JWK, JWK2]}

    def _requests_send(self):
        from unittest import mock
        import requests

        def send(session_self, req, **kw):
            body = req.body if isinstance(req.body, str) else (req.body or b"").decode()
            r = requests.Response()
            r.request = req
            if self.oauth1:
                r.status_code, text = self._oauth1_endpoint(req.url, dict(req.headers))
                r._content = text.encode()
                r.headers["Content-Type"] = "application/x-www-form-urlencoded"
                return r
            if urlparse(req.url).path == "/jwks" or urlparse(req.url).path.startswith("/.well-known/"):
                r.status_code = 200
                r._content = json.dumps(self._jwks_endpoint() if urlparse(req.url).path == "/jwks" else self._discovery_endpoint(req.url)).encode()
                r.headers["Content-Type"] = "application/json"
                return r
            payload = self._token_endpoint(req.url, body)
            r.status_code = 400 if "error" in payload else 200
            r._content = json.dumps(payload).encode()
            r.headers["Content-Type"] = "application/json"
            return r
        return mock.patch("requests.sessions.Session.send", send)

    # ---- operations -----------------------------------------------------------------------
    def _client(self, name):
        return self.oauth.create_client(name)

    def begin(self, sess, name, redirect):
        s = self.sessions[sess]
        fw = self.framework
        if fw == "flask":
            import flask
            with self.app.test_request_context("/login"):
                flask.session.update(s)
                with self._requests_send():
                    resp = self._client(name).authorize_redirect(redirect)
                s.clear(); s.update(dict(flask.session))
            loc = resp.headers["Location"]
        elif fw == "django":
            from django.test import RequestFactory
            req = RequestFactory().get("/login"); req.session = s
            with self._requests_send():
                loc = self._client(name).authorize_redirect(req, redirect)["Location"]
        else:
            class Rq: pass
            req = Rq(); req.session = s; req.query_params = {}
            loc = asyncio.run(self._client(name).authorize_redirect(req, redirect)).headers["location"]
        q = dict(parse_qsl(urlparse(loc).query))
        if self.oauth1:
            return {"out": "saved", "state": q.get("oauth_token"), "url_redirect": None, "url_challenge": None, "url_nonce": None, "callback": self.last_callback}
        return {"out": "saved", "state": q.get("state"), "url_redirect": q.get("redirect_uri"), "url_challenge": q.get("code_challenge"), "url_nonce": q.get("nonce")}

    def callback(self, sess, name, state, code="c0de", id_nonce=False, fail=False, id_iss=""):
        """id_nonce: False = the token response carries no ID token; None = ID token without nonce; str = ID token with that nonce"""
        from authlib.integrations.base_client.errors import MismatchingStateError, OAuthError
        s = self.sessions[sess]
        fw = self.framework
        self.next_id_nonce = id_nonce
        self.next_id_iss = id_iss          # appended to the provider's issuer in the ID token ("" = the configured issuer)
        self.next_fail = fail
        before = len(self.sent)
        q = "&".join(f"{k}={v}" for k, v in ((("oauth_verifier", code), ("oauth_token", state)) if self.oauth1 else (("code", code), ("state", state))) if v is not None)
        try:
            if fw == "flask":
                import flask
                with self.app.test_request_context("/cb?" + q):
                    flask.session.update(s)
                    try:
                        with self._requests_send():
                            tok = self._client(name).authorize_access_token()
                    finally:
                        s.clear(); s.update(dict(flask.session))
            elif fw == "django":
                from django.test import RequestFactory
                req = RequestFactory().get("/cb?" + q); req.session = s
                with self._requests_send():
                    tok = self._client(name).authorize_access_token(req)
            else:
                class Rq: pass
                req = Rq(); req.session = s; req.query_params = dict(parse_qsl(q))
                tok = asyncio.run(self._client(name).authorize_access_token(req))
        except MismatchingStateError:
            return {"out": "mismatch", "requests": len(self.sent) - before}
        except OAuthError as e:
            if len(self.sent) > before:      # the code was sent; the provider refused the exchange
                form = self.sent[-1]["form"]
                return {"out": "proceeds", "sent": {"redirect": form.get("redirect_uri"), "verifier": form.get("code_verifier"), "code": form.get("code"), "token": form.get("oauth_token")},
                        "endpoint": self.sent[-1]["url"], "id_token": "exchange-failed:" + str(e.error), "requests": len(self.sent) - before}
            if self.oauth1 and "Missing" in (e.description or ""):      # the OAuth 1 apps report an unknown request token this way
                return {"out": "mismatch", "requests": len(self.sent) - before}
            return {"out": "oauth_error", "error": e.error, "requests": len(self.sent) - before}
        except Exception as e:
            from authlib.jose.errors import JoseError
            if isinstance(e, JoseError) and len(self.sent) > before:
                form = self.sent[-1]["form"]
                return {"out": "proceeds", "sent": {"redirect": form.get("redirect_uri"), "verifier": form.get("code_verifier"), "code": form.get("code"), "token": form.get("oauth_token")},
                        "endpoint": self.sent[-1]["url"], "id_token": "rejected:" + type(e).__name__, "requests": len(self.sent) - before}
            return {"raised": type(e).__name__ + ": " + str(e)[:100]}
        form = self.sent[-1]["form"]
        return {"out": "proceeds", "sent": {"redirect": form.get("redirect_uri"), "verifier": form.get("code_verifier"), "code": form.get("code"), "token": form.get("oauth_token")},
                "endpoint": self.sent[-1]["url"], "id_token": "validated" if "userinfo" in tok else "not-validated", "requests": len(self.sent) - before}

    def advance(self, dt):
        CLOCK.now += dt
        return {"out": "ticked"}

    def snapshot(self):
        def entries(d):
            out = []
            for k, v in d.items():
                if not k.startswith("_state_"):
                    continue
                if isinstance(v, str):
                    v = json.loads(v)
                data = v.get("data") or {}
                if self.oauth1:
                    out.append([k, None, (data.get("request_token") or {}).get("oauth_token_secret"), None])
                    continue
                out.append([k, data.get("redirect_uri"), data.get("code_verifier"), data.get("nonce")])
            return sorted(out)
        return {"sessions": [entries(s) for s in self.sessions], "cache": entries(self.cache.d) if self.cache else []}

    def peek(self, sess, name, state):
        """the data stored for a state (to feed the model's begin op)"""
        key = f"_state_{name}_{state}"
        v = self.cache.d.get(key) if self.cache else self.sessions[sess].get(key)
        if isinstance(v, str):
            v = json.loads(v)
        d = (v or {}).get("data") or {}
        if self.oauth1:
            return {"redirect": None, "verifier": (d.get("request_token") or {}).get("oauth_token_secret"), "nonce": None}
        return {"redirect": d.get("redirect_uri"), "verifier": d.get("code_verifier"), "nonce": d.get("nonce")}
