"""C14 — the three client integrations driven for real: Flask (test_request_context), Django (RequestFactory) and
Starlette (async, minimal request object), 2 user sessions, a configurable set of registered providers, optional shared
cache, a recording transport in place of the providers' endpoints, deterministic state / verifier / nonce generation."""
import asyncio
import base64
import hashlib
import json
import re
from urllib.parse import urlparse, parse_qsl

import memserver as ms
from memserver import CLOCK

NOW0 = 1_000_000
JWK = {"kty": "oct", "kid": "k1", "k": base64.urlsafe_b64encode(b"0123456789abcdef0123456789abcdef").rstrip(b"=").decode()}


def s256(v):
    return base64.urlsafe_b64encode(hashlib.sha256(v.encode()).digest()).rstrip(b"=").decode()


class Tokens:
    """deterministic replacement for authlib.common.security.generate_token"""
    def __init__(self):
        self.n = 0

    def __call__(self, length=30, chars=None):
        self.n += 1
        return f"g{self.n}x{length}"


class SyncCache:
    def __init__(self):
        self.d = {}

    def get(self, k):
        return self.d.get(k)

    def set(self, k, v, timeout=None):
        self.d[k] = v

    def delete(self, k):
        self.d.pop(k, None)


class AsyncCache(SyncCache):
    async def get(self, k):
        return self.d.get(k)

    async def set(self, k, v, timeout=None):
        self.d[k] = v

    async def delete(self, k):
        self.d.pop(k, None)


def id_token(name, nonce, client_id):
    from authlib.jose import jwt
    claims = {"iss": f"https://{name}.example", "sub": "u1", "aud": client_id, "exp": CLOCK.now + 600, "iat": CLOCK.now}
    if nonce is not None:
        claims["nonce"] = nonce
    return jwt.encode({"alg": "HS256", "kid": "k1"}, claims, JWK).decode()


class ClientWorld:
    def __init__(self, framework, names, cache_mode, pkce, openid):
        ms.install_clock()
        CLOCK.now = NOW0
        self.framework, self.names, self.cache_mode, self.pkce, self.openid = framework, list(names), cache_mode, pkce, openid
        self.sessions = [{}, {}]
        self.sent = []          # requests that reached the transport
        self.gen = Tokens()
        import authlib.common.security as sec
        import authlib.integrations.base_client.sync_app as sa
        import authlib.integrations.base_client.async_app as aa
        import authlib.oauth2.client as oc
        for m in (sec, sa, aa, oc):
            if hasattr(m, "generate_token"):
                m.generate_token = self.gen
        self.cache = (AsyncCache() if framework == "starlette" else SyncCache()) if cache_mode else None
        self.next_id_nonce = None
        self.next_fail = False
        getattr(self, "_setup_" + framework)()

    # ---- registration ---------------------------------------------------------------------
    def _reg_kwargs(self, name):
        ck = {"scope": "openid profile" if self.openid else "profile"}
        if self.pkce:
            ck["code_challenge_method"] = "S256"
        if name == self.names[-1]:
            ck["redirect_uri"] = "https://rp/registered-default"       # a provider registered with a default redirect_uri
        return dict(client_id="cid-" + name, client_secret="sec-" + name, access_token_url=f"https://{name}.example/token",
                    authorize_url=f"https://{name}.example/authorize", client_kwargs=ck, jwks={"keys": [JWK]}, issuer=f"https://{name}.example",
                    id_token_signing_alg_values_supported=["HS256"])

    def _setup_flask(self):
        from flask import Flask
        from authlib.integrations.flask_client import OAuth
        self.app = Flask("c14"); self.app.secret_key = "x"
        self.oauth = OAuth(self.app, cache=self.cache)
        for n in self.names:
            self.oauth.register(n, **self._reg_kwargs(n))

    def _setup_django(self):
        from django.conf import settings
        if not settings.configured:
            settings.configure(DEBUG=False, SECRET_KEY="x", ALLOWED_HOSTS=["*"])
        from authlib.integrations.django_client import OAuth
        self.oauth = OAuth(cache=self.cache)
        for n in self.names:
            self.oauth.register(n, **self._reg_kwargs(n))

    def _setup_starlette(self):
        import httpx
        from authlib.integrations.starlette_client import OAuth
        self.oauth = OAuth(cache=self.cache)

        def handler(request):
            body = self._token_endpoint(str(request.url), request.content.decode())
            return httpx.Response(400 if "error" in body else 200, json=body)
        for n in self.names:
            kw = self._reg_kwargs(n)
            kw["client_kwargs"]["transport"] = httpx.MockTransport(handler)
            self.oauth.register(n, **kw)

    # ---- the provider side ----------------------------------------------------------------
    def _token_endpoint(self, url, body):
        form = dict(parse_qsl(body))
        self.sent.append({"url": url, "form": form})
        name = urlparse(url).hostname.split(".")[0]
        if self.next_fail:
            return {"error": "invalid_grant", "error_description": "refused by the provider"}
        tok = {"access_token": "at-" + str(len(self.sent)), "token_type": "Bearer"}
        if self.next_id_nonce is not False:
            tok["id_token"] = id_token(name, self.next_id_nonce, "cid-" + name)
        return tok

    def _requests_send(self):
        from unittest import mock
        import requests

        def send(session_self, req, **kw):
            body = req.body if isinstance(req.body, str) else (req.body or b"").decode()
            r = requests.Response()
            payload = self._token_endpoint(req.url, body)
            r.status_code = 400 if "error" in payload else 200
            r._content = json.dumps(payload).encode()
            r.headers["Content-Type"] = "application/json"
            r.request = req
            return r
        return mock.patch("requests.sessions.Session.send", send)

    # ---- operations -----------------------------------------------------------------------
    def _client(self, name):
        return self.oauth.create_client(name)

    def begin(self, sess, name, redirect):
        s = self.sessions[sess]
        fw = self.framework
        if fw == "flask":
            import flask
            with self.app.test_request_context("/login"):
                flask.session.update(s)
                resp = self._client(name).authorize_redirect(redirect)
                s.clear(); s.update(dict(flask.session))
            loc = resp.headers["Location"]
        elif fw == "django":
            from django.test import RequestFactory
            req = RequestFactory().get("/login"); req.session = s
            loc = self._client(name).authorize_redirect(req, redirect)["Location"]
        else:
            class Rq: pass
            req = Rq(); req.session = s; req.query_params = {}
            loc = asyncio.run(self._client(name).authorize_redirect(req, redirect)).headers["location"]
        q = dict(parse_qsl(urlparse(loc).query))
        return {"out": "saved", "state": q.get("state"), "url_redirect": q.get("redirect_uri"), "url_challenge": q.get("code_challenge"), "url_nonce": q.get("nonce")}

    def callback(self, sess, name, state, code="c0de", id_nonce=False, fail=False):
        """id_nonce: False = the token response carries no ID token; None = ID token without nonce; str = ID token with that nonce"""
        from authlib.integrations.base_client.errors import MismatchingStateError, OAuthError
        s = self.sessions[sess]
        fw = self.framework
        self.next_id_nonce = id_nonce
        self.next_fail = fail
        before = len(self.sent)
        q = "&".join(f"{k}={v}" for k, v in (("code", code), ("state", state)) if v is not None)
        try:
            if fw == "flask":
                import flask
                with self.app.test_request_context("/cb?" + q):
                    flask.session.update(s)
                    try:
                        with self._requests_send():
                            tok = self._client(name).authorize_access_token()
                    finally:
                        s.clear(); s.update(dict(flask.session))
            elif fw == "django":
                from django.test import RequestFactory
                req = RequestFactory().get("/cb?" + q); req.session = s
                with self._requests_send():
                    tok = self._client(name).authorize_access_token(req)
            else:
                class Rq: pass
                req = Rq(); req.session = s; req.query_params = dict(parse_qsl(q))
                tok = asyncio.run(self._client(name).authorize_access_token(req))
        except MismatchingStateError:
            return {"out": "mismatch", "requests": len(self.sent) - before}
        except OAuthError as e:
            if len(self.sent) > before:      # the code was sent; the provider refused the exchange
                form = self.sent[-1]["form"]
                return {"out": "proceeds", "sent": {"redirect": form.get("redirect_uri"), "verifier": form.get("code_verifier"), "code": form.get("code")},
                        "endpoint": self.sent[-1]["url"], "id_token": "exchange-failed:" + str(e.error), "requests": len(self.sent) - before}
            return {"out": "oauth_error", "error": e.error, "requests": len(self.sent) - before}
        except Exception as e:
            from authlib.jose.errors import JoseError
            if isinstance(e, JoseError) and len(self.sent) > before:
                form = self.sent[-1]["form"]
                return {"out": "proceeds", "sent": {"redirect": form.get("redirect_uri"), "verifier": form.get("code_verifier"), "code": form.get("code")},
                        "endpoint": self.sent[-1]["url"], "id_token": "rejected:" + type(e).__name__, "requests": len(self.sent) - before}
            return {"raised": type(e).__name__ + ": " + str(e)[:100]}
        form = self.sent[-1]["form"]
        return {"out": "proceeds", "sent": {"redirect": form.get("redirect_uri"), "verifier": form.get("code_verifier"), "code": form.get("code")},
                "endpoint": self.sent[-1]["url"], "id_token": "validated" if "userinfo" in tok else "not-validated", "requests": len(self.sent) - before}

    def advance(self, dt):
        CLOCK.now += dt
        return {"out": "ticked"}

    def snapshot(self):
        def entries(d):
            out = []
            for k, v in d.items():
                if not k.startswith("_state_"):
                    continue
                if isinstance(v, str):
                    v = json.loads(v)
                data = v.get("data") or {}
                out.append([k, data.get("redirect_uri"), data.get("code_verifier"), data.get("nonce")])
            return sorted(out)
        return {"sessions": [entries(s) for s in self.sessions], "cache": entries(self.cache.d) if self.cache else []}

    def peek(self, sess, name, state):
        """the data stored for a state (to feed the model's begin op)"""
        key = f"_state_{name}_{state}"
        v = self.cache.d.get(key) if self.cache else self.sessions[sess].get(key)
        if isinstance(v, str):
            v = json.loads(v)
        d = (v or {}).get("data") or {}
        return {"redirect": d.get("redirect_uri"), "verifier": d.get("code_verifier"), "nonce": d.get("nonce")}
