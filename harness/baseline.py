#!/venv/bin/python
"""Run the repository's pinned test suite (guard off) and compare with /root/.vp/BASELINE.json stable_pass."""
import json, subprocess, sys, os, tempfile
import xml.etree.ElementTree as ET
repo = os.environ.get("VERIF_REPO", "/repo")
base = json.load(open("/root/.vp/BASELINE.json"))
with tempfile.TemporaryDirectory() as d:
    x = os.path.join(d, "j.xml")
    env = dict(os.environ); env.pop("LEPTURE_AUTHLIB_VERIF", None)
    subprocess.run(["/venv/bin/python", "-m", "pytest", "-ra", "-q", "-p", "no:cacheprovider", "--timeout=900",
                    "--continue-on-collection-errors", f"--junitxml={x}"], cwd=repo, env=env,
                   stdout=subprocess.DEVNULL, stderr=subprocess.DEVNULL)
    passed = set()
    for tc in ET.parse(x).getroot().iter("testcase"):
        if not any(ch.tag in ("failure", "error", "skipped") for ch in tc):
            passed.add(f"{tc.get('classname')}::{tc.get('name')}")
missing = [t for t in base["stable_pass"] if t not in passed]
print(f"stable_pass={len(base['stable_pass'])} passed_now={len(passed)} missing={len(missing)}")
for m in missing[:20]:
    print("  MISSING", m)
sys.exit(1 if missing else 0)
