#!/venv/bin/python
"""development helper: categorise disagreements and oracle violations of a property.  usage: diag.py C01 [tier] [seed]"""
import sys, json, random, os
HERE=os.path.dirname(os.path.abspath(__file__))
sys.path.insert(0,HERE); sys.path.insert(0,os.environ.get("VERIF_REPO","/repo"))
import importlib, run
from collections import Counter
pid=sys.argv[1]; tier=sys.argv[2] if len(sys.argv)>2 else "quick"; seed=sys.argv[3] if len(sys.argv)>3 else "0"
mod=importlib.import_module("props."+pid.lower())
cs=list(mod.cases(random.Random(f"{pid}-{seed}"),tier))
outs=[mod.impl(c) for c in cs]
lines=[mod.model_line(c) if hasattr(mod,"model_line") else c for c in cs]
idx=[i for i,l in enumerate(lines) if l is not None]
mo=dict(zip(idx,run.run_driver([dict(lines[i],prop=pid) for i in idx])))
if hasattr(mod,'model_canon'): mo={i:mod.model_canon(o) for i,o in mo.items()}
cnt=Counter(); ex={}
for i,(c,o) in enumerate(zip(cs,outs)):
    if i in mo:
        e=mod.project(c,o) if hasattr(mod,"project") else o
        if run.canon(e)!=run.canon(mo[i]) and "unsupported" not in mo[i]:
            k=(mod.classify(c,o) if hasattr(mod,"classify") else "", run.canon(e)[:60], run.canon(mo[i])[:60])
            cnt[k]+=1; ex.setdefault(k,(c,e,mo[i]))
print("== disagreements")
for k,v in cnt.most_common(25):
    print(v,k); print("    case:",run.canon(ex[k][0])[:400]); print("    impl:",run.canon(ex[k][1])[:300]); print("    model:",run.canon(ex[k][2])[:300])
cnt=Counter(); ex={}
for c,o in zip(cs,outs):
    for w,s in (mod.oracle(c,o) or []):
        k=json.dumps(s,sort_keys=True); cnt[k]+=1; ex.setdefault(k,(c,w,o))
print("== oracle")
for k,v in cnt.most_common(25):
    print(v,k); print("    case:",run.canon(ex[k][0])[:400]); print("    what:",ex[k][1][:300]); print("    out:",run.canon(ex[k][2])[:200])
