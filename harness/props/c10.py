"""C10 — protected-resource access decision (bearer tokens, core ResourceProtector; RFC 9068 JWT access tokens)."""
import itertools
import json

import memserver as ms
from memserver import Token, CLOCK
from authlib.oauth2.rfc6749.resource_protector import ResourceProtector
from authlib.oauth2 import OAuth2Error
from authlib.oauth2.rfc9068 import JWTBearerTokenValidator
from authlib.jose import JsonWebSignature, OctKey, KeySet, JsonWebKey
from authlib.common.encoding import json_b64encode, urlsafe_b64encode

RULE = ("bearer: header shape × token state × token scope × required-scope spec over a 4-word universe (exhaustive in the thorough tier); "
        "jwt: RFC 9068 tokens with each claim/header singly or pairwise mutated, right/wrong/unknown-kid key; "
        "non-trivial = distinct case with an Authorization header")
ASSUMPTIONS = ["required scope alternatives each name at least one scope word (theorem hypothesis AltsNonEmpty; the degenerate alternative '' is "
               "exercised by the correspondence only)", "str.lower is modelled for ASCII; headers are ASCII",
               "RFC 9068: the model (Model/JwtAccessToken, Props/C10Jwt) takes the JWS verdict as input; signature primitives are exercised, not modelled"]

U = ["a", "b", "c", "d"]
HEADERS = [None, "", "Bearer", "Bearer ", " Bearer {t}", "Bearer {t}", "bearer {t}", "BEARER {t}", "BeArEr  {t}", "Bearer\t{t}",
           "Bearer {t} ", "Bearer {t} x", "Bearer refresh-of-tok", "Basic {t}", "MAC {t}", "Token {t}", "{t}", "Bearer{t}", "bearer\n{t}"]
# "expired-frac": the lifetime ended a quarter second ago (whole-second issued_at, fractional clock); "live-frac": it ends in a quarter second; "live-boundary": it ends now
STATES = ["live", "expired", "revoked", "unknown", "live-noexp", "expired-frac", "live-frac", "live-boundary"]
FRAC = {"expired-frac": 3600.25, "live-frac": 3599.75, "live-boundary": 3600}
TOKSCOPES = [None, "", "a", "a b", "b a", "a b c d", "c", " a  b ", "a,b", "c,a d"]
REQS = [None, [], "a", "a b", ["a"], ["a b"], ["a", "c"], ["a b", "c"], ["d", "c d"], ["z"], ["b a"], [""], ["", "z"], "  a  "]


def bearer_cases(rng, tier):
    out = []
    for h in HEADERS:
        for st in STATES:
            for ts in TOKSCOPES:
                for rq in REQS:
                    out.append({"kind": "bearer", "header": h, "state": st, "tscope": ts, "required": rq})
    # the Flask integration's own normalisation of the requirement (a plain string is ONE alternative requiring every word)
    for ts in TOKSCOPES:
        for rq in REQS:
            for st in ("live", "revoked"):
                out.append({"kind": "bearer", "header": "Bearer {t}", "state": st, "tscope": ts, "required": rq, "via": "flask"})
    # the view decorators of the Flask and Django integrations: the view body runs (and sees the token) only when the request is served
    for via in ("flask-view", "django-view"):
        for h in HEADERS:
            if h is not None and ("\n" in h or "\r" in h):
                continue              # no HTTP server hands a header value with a line break to the framework
            for st in STATES:
                for ts, rq in (("a b", None), ("a b", "a"), ("a", "a b"), ("a b", ["a", "c"]), ("", ["z"]), ("b", "  a  ")):
                    out.append({"kind": "bearer", "header": h, "state": st, "tscope": ts, "required": rq, "via": via})
        # no Authorization header at all, the token string in the URL query: "served iff the request carries an Authorization header …"
        for st in STATES:
            out.append({"kind": "bearer", "header": None, "state": st, "tscope": "a b", "required": "a", "via": via, "query_token": True})
    return out


JWT_MUTS = ["none", "bad-sig", "wrong-key", "unknown-kid", "no-kid", "alg-none", "iss-wrong", "iss-missing", "aud-wrong", "aud-superstring", "aud-superstring2", "aud-list-ok",
            "aud-missing", "exp-past", "exp-missing", "exp-bool", "typ-bad", "typ-suffix", "typ-suffix2", "typ-prefix", "typ-space", "typ-app", "typ-upper", "typ-int", "typ-absent", "scope-int",
            "scope-list", "sub-missing", "client_id-missing", "iat-missing", "iat-future", "jti-missing", "auth_time-str", "amr-str",
            "groups-int", "groups-false", "scope-zero", "roles-emptyobj", "entitlements-false", "auth_time-true", "not-jwt", "two-parts", "payload-not-json", "payload-list", "garbage-b64"]
JWT_REQS = [dict(), dict(scopes=["a"]), dict(scopes=["z"]), dict(scopes=["a b"]), dict(groups=["g1"]), dict(groups=["gz"]),
            dict(roles=["r1"]), dict(roles=["rz"]), dict(entitlements=["e1"]), dict(entitlements=["ez"]), dict(scopes=["a"], groups=["g1"], roles=["r1"])]


def jwt_cases(rng, tier):
    out = []
    for m in JWT_MUTS:
        for rq in (JWT_REQS if tier == "thorough" or m == "none" else JWT_REQS[:4]):
            out.append({"kind": "jwt", "muts": [m], "req": rq})
    pairs = list(itertools.combinations(JWT_MUTS[1:], 2))
    if tier != "thorough":
        pairs = rng.sample(pairs, 120)
    for a, b in pairs:
        out.append({"kind": "jwt", "muts": [a, b], "req": {}})
    return out


J7523_MUTS = ["none", "iss-wrong", "iss-substring", "iss-prefix", "iss-missing", "client_id-missing", "grant_type-missing", "exp-missing", "exp-past", "nbf-future", "iat-future",
              "wrong-key", "alg-none", "alg-hs256-with-pem", "alg-es256", "not-jwt", "scope-missing"]


def jwt7523_cases():
    """RFC 7523 JWT access tokens (JWTBearerTokenGenerator → JWTBearerTokenValidator)"""
    out = []
    for m in J7523_MUTS:
        for req in (None, ["a"], ["z"], ["a b"]):
            for issuer_conf in (True, False):
                out.append({"kind": "jwt7523", "mut": m, "required": req, "issuer_configured": issuer_conf})
    return out


def impl_jwt7523(c):
    import joseref as JR
    from authlib.jose import jwt as _jwt
    from authlib.oauth2.rfc7523 import JWTBearerTokenGenerator, JWTBearerTokenValidator
    ms.install_clock(); CLOCK.now = 1_000_000
    k1, k2 = JR.keys()["rsa1"], JR.keys()["rsa2"]
    gen = JWTBearerTokenGenerator(JR.pem_private(k1), issuer=ISS, alg="RS256")

    class Cl:
        def get_client_id(self): return "c1"
        def get_allowed_scope(self, scope): return scope
    tok = gen(grant_type="client_credentials", client=Cl(), user=None, scope="a b", expires_in=600)
    claims = dict(_jwt.decode(tok["access_token"], JR.pem_public(k1)))
    m = c["mut"]
    key, header = JR.pem_private(k1), {"alg": "RS256"}
    raw = None
    if m == "iss-wrong": claims["iss"] = "https://evil.example"
    elif m == "iss-substring": claims["iss"] = ISS[8:]
    elif m == "iss-prefix": claims["iss"] = ISS[:-1]
    elif m == "iss-missing": claims.pop("iss", None)
    elif m == "client_id-missing": claims.pop("client_id", None)
    elif m == "grant_type-missing": claims.pop("grant_type", None)
    elif m == "exp-missing": claims.pop("exp", None)
    elif m == "exp-past": claims["exp"] = CLOCK.now - 10
    elif m == "nbf-future": claims["nbf"] = CLOCK.now + 1000
    elif m == "iat-future": claims["iat"] = CLOCK.now + 1000
    elif m == "wrong-key": key = JR.pem_private(k2)
    elif m == "alg-hs256-with-pem": key, header = JR.pem_public(k1), {"alg": "HS256"}
    elif m == "alg-es256": key, header = JR.pem_private(JR.keys()["ec-P-256-1"]), {"alg": "ES256"}
    elif m == "scope-missing": claims.pop("scope", None)
    elif m == "not-jwt": raw = "garbage"
    if m == "alg-none":
        import base64, json as _json
        b = lambda x: base64.urlsafe_b64encode(_json.dumps(x).encode()).rstrip(b"=").decode()
        raw = b({"alg": "none"}) + "." + b(claims) + "."
    if raw is None:
        try:
            raw = _jwt.encode(header, claims, key)
            raw = raw.decode() if isinstance(raw, bytes) else raw
        except Exception:
            import hmac as _h, hashlib as _hl, base64, json as _json      # the library refuses to sign HS256 with a PEM: sign independently
            b = lambda x: base64.urlsafe_b64encode(x).rstrip(b"=").decode()
            si = b(_json.dumps(header).encode()) + "." + b(_json.dumps(claims).encode())
            raw = si + "." + b(_h.new(key, si.encode(), _hl.sha256).digest())
    rp = ResourceProtector()
    rp.register_token_validator(JWTBearerTokenValidator(JR.pem_public(k1), issuer=ISS if c["issuer_configured"] else None))
    out, tok_obj = run_protector(rp, c["required"], {"Authorization": "Bearer " + raw})
    if tok_obj is not None:
        out["current"] = "exposed"
    return out


def expected_jwt7523(c):
    m = c["mut"]
    bad = {"iss-wrong", "iss-substring", "iss-prefix", "iss-missing"} if c["issuer_configured"] else set()
    bad |= {"client_id-missing", "grant_type-missing", "exp-missing", "exp-past", "nbf-future", "iat-future", "wrong-key", "alg-none", "alg-hs256-with-pem", "alg-es256", "not-jwt"}
    if m in bad:
        return "invalid_token"
    have = set() if m == "scope-missing" else {"a", "b"}
    req = c["required"]
    if req and not any(set(alt.split()) <= have for alt in req):
        return "insufficient_scope"
    return "served"


def remote_cases():
    """a resource server on rfc7662.IntrospectTokenValidator (one validator instance serving several requests): use, then revoke / expire, then use"""
    return [{"kind": "remote", "then": then, "required": req} for then in ("revoke", "expire", "nothing") for req in (None, ["a"], ["a b"], ["z"])]


def impl_remote(c):
    import provider_hist as H
    w = H.World()
    A1 = ["c1", "client_secret_basic"]
    w.step({"op": "issue_password", "auth": A1, "user": 1, "scope": "a b"})
    use = {"op": "access", "token": "at1", "required": c["required"], "via": "introspection"}
    first = w.step(dict(use))
    w.step({"revoke": {"op": "revoke", "auth": A1, "token": "at1", "hint": None}, "expire": {"op": "advance", "dt": 900000}, "nothing": {"op": "advance", "dt": 1}}[c["then"]])
    second = w.step(dict(use))
    return {"first": {"status": first.get("status"), "error": first.get("error")}, "second": {"status": second.get("status"), "error": second.get("error")}}


def rotation_cases():
    """one long-lived RFC 9068 validator while the authorization server's key set changes (rotation): every request is judged by the keys published NOW"""
    return [{"kind": "rotation", "how": how, "warm": warm, "required": req} for how in ("replace", "add", "remove-all") for warm in (True, False) for req in (None, ["a"])]


def impl_rotation(c):
    ms.install_clock()
    current = {"keys": [K1]}

    class RV(JWTBearerTokenValidator):
        def get_jwks(self):
            return KeySet(list(current["keys"]))
    rp = ResourceProtector()
    rp.register_token_validator(RV(issuer=ISS, resource_server=RS))
    now = CLOCK()
    def tok(key, kid):
        from authlib.jose import jwt as _jwt
        payload = {"iss": ISS, "aud": RS, "exp": now + 600, "iat": now - 5, "sub": "u1", "client_id": "c1", "jti": "j-" + kid, "scope": "a b"}
        return _jwt.encode({"alg": "HS256", "typ": "at+jwt", "kid": kid}, payload, key).decode()
    def ask(t):
        o, _ = run_protector(rp, c["required"], {"Authorization": "Bearer " + t})
        return o.get("decision", "raised:" + str(o.get("raised")))
    t_old, t_new = tok(K1, "k1"), tok(K2, "k2")
    out = {"before": [ask(t_old), ask(t_new)] if c["warm"] else None}
    current["keys"] = {"replace": [K2], "add": [K1, K2], "remove-all": []}[c["how"]]
    out["after"] = [ask(t_old), ask(t_new)]
    return out


def cases(rng, tier):
    return _cases(rng, tier) + jwt7523_cases() + remote_cases() + rotation_cases()


def _cases(rng, tier):
    b = bearer_cases(rng, tier)
    if tier != "thorough":
        fl = [x for x in b if x.get("via")]
        b = rng.sample([x for x in b if not x.get("via")], 2800) + fl
    return b + jwt_cases(rng, tier)


class R:
    def __init__(self, headers):
        self.headers = headers


def norm_req(rq):
    # authlib.integrations.flask_oauth2.ResourceProtector.acquire_token: a str becomes [str]
    return [rq] if isinstance(rq, str) else rq


def run_protector(rp, scopes, headers, **kw):
    try:
        tok = rp.validate_request(scopes, R(headers), **kw)
        return {"decision": "served", "status": 200}, tok
    except OAuth2Error as e:
        st = e.status_code
        hdrs = dict(e.get_headers())
        return {"decision": e.error, "status": st, "www": "WWW-Authenticate" in hdrs}, None
    except Exception as e:
        return {"raised": type(e).__name__, "msg": str(e)[:80]}, None


def run_view(via, store, required, headers, query=""):
    """a view guarded by the integration's decorator; `ran` records whether the view body executed and which token it saw"""
    import json as _json
    ran = {}
    try:
        if via == "flask-view":
            import flask
            from authlib.integrations.flask_oauth2 import ResourceProtector as FlaskRP, current_token
            frp = FlaskRP()
            frp.register_token_validator(ms.MemBearerValidator(store))
            app = flask.Flask("c10-view")
            app.config["PROPAGATE_EXCEPTIONS"] = True

            @app.route("/r")
            @frp(required)
            def view():
                ran["token"] = current_token.access_token if current_token else None
                return "ok"
            resp = app.test_client().get("/r" + query, headers=headers)
            status, text, www = resp.status_code, resp.get_data(as_text=True), "WWW-Authenticate" in resp.headers
        else:
            from django.conf import settings
            if not settings.configured:
                settings.configure(DEBUG=False, SECRET_KEY="x", ALLOWED_HOSTS=["*"])
            import django
            django.setup()
            from django.http import HttpResponse
            from django.test import RequestFactory
            from authlib.integrations.django_oauth2 import ResourceProtector as DjangoRP
            drp = DjangoRP()
            drp.register_token_validator(ms.MemBearerValidator(store))

            @drp(required)
            def view(request):
                ran["token"] = request.oauth_token.access_token if request.oauth_token else None
                return HttpResponse("ok")
            resp = view(RequestFactory().get("/r" + query, **{"HTTP_" + k.upper().replace("-", "_"): v for k, v in headers.items()}))
            status, text, www = resp.status_code, resp.content.decode(), "WWW-Authenticate" in resp
    except Exception as e:
        return {"raised": type(e).__name__, "msg": str(e)[:80]}
    if "token" in ran:
        out = {"decision": "served", "status": status}
        if ran["token"] is not None:
            out["current"] = ran["token"]
        return out
    try:
        err = _json.loads(text).get("error")
    except Exception:
        err = None
    return {"decision": err, "status": status, "www": www}


def impl(c):
    ms.install_clock()
    if c["kind"] == "jwt7523":
        return impl_jwt7523(c)
    if c["kind"] == "remote":
        return impl_remote(c)
    if c["kind"] == "rotation":
        return impl_rotation(c)
    if c["kind"] == "bearer":
        CLOCK.now = 1_000_000
        try:
            return impl_bearer(c)
        finally:
            CLOCK.now = 1_000_000
    return impl_jwt(c)


def impl_bearer(c):
    if True:
        store = ms.Store()
        rp = ResourceProtector()
        rp.register_token_validator(ms.MemBearerValidator(store))
        st = c["state"]
        if st != "unknown":
            # (the row also holds the grant's refresh token: that string is not an access token)
            t = Token(_store=store, access_token="tok", refresh_token="refresh-of-tok", client_id="c1", user_id=1, scope=c["tscope"],
                      expires_in=0 if st == "live-noexp" else 3600, issued_at=1_000_000 if st in FRAC else CLOCK() - (7200 if st == "expired" else 10), token_type="Bearer")
            if st in FRAC:
                CLOCK.now = 1_000_000 + FRAC[st]
            if st == "revoked":
                t.access_token_revoked_at = CLOCK()
            store.tokens.append(t)
        headers = {} if c["header"] is None else {"Authorization": c["header"].replace("{t}", "tok")}
        if c.get("via") == "flask":
            import flask
            from authlib.integrations.flask_oauth2 import ResourceProtector as FlaskRP
            frp = FlaskRP()
            frp.register_token_validator(ms.MemBearerValidator(store))
            app = flask.Flask("c10")
            with app.test_request_context("/r", headers=headers):
                try:
                    tok = frp.acquire_token(c["required"])
                    return {"decision": "served", "status": 200, "current": tok.access_token}
                except OAuth2Error as e:
                    return {"decision": e.error, "status": e.status_code, "www": "WWW-Authenticate" in dict(e.get_headers())}
                except Exception as e:
                    return {"raised": type(e).__name__, "msg": str(e)[:80]}
        if c.get("via") in ("flask-view", "django-view"):
            return run_view(c["via"], store, c["required"], headers, "?access_token=tok" if c.get("query_token") else "")
        out, tok = run_protector(rp, norm_req(c["required"]), headers)
        if tok is not None:
            out["current"] = tok.access_token
        return out


ISS, RS = "https://as.example", "https://rs.example"
K1 = OctKey.import_key(b"1" * 32, {"kid": "k1"})
K2 = OctKey.import_key(b"2" * 32, {"kid": "k2"})
KX = OctKey.import_key(b"x" * 32, {"kid": "k1"})       # same kid, other key material


def craft(muts, want_parts=False):
    now = CLOCK()
    header = {"alg": "HS256", "typ": "at+jwt", "kid": "k1"}
    payload = {"iss": ISS, "aud": RS, "exp": now + 600, "iat": now - 5, "sub": "u1", "client_id": "c1", "jti": "j1",
               "scope": "a b", "groups": ["g1"], "roles": "r1 r2", "entitlements": ["e1", "e2"]}
    key = K1
    raw = None
    for m in muts:
        if m == "wrong-key": key = KX
        elif m == "unknown-kid": header["kid"] = "nope"
        elif m == "no-kid": header.pop("kid")
        elif m == "iss-wrong": payload["iss"] = ISS + "/"
        elif m == "iss-missing": payload.pop("iss", None)
        elif m == "aud-wrong": payload["aud"] = "https://other"
        elif m == "aud-superstring": payload["aud"] = RS + "/v2"
        elif m == "aud-superstring2": payload["aud"] = "https://evil.example/?next=" + RS
        elif m == "aud-list-ok": payload["aud"] = ["https://other", RS]
        elif m == "aud-missing": payload.pop("aud", None)
        elif m == "exp-past": payload["exp"] = now - 1
        elif m == "exp-missing": payload.pop("exp", None)
        elif m == "exp-bool": payload["exp"] = True
        elif m == "typ-bad": header["typ"] = "JWT"
        elif m == "typ-suffix": header["typ"] = "rat+jwt"
        elif m == "typ-suffix2": header["typ"] = "text/at+jwt"
        elif m == "typ-prefix": header["typ"] = "at+jwtx"
        elif m == "typ-space": header["typ"] = " at+jwt"
        elif m == "typ-app": header["typ"] = "application/at+jwt"
        elif m == "typ-upper": header["typ"] = "AT+JWT"
        elif m == "typ-int": header["typ"] = 5
        elif m == "typ-absent": header.pop("typ", None)
        elif m == "scope-int": payload["scope"] = 5
        elif m == "scope-list": payload["scope"] = ["a", "b"]
        elif m == "sub-missing": payload.pop("sub", None)
        elif m == "client_id-missing": payload.pop("client_id", None)
        elif m == "iat-missing": payload.pop("iat", None)
        elif m == "iat-future": payload["iat"] = now + 1000
        elif m == "jti-missing": payload.pop("jti", None)
        elif m == "auth_time-str": payload["auth_time"] = "yesterday"
        elif m == "amr-str": payload["amr"] = "pwd"
        elif m == "groups-int": payload["groups"] = 7
        elif m == "groups-false": payload["groups"] = False
        elif m == "scope-zero": payload["scope"] = 0
        elif m == "roles-emptyobj": payload["roles"] = {}
        elif m == "entitlements-false": payload["entitlements"] = False
        elif m == "auth_time-true": payload["auth_time"] = True
    jws = JsonWebSignature()
    if "alg-none" in muts:
        header["alg"] = "none"
        tok = (json_b64encode(header) + b"." + json_b64encode(payload) + b".").decode()
    else:
        tok = jws.serialize_compact(header, json.dumps(payload).encode(), key).decode()
    for m in muts:
        if m in ("bad-sig", "payload-not-json", "garbage-b64") and tok.count(".") != 2:
            continue
        if m == "bad-sig":
            h, p, s = tok.split(".")
            s = (("A" if s[0] != "A" else "B") + s[1:]) if s else "AAAA"
            tok = ".".join([h, p, s])
        elif m == "not-jwt": tok = "opaque-token"
        elif m == "two-parts": tok = ".".join(tok.split(".")[:2])
        elif m == "payload-not-json":
            h, p, s = tok.split(".")
            p2 = urlsafe_b64encode(b"not json").decode()
            tok = jws.serialize_compact(header, b"not json", key).decode() if "alg-none" not in muts else ".".join([h, p2, ""])
        elif m == "payload-list":
            tok = jws.serialize_compact(header, b"[1,2]", key).decode() if "alg-none" not in muts else tok
        elif m == "garbage-b64":
            h, p, s = tok.split(".")
            tok = ".".join(["!!!" + h, p, s])
    if want_parts:
        return tok, header, payload, key
    return tok


BAD401 = {"bad-sig", "wrong-key", "unknown-kid", "no-kid", "alg-none", "iss-wrong", "iss-missing", "aud-wrong", "aud-superstring", "aud-superstring2", "aud-missing", "exp-past",
          "exp-missing", "exp-bool", "typ-bad", "typ-int", "scope-int", "sub-missing", "client_id-missing", "iat-missing", "iat-future",
          "jti-missing", "auth_time-str", "amr-str", "groups-int", "groups-false", "scope-zero", "roles-emptyobj", "entitlements-false", "not-jwt", "two-parts", "payload-not-json", "payload-list", "garbage-b64"}


class V(JWTBearerTokenValidator):
    def get_jwks(self):
        return KeySet([K1, K2])


def impl_jwt(c):
    rp = ResourceProtector()
    rp.register_token_validator(V(issuer=ISS, resource_server=RS))
    tok = craft(c["muts"])
    kw = dict(c["req"])
    scopes = kw.pop("scopes", None)
    out, t = run_protector(rp, scopes, {"Authorization": "Bearer " + tok}, **kw)
    if t is not None:
        out["current"] = "jwt"
    return out


def jwt_model_line(c):
    """the RFC 9068 model's input: did the JWS layer accept (decided independently: HS256, kid selects K1/K2, HMAC recomputed), header typ, claims, now"""
    import base64, hashlib, hmac as _hmac, json as _json
    from props.c04 import enc
    tok = craft(c["muts"])
    def b64d(sg):
        return base64.urlsafe_b64decode(sg + "=" * (-len(sg) % 4))
    decoded, typ, claims = False, None, []
    parts = tok.split(".")
    try:
        if len(parts) == 3 and all(ch in "ABCDEFGHIJKLMNOPQRSTUVWXYZabcdefghijklmnopqrstuvwxyz0123456789-_" for ch in "".join(parts)):
            h = _json.loads(b64d(parts[0]))
            p = _json.loads(b64d(parts[1]))
            raw = {"k1": b"1" * 32, "k2": b"2" * 32}.get(h.get("kid")) if isinstance(h, dict) else None
            if isinstance(h, dict) and isinstance(p, dict) and h.get("alg") == "HS256" and raw is not None:
                sig = _hmac.new(raw, (parts[0] + "." + parts[1]).encode(), hashlib.sha256).digest()
                if _hmac.compare_digest(sig, b64d(parts[2])):
                    decoded, typ = True, h.get("typ")
                    claims = [[k, enc(v)] for k, v in p.items()]
                    typ = enc(typ)
    except (ValueError, TypeError, AssertionError):
        return None if decoded else {"jwt": True, "decoded": False, "issuer": ISS, "rs": RS, "now": 4 * int(CLOCK()), "req": c["req"]}
    return {"jwt": True, "decoded": decoded, "typ": typ, "claims": claims, "issuer": ISS, "rs": RS, "now": 4 * int(CLOCK()), "req": c["req"]}


def model_line(c):
    if c["kind"] in ("jwt7523", "remote", "rotation"):
        return None
    if c["kind"] != "bearer":
        ms.install_clock()
        try:
            return jwt_model_line(c)
        except (TypeError, AssertionError):
            return None          # a claim value outside the model's value universe (objects, non-quarter floats)
    st = c["state"]
    toks = []
    if st != "unknown":
        toks.append(["tok", {"expired": st in ("expired", "expired-frac"), "revoked": st == "revoked", "scope": c["tscope"]}])
    h = c["header"]
    return {"types": ["bearer"], "tokens": toks, "auth": None if h is None else h.replace("{t}", "tok"), "required": norm_req(c["required"])}


def project(c, out):
    if "raised" in out:
        return out
    return {"decision": out["decision"], "status": out["status"]}


def W(s):
    return set(s.split()) if s else set()


def expected_bearer(c):
    """the property statement, independently"""
    h = c["header"]
    if not h:
        return "missing_authorization"
    h = h.replace("{t}", "tok")
    parts = h.split(None, 1)
    if len(parts) != 2 or parts[0].lower() != "bearer":
        return "unsupported_token_type"
    if parts[1] != "tok" or c["state"] in ("unknown", "expired", "expired-frac", "revoked"):
        return "invalid_token"
    rq = norm_req(c["required"])
    if not rq:
        return "served"
    if any(not W(a) for a in rq):
        return None          # degenerate empty alternative: outside the statement (AltsNonEmpty)
    if any(W(a) <= W(c["tscope"]) for a in rq):
        return "served"
    return "insufficient_scope"


STATUS = {"served": 200, "insufficient_scope": 403, "missing_authorization": 401, "unsupported_token_type": 401, "invalid_token": 401}


def expected_jwt(c):
    """RFC 9068 §4 conditions evaluated on the final crafted header / payload (independent of the library)"""
    muts = set(c["muts"])
    tok, header, payload, key = craft(c["muts"], want_parts=True)
    now = CLOCK()
    def num(x):
        return isinstance(x, (int, float)) and not isinstance(x, bool)
    def listy(x):
        return x is None or isinstance(x, (str, list))
    ok = not (muts & {"bad-sig", "not-jwt", "two-parts", "payload-not-json", "payload-list", "garbage-b64", "alg-none"})
    ok = ok and key is K1 and header.get("kid") == "k1"
    typ = header.get("typ")
    ok = ok and (not typ or (isinstance(typ, str) and typ.lower() in ("at+jwt", "application/at+jwt")))
    aud = payload.get("aud")
    ok = ok and payload.get("iss") == ISS and bool(aud) and (RS in aud if isinstance(aud, list) else aud == RS)
    ok = ok and num(payload.get("exp")) and payload["exp"] >= now
    ok = ok and num(payload.get("iat")) and payload["iat"] <= now
    ok = ok and all(payload.get(k) for k in ("sub", "client_id", "jti"))
    at = payload.get("auth_time")
    ok = ok and (not at or num(at) or at is True)      # a JSON true is an int to isinstance: accepted by the library, harmless (observation)
    ok = ok and (not payload.get("amr") or isinstance(payload["amr"], list))
    ok = ok and all(listy(payload.get(k)) for k in ("scope", "groups", "roles", "entitlements"))
    if not ok:
        return "invalid_token"
    rq = c["req"]
    def words(v):
        return set(v) if isinstance(v, list) else W(v)
    if rq.get("scopes") and not any(W(a) <= words(payload.get("scope")) for a in rq["scopes"]):
        return "insufficient_scope"
    for k in ("groups", "roles", "entitlements"):
        if rq.get(k) and not any(W(a) <= words(payload.get(k)) for a in rq[k]):
            return "invalid_token"
    return "served"


def oracle(c, out):
    if c["kind"] == "rotation":
        want_after = {"replace": ["invalid_token", "served"], "add": ["served", "served"], "remove-all": ["invalid_token", "invalid_token"]}[c["how"]]
        v = []
        if out["before"] is not None and out["before"] != ["served", "invalid_token"]:
            v.append((f"RFC 9068 validator with key set [k1]: tokens signed by k1 / k2 answered {out['before']}", {"kind": "wrong-decision", "token": "rotation", "want": "before"}))
        if out["after"] != want_after:
            v.append((f"one long-lived RFC 9068 validator{' that had already validated a token' if c['warm'] else ''}: after the key set changed ({c['how']}) the tokens signed by the old / the new key "
                      f"are answered {out['after']}, the keys published now require {want_after}", {"kind": "wrong-decision", "token": "rotation", "want": c["how"]}))
        return v
    if c["kind"] == "remote":
        req = c["required"]
        ok_scope = not req or any(set(alt.split()) <= {"a", "b"} for alt in req)
        want1 = 200 if ok_scope else 403
        want2 = want1 if c["then"] == "nothing" else 401
        v = []
        if out["first"]["status"] != want1:
            v.append((f"resource server on IntrospectTokenValidator: first request answered {out['first']}, the statement requires status {want1}", {"kind": "wrong-decision", "token": "remote", "want": str(want1)}))
        if out["second"]["status"] != want2:
            v.append((f"resource server on IntrospectTokenValidator: after '{c['then']}' the same token is answered {out['second']}, the statement requires status {want2}",
                      {"kind": "wrong-decision", "token": "remote", "got": "served" if out["second"]["status"] == 200 else str(out["second"]["status"]), "want": str(want2)}))
        return v
    kind = c["kind"]
    if "raised" in out:
        return [(f"{out['raised']} escaped the resource protector: {out.get('msg')}", {"kind": "crash", "token": kind, "exc": out["raised"],
                                                                                 "mut": (c.get("muts") or [c.get("mut", "")])[0]})]
    exp = expected_bearer(c) if kind == "bearer" else expected_jwt7523(c) if kind == "jwt7523" else expected_jwt(c)
    v = []
    if exp is None:
        return v
    if out["decision"] != exp:
        v.append((f"decision {out['decision']} but the statement requires {exp}", {"kind": "wrong-decision", "token": kind, "got": out["decision"], "want": exp}))
    elif out["status"] != STATUS[exp]:
        v.append((f"status {out['status']} for {exp}", {"kind": "wrong-status", "token": kind, "want": exp}))
    if exp != "served" and "current" in out:
        v.append(("a token that fails the conditions was exposed as the current token", {"kind": "exposed", "token": kind}))
    return v


def classify(c, out):
    if c["kind"] == "rotation":
        return f"rotation/{c['how']}/{'warm' if c['warm'] else 'cold'}"
    if c["kind"] == "remote":
        return f"remote/{c['then']}/{out['first']['status']}-{out['second']['status']}"
    return c["kind"] + "/" + out.get("decision", "raised")


def nontrivial(c, out):
    if c["kind"] == "bearer":
        return c if c["header"] else None
    return c


def search(breaks, rng, known, match_known):
    for c in cases(rng, "thorough"):
        o = impl(c)
        for what, sig in oracle(c, o):
            if match_known(known, sig) is None:
                return {"what": what, "sig": sig, "case": c, "impl": o}
    return None
