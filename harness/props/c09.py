"""C09 — token lifecycle: refresh, revocation, introspection and expiry are consistent (histories)."""
import re

import provider_hist as H

RULE = ("one case = one history of issue / refresh / revoke / introspect / access / advance-clock requests against the real provider (3 clients; tokens referenced "
        "by access or refresh string; hints none, access_token, refresh_token, bogus), generated as a walk over the credentials really handed out plus stale, foreign "
        "and unknown ones; every step output and the final store are compared with the Lean state machine; non-trivial = distinct history")
ASSUMPTIONS = ["reference integrator = the repo's sqla_oauth2 functions (create_query_token_func, create_revocation_endpoint, create_bearer_token_validator) over an in-memory session",
               "introspection permission = same client (the stricter tested variant)"]
model_canon = H.model_canon


def cases(rng, tier):
    out = []
    n, ln = (150, 16) if tier == "quick" else (3000, 35)
    for i in range(n):
        h = H.gen_history(rng, ln, "token", supported=(["a", "b", "c"] if i % 4 == 0 else None), strict_hint=(i % 3 == 1))
        out.append({"cfg": h["cfg"], "ops": h["ops"]})
    # directed: revoke with every hint by owner / foreign client, then use the token in every way
    A1, A2 = ["c1", "client_secret_basic"], ["c2", "client_secret_post"]
    for ref in ("at1", "rt2"):
        for hint in (None, "access_token", "refresh_token", "bogus", ""):
            for who in (A1, A2, None):
                ops = [{"op": "issue_password", "auth": A1, "user": 1, "scope": "a b"},
                       {"op": "revoke", "auth": who, "token": ref, "hint": hint},
                       {"op": "access", "token": "at1", "required": None},
                       {"op": "introspect", "auth": A1, "token": "at1", "hint": None},
                       {"op": "introspect", "auth": A1, "token": "rt2", "hint": "refresh_token"},
                       {"op": "refresh", "auth": A1, "token": "rt2", "scope": None},
                       {"op": "advance", "dt": 900000},
                       {"op": "access", "token": "at1", "required": None},
                       {"op": "introspect", "auth": A1, "token": "at1", "hint": None}]
                out.append({"cfg": dict(H.World().cfg), "ops": ops})
                out.append({"cfg": dict(H.World(strict_hint=True).cfg), "ops": ops})
                if who is not None:
                    out.append({"cfg": dict(H.World(jwt_first=True).cfg), "ops": ops})      # RFC 9068 endpoints registered in front of the ordinary ones
    # a resource server that asks the introspection endpoint (rfc7662.IntrospectTokenValidator): use, then revoke / expire / refresh, then use again
    for end in ("revoke", "expire", "refresh", "nothing"):
        for via in ("introspection", None):
            use = {"op": "access", "token": "at1", "required": ["a"], "via": via}
            mid = {"revoke": {"op": "revoke", "auth": A1, "token": "at1", "hint": None}, "expire": {"op": "advance", "dt": 900000},
                   "refresh": {"op": "refresh", "auth": A1, "token": "rt2", "scope": None}, "nothing": {"op": "advance", "dt": 1}}[end]
            out.append({"cfg": dict(H.World().cfg), "ops": [{"op": "issue_password", "auth": A1, "user": 1, "scope": "a b"}, use, dict(use), mid, dict(use), dict(use, required=None)]})
    out += jwt9068_cases() + django_rev_cases() + flask_optional_cases()
    for scope in (None, "a", "b a", "a z", "c"):
        ops = [{"op": "issue_password", "auth": A1, "user": 2, "scope": "a b"}, {"op": "refresh", "auth": A1, "token": "rt2", "scope": scope},
               {"op": "refresh", "auth": A1, "token": "rt2", "scope": None}, {"op": "access", "token": "at1", "required": ["a"]},
               {"op": "refresh", "auth": A2, "token": "rt4", "scope": None}, {"op": "access", "token": "at3", "required": ["a"]},
               {"op": "introspect", "auth": A1, "token": "at1", "hint": "access_token"}]
        out.append({"cfg": dict(H.World().cfg), "ops": ops})
    return out


def django_rev_cases():
    """the Django integration's own RevocationEndpoint (django_oauth2/endpoints.py) over a token model: which row a revocation request marks"""
    out = []
    for ref in ("access", "refresh", "unknown", "other-clients-access"):
        for hint in (None, "access_token", "refresh_token", "bogus", ""):
            out.append({"op": "django_revocation", "ref": ref, "hint": hint})
    # … and a requester that names the owner by client_id only (no secret): the endpoint's shipped method list is HTTP Basic, so nobody is authenticated
    for ref in ("access", "refresh"):
        out.append({"op": "django_revocation", "ref": ref, "hint": None, "cred": "bare-client-id"})
    return out


def impl_django_revocation(c):
    import memserver as ms
    from memserver import Req
    ms.install_clock(); ms.CLOCK.now = 1_000_000
    store = ms.Store()
    srv = ms.django_server(store)
    from authlib.integrations.django_oauth2 import RevocationEndpoint
    rows = []

    class Row:
        def __init__(self, at, rt, client_id):
            self.access_token, self.refresh_token, self.client_id, self.revoked, self.saved = at, rt, client_id, False, 0
        def check_client(self, client):
            return self.client_id == client.get_client_id()
        def save(self):
            self.saved += 1

    class DoesNotExist(Exception):
        pass

    class Objects:
        @staticmethod
        def get(**kw):
            for r in rows:
                if all(getattr(r, k) == v for k, v in kw.items()):
                    return r
            raise DoesNotExist()
    TM = type("TokenModel", (), {"objects": Objects, "DoesNotExist": DoesNotExist})
    srv.token_model = TM
    rows += [Row("AT1", "RT1", "c1"), Row("AT2", "RT2", "c2")]
    store.clients["c1"] = ms.Client("c1", "s1", ["https://c1/cb"], "a", ms.ALL_GRANT_TYPES, ms.ALL_RESPONSE_TYPES)
    store.clients["c2"] = ms.Client("c2", "s2", ["https://c2/cb"], "a", ms.ALL_GRANT_TYPES, ms.ALL_RESPONSE_TYPES)
    srv.register_endpoint(RevocationEndpoint)
    tok = {"access": "AT1", "refresh": "RT1", "unknown": "nope", "other-clients-access": "AT2"}[c["ref"]]
    form = {"token": tok}
    if c["hint"] is not None:
        form["token_type_hint"] = c["hint"]
    hdr = ms.basic("c1", "s1")
    if c.get("cred") == "bare-client-id":
        hdr, form = {}, dict(form, client_id="c1")
    r = ms.fw_call(srv, Req("POST", "https://as.example/revoke", form, hdr), "create_endpoint_response", "revocation")
    return {"status": r.status, "error": r.body.get("error") if isinstance(r.body, dict) else None, "revoked": [x.access_token for x in rows if x.revoked]}


def flask_optional_cases():
    """a Flask route guarded with require_oauth(..., optional=True): a request WITHOUT credentials passes anonymously; one that presents a revoked, expired or
    unknown token is still refused"""
    return [{"op": "flask_optional", "state": st, "required": rq} for st in ("none", "live", "revoked", "expired", "unknown", "refresh-string") for rq in (None, "a")]


def impl_flask_optional(c):
    import flask
    import memserver as ms
    from memserver import Token, CLOCK
    from authlib.integrations.flask_oauth2 import ResourceProtector as FlaskRP, current_token
    ms.install_clock(); CLOCK.now = 1_000_000
    store = ms.Store()
    t = Token(_store=store, access_token="tok", refresh_token="rtok", client_id="c1", user_id=1, scope="a b", expires_in=3600,
              issued_at=CLOCK() - (7200 if c["state"] == "expired" else 10), token_type="Bearer")
    if c["state"] == "revoked":
        t.access_token_revoked_at = CLOCK()
    store.tokens.append(t)
    frp = FlaskRP()
    frp.register_token_validator(ms.MemBearerValidator(store))
    app = flask.Flask("c09-optional")
    app.config["PROPAGATE_EXCEPTIONS"] = True
    ran = {}

    @app.route("/r")
    @frp(c["required"], optional=True)
    def view():
        ran["token"] = current_token.access_token if current_token else None
        return "ok"
    hdr = {} if c["state"] == "none" else {"Authorization": "Bearer " + {"unknown": "nope", "refresh-string": "rtok"}.get(c["state"], "tok")}
    resp = app.test_client().get("/r", headers=hdr)
    return {"status": resp.status_code, "view_ran": "token" in ran, "current": ran.get("token")}


def jwt9068_cases():
    """RFC 9068 JWT access tokens: what the JWT introspection endpoint reports and what the JWT resource validator does, around the expiry instant"""
    return [{"op": "jwt9068", "off": off, "who": who} for off in (-100000, -1, 0, 1, 30, 59, 61, 100000) for who in ("owner", "other")] + \
           [{"op": "jwt9068", "off": -1000, "who": "owner", "revoke_first": hint} for hint in ("none", "access_token")]      # (with the hint refresh_token the JWT endpoint steps aside and the ordinary one answers 200 for a string it does not know: RFC 7009 §2.2)


def impl_jwt9068(c):
    import memserver as ms
    from memserver import CLOCK, Client, Req
    from authlib.jose import OctKey, KeySet
    from authlib.oauth2 import ResourceProtector
    from authlib.oauth2.rfc6749.errors import OAuth2Error
    from authlib.oauth2.rfc9068 import JWTBearerTokenGenerator, JWTIntrospectionEndpoint, JWTBearerTokenValidator
    ms.install_clock(); CLOCK.now = 1_000_000
    store, srv, rp = ms.build(oidc=False)
    key = OctKey.import_key(b"k" * 32, {"kid": "k1"})

    class G(JWTBearerTokenGenerator):
        def get_jwks(self):
            return key

    class I(JWTIntrospectionEndpoint):
        CLIENT_AUTH_METHODS = ["client_secret_basic"]
        def get_jwks(self):
            return KeySet([key])
        def get_username(self, user_id):
            return None
        def check_permission(self, token, client, request):
            return token["client_id"] == client.get_client_id()

    class V(JWTBearerTokenValidator):
        def get_jwks(self):
            return KeySet([key])
    srv.register_token_generator("default", G(issuer="https://as.example", alg="HS256"))
    srv._endpoints["introspection"] = []
    srv.register_endpoint(I(issuer="https://as.example"))
    if c.get("revoke_first"):
        # the JWT revocation endpoint in front of the ordinary one, as the RFC 9068 module documents
        from authlib.oauth2.rfc9068 import JWTRevocationEndpoint

        class JR(JWTRevocationEndpoint):
            CLIENT_AUTH_METHODS = ["client_secret_basic"]
            def get_jwks(self):
                return KeySet([key])
        srv._endpoints["revocation"].insert(0, JR(issuer="https://as.example", server=srv))
    store.clients["c1"] = Client("c1", "s1", ["https://c1/cb"], "a b", ms.ALL_GRANT_TYPES, ms.ALL_RESPONSE_TYPES)
    store.clients["c2"] = Client("c2", "s2", ["https://c2/cb"], "a b", ms.ALL_GRANT_TYPES, ms.ALL_RESPONSE_TYPES)
    r = srv.create_token_response(Req("POST", ms.TOKEN_URL, {"grant_type": "client_credentials", "scope": "a"}, ms.basic("c1", "s1")))
    if r.status != 200:
        return {"issue_failed": r.body}
    at, exp_in = r.body["access_token"], r.body["expires_in"]
    revoke = None
    if c.get("revoke_first"):
        f = {"token": at}
        if c["revoke_first"] != "none":
            f["token_type_hint"] = c["revoke_first"]
        rr = srv.create_endpoint_response("revocation", Req("POST", "https://as.example/revoke", f, ms.basic("c1", "s1")))
        revoke = {"status": rr.status, "error": rr.body.get("error") if isinstance(rr.body, dict) else None}
    CLOCK.now += exp_in + c["off"]           # the instant, relative to the token's expiry
    who = ms.basic("c1", "s1") if c["who"] == "owner" else ms.basic("c2", "s2")
    try:
        ri = srv.create_endpoint_response("introspection", Req("POST", "https://as.example/introspect", {"token": at}, who))
        intro = {"status": ri.status, "active": ri.body.get("active") if isinstance(ri.body, dict) else None}
    except Exception as e:
        intro = {"raised": type(e).__name__}
    prot = ResourceProtector(); prot.register_token_validator(V(issuer="https://as.example", resource_server="c1"))

    class R:
        headers = {"Authorization": "Bearer " + at}
    try:
        prot.validate_request(["a"], R)
        served = True
    except OAuth2Error as e:
        served = e.error
    except Exception as e:
        served = "raised:" + type(e).__name__
    return {"expires_in": exp_in, "introspection": intro, "served": served, "revoke": revoke}


def impl(c):
    if c.get("op") == "jwt9068":
        return impl_jwt9068(c)
    if c.get("op") == "django_revocation":
        return impl_django_revocation(c)
    if c.get("op") == "flask_optional":
        return impl_flask_optional(c)
    return H.replay_all(c)


def model_line(c):
    if c.get("op") in ("jwt9068", "django_revocation", "flask_optional"):
        return None
    return {"cfg": c["cfg"], "ops": c["ops"]}


def oracle_core(c, out):
    v = []
    def bad(what, **sig):
        v.append((what, sig))
    now = c["cfg"]["now"]
    toks = {}          # access number -> record as the statement sees it
    by_rt = {}
    def find(ref):
        m = re.fullmatch(r"(at|rt)(\d+)", ref or "")
        if not m:
            return None
        n = int(m.group(2))
        return toks.get(n) if m.group(1) == "at" else by_rt.get(n)
    for op, o in zip(c["ops"], out["outs"]):
        if "raised" in o:
            bad(f"{op['op']} raised {o['raised']}", kind="crash", op=op["op"], exc=o["raised"].split(":")[0]); break
        k = op["op"]
        auth = op.get("auth")
        if k == "advance":
            now += op["dt"]; continue
        if k in ("issue_password", "issue_cc", "refresh") and o.get("access") is not None:
            rec = {"access": o["access"], "refresh": o.get("refresh"), "client": auth[0] if auth else None, "issued": now,
                   "expires_in": 3600 if k == "refresh" else 864000, "revoked": False, "refresh_revoked": False, "scope": o.get("scope")}
            if k == "refresh":
                old = find(op.get("token"))
                why = None
                if not auth: why = "an unauthenticated client"
                elif old is None or not re.fullmatch(r"rt\d+", op.get("token") or ""): why = "an unknown refresh token"
                elif old["refresh_revoked"]: why = "a revoked refresh token"
                elif old["client"] != auth[0]: why = "a refresh token issued to another client"
                if why:
                    bad(f"refresh succeeded with {why}", kind="refresh-wrongly", why=why)
                elif old is not None:
                    old["revoked"] = old["refresh_revoked"] = True        # handed to the integrator for revocation
                    if op.get("scope") and not set(op["scope"].split()) <= set((old["scope"] or "").split()):
                        bad("refresh widened the scope", kind="refresh-scope")
            toks[rec["access"]] = rec
            if rec["refresh"] is not None:
                by_rt[rec["refresh"]] = rec
            continue
        t = find(op.get("token"))
        if c["cfg"].get("strict_hint") and k in ("revoke", "introspect") and op.get("hint") in ("access_token", "refresh_token"):
            kind = "access_token" if (op.get("token") or "").startswith("at") else "refresh_token"
            if kind != op["hint"]:
                t = None       # an integrator that honours the hint strictly does not find it: unknown token for this request
        if k == "revoke":
            if o["status"] == 200 and t is not None and auth and t["client"] == auth[0]:
                t["revoked"] = True
                if op.get("hint") != "access_token":
                    t["refresh_revoked"] = True
            elif t is not None and auth and t["client"] != auth[0]:
                if o["status"] == 200:
                    bad("a revocation request made by a different client was not refused", kind="foreign-revoke-accepted")
            elif t is None and auth and auth[1] != "none" and op.get("token") is not None and op.get("hint") in (None, "", "access_token", "refresh_token") and o["status"] != 200:
                bad(f"revoking an unknown token answered {o['status']}", kind="unknown-revoke-not-200")
        elif k == "access":
            live = t is not None and re.fullmatch(r"at\d+", op["token"] or "") and not t["revoked"] and now <= t["issued"] + t["expires_in"]
            if o["status"] == 200 and not live:
                bad("resource served with an unknown, expired or revoked token", kind="access-served", state="revoked" if t and t["revoked"] else "expired-or-unknown")
            if o["status"] != 200 and live and not op.get("required"):
                bad(f"live token refused: {o.get('error')}", kind="access-refused")
        elif k == "introspect":
            if o.get("active") is True:
                live = t is not None and not t["revoked"] and now <= t["issued"] + t["expires_in"]
                if not live:
                    bad("introspection reports an unknown, expired or revoked token as active", kind="introspect-active", state="revoked" if t and t["revoked"] else "expired-or-unknown")
                elif not auth or t["client"] != auth[0]:
                    bad("introspection by a different client answered active", kind="foreign-introspect")
            elif o.get("active") is False and t is not None and auth and t["client"] == auth[0] and auth[1] != "none":
                if not t["revoked"] and now <= t["issued"] + t["expires_in"] and op.get("hint") in (None, "", "access_token", "refresh_token"):
                    bad("introspection by the owning client reports a live token as inactive", kind="introspect-inactive")
    # the credential a refresh replaced must be revoked in the store at the end
    final = {t[0]: t for t in out["store"]["tokens"]}
    for n, rec in toks.items():
        if rec["revoked"] and n in final and not (final[n][5] or final[n][6]):
            bad("a credential that was revoked / replaced is still unrevoked in the store", kind="not-revoked-in-store")
        if not rec["revoked"] and n in final and (final[n][5] or final[n][6]):
            bad("a token nobody was entitled to revoke is revoked in the store (foreign or failed request had an effect)", kind="revoked-without-cause")
    return v


def project(c, out):
    return out


_hist_oracle = H.oracle_all(oracle_core)


def oracle(c, out):
    if c.get("op") == "flask_optional":
        want = {"none": (True, None), "live": (True, "tok")}.get(c["state"], (False, None))
        if (out["view_ran"], out["current"]) != want or (not want[0] and out["status"] != 401):
            return [(f"Flask route with require_oauth({c['required']!r}, optional=True), request presenting a {c['state']} token: status {out['status']}, view body ran = {out['view_ran']} "
                     f"with current_token {out['current']!r}; expected view ran = {want[0]}", {"kind": "dead-token-served" if out["view_ran"] else "live-token-refused", "fw": "flask-optional"})]
        return []
    if c.get("op") == "django_revocation":
        supported_hint = c["hint"] in (None, "", "access_token", "refresh_token")
        want = ["AT1"] if c["ref"] in ("access", "refresh") and supported_hint else []
        v = []
        if c.get("cred") == "bare-client-id":
            if out["revoked"] or out["error"] != "invalid_client":
                v.append((f"Django revocation endpoint (shipped CLIENT_AUTH_METHODS): a request naming the owner by client_id alone, without its secret, was answered {out['status']} {out['error']} "
                          f"and marked {out['revoked']} revoked", {"kind": "foreign-revoke-accepted", "fw": "django", "ref": "bare-client-id"}))
            return v
        if out["revoked"] != want:
            v.append((f"Django revocation endpoint: the owner revokes its {c['ref']} token string with token_type_hint={c['hint']!r}: rows marked revoked {out['revoked']}, expected {want} "
                      f"(answer {out['status']} {out['error']})", {"kind": "revoke-not-effective" if want else "foreign-revoke-accepted", "fw": "django", "ref": c["ref"]}))
        if supported_hint and c["ref"] != "other-clients-access" and out["status"] != 200:
            v.append((f"Django revocation endpoint answered {out['status']} {out['error']} for a {c['ref']} token", {"kind": "unknown-revoke-not-200", "fw": "django"}))
        return v
    if c.get("op") != "jwt9068":
        return _hist_oracle(c, out)
    v = []
    if "issue_failed" in out:
        return [(f"JWT access token could not be issued: {out['issue_failed']}", {"kind": "jwt9068-issue"})]
    live = c["off"] <= 0
    intro = out["introspection"]
    if out.get("revoke") and out["revoke"]["status"] == 200 and (intro.get("active") or out["served"] is True):
        return [(f"the owner's revocation request for its JWT access token (hint {c['revoke_first']}) was answered 200, yet the token is still "
                 f"{'active at introspection' if intro.get('active') else ''}{' and ' if intro.get('active') and out['served'] is True else ''}{'served by the resource validator' if out['served'] is True else ''}",
                 {"kind": "revoke-not-effective", "token": "jwt9068"})]
    if "raised" in intro:
        return [(f"JWT introspection raised {intro['raised']}", {"kind": "crash", "op": "jwt9068", "exc": intro["raised"]})]
    want_active = live and c["who"] == "owner"
    if bool(intro.get("active")) != want_active:
        v.append((f"RFC 9068 introspection {c['off']} s after the token's expiry by the {c['who']} client reports active={intro.get('active')}",
                  {"kind": "introspect-active" if intro.get("active") else "introspect-inactive", "state": "expired" if not live else "live", "token": "jwt9068"}))
    if (out["served"] is True) != live:
        v.append((f"RFC 9068 resource validator {c['off']} s after the token's expiry: {out['served']}",
                  {"kind": "access-served" if out["served"] is True else "access-refused", "state": "expired-or-unknown" if not live else "live", "token": "jwt9068"}))
    return v


def classify(c, out):
    if c.get("op") == "jwt9068":
        return f"jwt9068/{c['who']}/" + ("live" if c["off"] <= 0 else "expired")
    if c.get("op") == "django_revocation":
        return f"django_revocation/{c['ref']}/{out.get('status')}"
    if c.get("op") == "flask_optional":
        return f"flask_optional/{c['state']}/{out.get('status')}"
    return "history/" + str(len(c["ops"]))


def nontrivial(c, out):
    if c.get("op") in ("jwt9068", "django_revocation", "flask_optional"):
        return c
    return c["ops"]


def search(breaks, rng, known, match_known):
    for c in cases(rng, "thorough"):
        o = impl(c)
        for what, sig in oracle(c, o):
            if match_known(known, sig) is None:
                return {"what": what, "sig": sig, "case": c, "impl": o}
    return None
