"""C09 — token lifecycle: refresh, revocation, introspection and expiry are consistent (histories)."""
import re

import provider_hist as H

RULE = ("one case = one history of issue / refresh / revoke / introspect / access / advance-clock requests against the real provider (3 clients; tokens referenced "
        "by access or refresh string; hints none, access_token, refresh_token, bogus), generated as a walk over the credentials really handed out plus stale, foreign "
        "and unknown ones; every step output and the final store are compared with the Lean state machine; non-trivial = distinct history")
ASSUMPTIONS = ["reference integrator = the repo's sqla_oauth2 functions (create_query_token_func, create_revocation_endpoint, create_bearer_token_validator) over an in-memory session",
               "introspection permission = same client (the stricter tested variant)"]
model_canon = H.model_canon


def cases(rng, tier):
    out = []
    n, ln = (150, 16) if tier == "quick" else (3000, 35)
    for i in range(n):
        h = H.gen_history(rng, ln, "token", supported=(["a", "b", "c"] if i % 4 == 0 else None), strict_hint=(i % 3 == 1))
        out.append({"cfg": h["cfg"], "ops": h["ops"]})
    # directed: revoke with every hint by owner / foreign client, then use the token in every way
    A1, A2 = ["c1", "client_secret_basic"], ["c2", "client_secret_post"]
    for ref in ("at1", "rt2"):
        for hint in (None, "access_token", "refresh_token", "bogus", ""):
            for who in (A1, A2, None):
                ops = [{"op": "issue_password", "auth": A1, "user": 1, "scope": "a b"},
                       {"op": "revoke", "auth": who, "token": ref, "hint": hint},
                       {"op": "access", "token": "at1", "required": None},
                       {"op": "introspect", "auth": A1, "token": "at1", "hint": None},
                       {"op": "introspect", "auth": A1, "token": "rt2", "hint": "refresh_token"},
                       {"op": "refresh", "auth": A1, "token": "rt2", "scope": None},
                       {"op": "advance", "dt": 900000},
                       {"op": "access", "token": "at1", "required": None},
                       {"op": "introspect", "auth": A1, "token": "at1", "hint": None}]
                out.append({"cfg": dict(H.World().cfg), "ops": ops})
                out.append({"cfg": dict(H.World(strict_hint=True).cfg), "ops": ops})
    for scope in (None, "a", "b a", "a z", "c"):
        ops = [{"op": "issue_password", "auth": A1, "user": 2, "scope": "a b"}, {"op": "refresh", "auth": A1, "token": "rt2", "scope": scope},
               {"op": "refresh", "auth": A1, "token": "rt2", "scope": None}, {"op": "access", "token": "at1", "required": ["a"]},
               {"op": "refresh", "auth": A2, "token": "rt4", "scope": None}, {"op": "access", "token": "at3", "required": ["a"]},
               {"op": "introspect", "auth": A1, "token": "at1", "hint": "access_token"}]
        out.append({"cfg": dict(H.World().cfg), "ops": ops})
    return out


def impl(c):
    return H.replay_all(c)


def model_line(c):
    return {"cfg": c["cfg"], "ops": c["ops"]}


def oracle_core(c, out):
    v = []
    def bad(what, **sig):
        v.append((what, sig))
    now = c["cfg"]["now"]
    toks = {}          # access number -> record as the statement sees it
    by_rt = {}
    def find(ref):
        m = re.fullmatch(r"(at|rt)(\d+)", ref or "")
        if not m:
            return None
        n = int(m.group(2))
        return toks.get(n) if m.group(1) == "at" else by_rt.get(n)
    for op, o in zip(c["ops"], out["outs"]):
        if "raised" in o:
            bad(f"{op['op']} raised {o['raised']}", kind="crash", op=op["op"], exc=o["raised"].split(":")[0]); break
        k = op["op"]
        auth = op.get("auth")
        if k == "advance":
            now += op["dt"]; continue
        if k in ("issue_password", "issue_cc", "refresh") and o.get("access") is not None:
            rec = {"access": o["access"], "refresh": o.get("refresh"), "client": auth[0] if auth else None, "issued": now,
                   "expires_in": 3600 if k == "refresh" else 864000, "revoked": False, "refresh_revoked": False, "scope": o.get("scope")}
            if k == "refresh":
                old = find(op.get("token"))
                why = None
                if not auth: why = "an unauthenticated client"
                elif old is None or not re.fullmatch(r"rt\d+", op.get("token") or ""): why = "an unknown refresh token"
                elif old["refresh_revoked"]: why = "a revoked refresh token"
                elif old["client"] != auth[0]: why = "a refresh token issued to another client"
                if why:
                    bad(f"refresh succeeded with {why}", kind="refresh-wrongly", why=why)
                elif old is not None:
                    old["revoked"] = old["refresh_revoked"] = True        # handed to the integrator for revocation
                    if op.get("scope") and not set(op["scope"].split()) <= set((old["scope"] or "").split()):
                        bad("refresh widened the scope", kind="refresh-scope")
            toks[rec["access"]] = rec
            if rec["refresh"] is not None:
                by_rt[rec["refresh"]] = rec
            continue
        t = find(op.get("token"))
        if c["cfg"].get("strict_hint") and k in ("revoke", "introspect") and op.get("hint") in ("access_token", "refresh_token"):
            kind = "access_token" if (op.get("token") or "").startswith("at") else "refresh_token"
            if kind != op["hint"]:
                t = None       # an integrator that honours the hint strictly does not find it: unknown token for this request
        if k == "revoke":
            if o["status"] == 200 and t is not None and auth and t["client"] == auth[0]:
                t["revoked"] = True
                if op.get("hint") != "access_token":
                    t["refresh_revoked"] = True
            elif t is not None and auth and t["client"] != auth[0]:
                if o["status"] == 200:
                    bad("a revocation request made by a different client was not refused", kind="foreign-revoke-accepted")
            elif t is None and auth and auth[1] != "none" and op.get("token") is not None and op.get("hint") in (None, "", "access_token", "refresh_token") and o["status"] != 200:
                bad(f"revoking an unknown token answered {o['status']}", kind="unknown-revoke-not-200")
        elif k == "access":
            live = t is not None and re.fullmatch(r"at\d+", op["token"] or "") and not t["revoked"] and now <= t["issued"] + t["expires_in"]
            if o["status"] == 200 and not live:
                bad("resource served with an unknown, expired or revoked token", kind="access-served", state="revoked" if t and t["revoked"] else "expired-or-unknown")
            if o["status"] != 200 and live and not op.get("required"):
                bad(f"live token refused: {o.get('error')}", kind="access-refused")
        elif k == "introspect":
            if o.get("active") is True:
                live = t is not None and not t["revoked"] and now <= t["issued"] + t["expires_in"]
                if not live:
                    bad("introspection reports an unknown, expired or revoked token as active", kind="introspect-active", state="revoked" if t and t["revoked"] else "expired-or-unknown")
                elif not auth or t["client"] != auth[0]:
                    bad("introspection by a different client answered active", kind="foreign-introspect")
            elif o.get("active") is False and t is not None and auth and t["client"] == auth[0] and auth[1] != "none":
                if not t["revoked"] and now <= t["issued"] + t["expires_in"] and op.get("hint") in (None, "", "access_token", "refresh_token"):
                    bad("introspection by the owning client reports a live token as inactive", kind="introspect-inactive")
    # the credential a refresh replaced must be revoked in the store at the end
    final = {t[0]: t for t in out["store"]["tokens"]}
    for n, rec in toks.items():
        if rec["revoked"] and n in final and not (final[n][5] or final[n][6]):
            bad("a credential that was revoked / replaced is still unrevoked in the store", kind="not-revoked-in-store")
        if not rec["revoked"] and n in final and (final[n][5] or final[n][6]):
            bad("a token nobody was entitled to revoke is revoked in the store (foreign or failed request had an effect)", kind="revoked-without-cause")
    return v


def project(c, out):
    return out


oracle = H.oracle_all(oracle_core)


def classify(c, out):
    return "history/" + str(len(c["ops"]))


def nontrivial(c, out):
    return c["ops"]


def search(breaks, rng, known, match_known):
    for c in cases(rng, "thorough"):
        o = impl(c)
        for what, sig in oracle(c, o):
            if match_known(known, sig) is None:
                return {"what": what, "sig": sig, "case": c, "impl": o}
    return None
