"""C01 — JWS/JWT signatures: round-trip, interoperability and tamper rejection."""
import base64
import binascii
import json

import joseref as R
from authlib.jose import JsonWebSignature, JsonWebKey, KeySet, OctKey, jwt as _jwt, JsonWebToken
from authlib.jose.errors import JoseError

RULE = ("for each of the 15 registered algorithms: tokens made by the library and by an independent RFC 7515 signer, in compact / flattened / general "
        "form, under several key forms, plus per-segment bit flips, truncations, extensions, splices, other keys, alg swaps; HMAC keys in str / bytes / JWK / Key form with unusual end octets; "
        "histories of JsonWebToken.encode calls sharing one header dict across keys; "
        "non-trivial = distinct mutated token or distinct (alg, key form, serialization) round trip")
ASSUMPTIONS = ["RSA / RSA-PSS / ECDSA / EdDSA are primitives answered by `cryptography` (oracle table); HMAC-SHA2 is computed natively in Lean",
               "the JSON decoding of the protected header is answered by CPython's json (oracle table keyed by the decoded octets)",
               "reading (DESIGN §3.2): texts that base64-decode to the same signature octets are the same JWS Signature"]
TRUSTED = ["joseref.py independent RFC 7515/7518 signer and verifier (hashlib, hmac, cryptography)"]

PAYLOADS = [b"", b"hello", b"\x00\xff\xfe binary", "üñí✓".encode(), b'{"sub":"u1","exp":9999999999}', b"x" * 700]
HS_SECRET = b"0123456789abcdef0123456789abcdef-secret"
HS_SECRET2 = b"another-secret-another-secret-00"


def lenient(seg):
    try:
        return base64.urlsafe_b64decode(seg + b"=" * (-len(seg) % 4))
    except (binascii.Error, ValueError):
        return None


def raw_key(alg, n=1):
    if alg.startswith("HS") or alg == "none":
        return HS_SECRET if n == 1 else HS_SECRET2
    return R.keys()[R.key_for_alg(alg, n)]


def key_desc(alg, n=1):
    if alg.startswith("HS") or alg == "none":
        return {"oct": (HS_SECRET if n == 1 else HS_SECRET2).hex()}
    name = R.key_for_alg(alg, n)
    kind = "rsa" if name.startswith("rsa") else "ec" if name.startswith("ec") else "okp"
    d = {"kind": kind, "id": R.key_index(name), "name": name}
    if kind == "ec":
        d["crv"] = R.EC_ALGS[alg][3]
    return d


def authlib_key(alg, n, form, private):
    """the key in one of the forms the property names"""
    if alg.startswith("HS") or alg == "none":
        sec = HS_SECRET if n == 1 else HS_SECRET2
        if form == "bytes": return sec
        if form == "jwk": return {"kty": "oct", "k": R.b64u(sec).decode()}
        if form == "key": return OctKey.import_key(sec)
        if form == "keyset": return KeySet([OctKey.import_key(sec, {"kid": "k1"})])
        return sec
    k = R.keys()[R.key_for_alg(alg, n)]
    pem = R.pem_private(k) if private else R.pem_public(k)
    if form in ("bytes", "pem"): return pem
    kobj = JsonWebKey.import_key(pem)
    if form == "jwk": return kobj.as_dict(is_private=private)
    if form == "key": return kobj
    if form == "keyset": return KeySet([JsonWebKey.import_key(pem, {"kid": "k1"})])
    return pem


def mutate(tok, rng, tier):
    """(kind, mutated token) list"""
    out = []
    h, p, s = tok.split(b".")
    segs = {"header": h, "payload": p, "signature": s}
    def rebuild(d):
        return d["header"] + b"." + d["payload"] + b"." + d["signature"]
    alphabet = b"ABCDEFGHIJKLMNOPQRSTUVWXYZabcdefghijklmnopqrstuvwxyz0123456789-_"
    for name, seg in segs.items():
        if not seg:
            continue
        positions = list(range(len(seg)))
        k = 6 if tier == "quick" else 40
        picks = set(rng.sample(positions, min(k, len(positions))) + [0, len(seg) - 1])
        for i in sorted(picks):
            for bit in ((0, 5) if tier == "quick" else range(6)):
                v = alphabet.index(seg[i:i + 1]) ^ (1 << bit)
                d = dict(segs); d[name] = seg[:i] + alphabet[v:v + 1] + seg[i + 1:]
                out.append((f"flip:{name}", rebuild(d)))
        for n in (1, 2, 3, 4):
            d = dict(segs); d[name] = seg[:-n]; out.append((f"truncate:{name}", rebuild(d)))
            d = dict(segs); d[name] = seg + b"A" * n; out.append((f"extend:{name}", rebuild(d)))
        d = dict(segs); d[name] = seg + b"="; out.append((f"pad:{name}", rebuild(d)))
        d = dict(segs); d[name] = b""; out.append((f"empty:{name}", rebuild(d)))
    out.append(("drop-signature-segment", h + b"." + p))
    out.append(("extra-dot", h + b"." + p + b"." + s + b"."))
    out.append(("extra-segment", h + b"." + p + b".x." + s))
    out.append(("garbage", b"not-a-token"))
    # decoded-signature level: drop / add one octet, all-zero signature
    sd = lenient(s) or b""
    if sd:
        out.append(("sig-octets:short", h + b"." + p + b"." + R.b64u(sd[:-1])))
        out.append(("sig-octets:long", h + b"." + p + b"." + R.b64u(sd + b"\x00")))
        out.append(("sig-octets:prefix16+junk", h + b"." + p + b"." + R.b64u(sd[:16] + bytes(len(sd) - 16))))
        out.append(("sig-octets:zero", h + b"." + p + b"." + R.b64u(bytes(len(sd)))))
    return out


def text_mutations(v, rng):
    """(kind, text) variants of one base64url member of a JSON serialization: bit flips (incl. the spare low bits of the last character,
    which leave the decoded octets unchanged), truncation, extension, padding"""
    alphabet = "ABCDEFGHIJKLMNOPQRSTUVWXYZabcdefghijklmnopqrstuvwxyz0123456789-_"
    out = []
    if not v:
        return out
    for i in sorted(set(rng.sample(range(len(v)), min(3, len(v))) + [0, len(v) - 1])):
        for bit in (0, 1, 5):
            ch = alphabet[alphabet.index(v[i]) ^ (1 << bit)]
            out.append((f"flip@{'last' if i == len(v) - 1 else 'in'}", v[:i] + ch + v[i + 1:]))
    out += [("truncate", v[:-1]), ("extend", v + "A"), ("pad", v + "="), ("pad2", v + "=="), ("empty", "")]
    return out


def cases(rng, tier):
    jws = JsonWebSignature()
    out = []
    for bits in (256, 384, 512):          # the native Lean HMAC-SHA2 against hashlib (NIST-style edge lengths + random)
        for n in (0, 1, 55, 56, 63, 64, 65, 111, 112, 119, 120, 127, 128, 129, 200):
            out.append({"op": "hmac", "bits": bits, "k": bytes(rng.randrange(256) for _ in range(rng.choice([0, 1, 32, 64, 65, 128, 129, 150]))).hex(),
                        "m": bytes(rng.randrange(256) for _ in range(n)).hex(), "kind": "hmac-selftest", "alg": f"HS{bits}"})
    # HMAC keys with unusual leading / trailing octets: the key used is exactly the key given (no normalisation)
    base_k = b"k" * 40
    for alg in ("HS256", "HS384", "HS512"):
        for pre in (b"", b"\xef\xbb\xbf", b" ", b"\n", b"\x00", b"\xff\xfe", b"\t\r\n"):
            for suf in (b"", b"\n", b"\x00", b" "):
                k1 = pre + base_k + suf
                for k2 in {k1, base_k, base_k + suf, pre + base_k}:
                    out.append({"op": "hskey", "alg": alg, "k1": k1.hex(), "k2": k2.hex(), "kind": "hs-key-variant"})
                    # the same octets in every form a caller can pass them (str = its UTF-8 octets, JWK dict, Key object, bare bytes)
                    try:
                        k1.decode(); k2.decode()
                    except UnicodeDecodeError:
                        continue
                    for f1, f2 in (("str", "str"), ("str", "bytes"), ("bytes", "str"), ("jwk", "str"), ("str", "jwk")):
                        if alg == "HS256" or (f1, f2) == ("str", "str"):
                            out.append({"op": "hskey", "alg": alg, "k1": k1.hex(), "k2": k2.hex(), "f1": f1, "f2": f2, "kind": "hs-key-variant"})
    # histories of JsonWebToken.encode calls that share one header dict (a module-level template) across keys with different kids:
    # every token is accepted under the key set holding the signers' public keys
    for alg in [a for a in R.ALL_ALGS if a != "none"]:
        for kform in ("key", "jwk"):
            for order in ([1, 2], [2, 1], [1, 2, 1]):
                out.append({"op": "jwt_reuse", "alg": alg, "kform": kform, "order": order, "kind": "header-reuse"})
    # a long-lived KeySet whose key list is changed in place (JWKS rotation): verification follows the keys it holds now
    for alg in ("HS256", "RS256", "ES256", "EdDSA"):
        for how in ("replace-same-kid", "remove", "append-new"):
            out.append({"op": "keyset_rotation", "alg": alg, "how": how, "kind": "keyset-rotation"})
    # the key given as a resolver callable: "a different key is used … is refused", whatever key the token itself offers in a jwk header
    for alg in ("HS256", "RS256", "ES256", "EdDSA"):
        for returns in ("right", "none", "wrong"):
            for signed_by in ("right", "attacker"):
                for jwk_header in (False, True):
                    for api in ("jws", "jwt"):
                        out.append({"op": "resolver", "alg": alg, "returns": returns, "signed_by": signed_by, "jwk_header": jwk_header, "api": api, "kind": "resolver"})
    # JSON serializations with an unprotected header: what is signed is the protected header exactly as given, and it is reported back as such
    for alg in ("HS256", "RS256", "ES256", "EdDSA"):
        for ser in ("flat", "general"):
            out.append({"op": "json_headers", "alg": alg, "ser": ser, "kind": "json-headers"})
    # a general-JSON JWS with one valid signature and one entry the verifier cannot check (unregistered / not allowed alg): "only if every signature verifies"
    for alg in ("HS256", "ES256"):
        for bad_alg in ("XX999", "none", "HS512", 5):
            for order in ("good-first", "bad-first"):
                out.append({"op": "json_mixed", "alg": alg, "bad_alg": bad_alg, "order": order, "kind": "json-mixed"})
    # EdDSA over both RFC 8037 curves (signature sizes 64 and 114 octets), every serialization
    for crv in ("Ed25519", "Ed448"):
        for ser in ("compact", "flat", "general", "jwt"):
            out.append({"op": "eddsa_curve", "crv": crv, "ser": ser, "alg": "EdDSA", "kind": "okp-curve"})
    # keys without a kid on both sides: a JWT signed with a kid-less Key object / JWK / PEM verifies under the matching single-key set (dict, JSON text members, KeySet) without kid
    for alg in ("HS256", "RS256", "ES256", "EdDSA"):
        for sform in ("key", "jwk", "bytes"):
            for vform in ("jwks-dict", "keyset", "key", "jwk"):
                out.append({"op": "kidless", "alg": alg, "sform": sform, "vform": vform, "kind": "kidless"})
    # large payloads (hundreds of KiB) in all three serializations, and JWT claims whose values merely look like numbers: what was signed comes back
    for alg in ("HS256", "ES256"):
        for ser in ("compact", "flat", "general"):
            out.append({"op": "large", "alg": alg, "ser": ser, "size": 300_000, "kind": "large"})
    for claims in ({"exp": "99999999999", "iat": "5", "nbf": "0", "sub": "1"}, {"exp": 99999999999, "x": "007", "aud": "42"}, {"exp": 99999999999.5, "iat": 1.0}):
        out.append({"op": "jwt_claims_back", "alg": "HS256", "claims": claims, "kind": "claims-back"})
    # the library's default instance `authlib.jose.jwt` (what the rest of the library and most applications use): every registered algorithm but none
    for alg in [a for a in R.ALL_ALGS if a != "none"]:
        out.append({"op": "default_jwt", "alg": alg, "kind": "default-instance"})
    payloads = PAYLOADS if tier == "thorough" else PAYLOADS[:5]
    for alg in R.ALL_ALGS:
        key = raw_key(alg)
        for pi, payload in enumerate(payloads if tier == "thorough" else [payloads[R.ALL_ALGS.index(alg) % len(payloads)], payloads[1]]):
            header = {"alg": alg, "typ": "JWT", "kid": "k1", "x": "é✓"} if pi % 2 == 0 else {"alg": alg}
            try:
                tok = jws.serialize_compact(header, payload, authlib_key(alg, 1, "key", True))
            except Exception as e:
                raise AssertionError(f"library could not sign with {alg}: {e!r}")
            reftok = R.ref_serialize_compact(header, payload, key)
            base = {"op": "compact", "alg": alg, "kn": 1, "form": "key", "allowed": None}
            for form in ("bytes", "jwk", "key", "keyset"):
                if form == "keyset" and not payload.startswith(b"{"):
                    continue            # a KeySet is a JWT-level key form: jwt.decode needs a JSON claims payload
                out.append(dict(base, token=tok.hex(), form=form, kind="own", expect=[header, payload.hex()]))
            out.append(dict(base, token=reftok.hex(), kind="interop-in", expect=[header, payload.hex()]))
            out.append(dict(base, token=tok.hex(), kn=2, kind="other-key"))
            out.append(dict(base, token=tok.hex(), allowed=["HS256"] if alg != "HS256" else ["RS256"], kind="not-allowed"))
            out.append(dict(base, token=tok.hex(), allowed=[alg, "HS384"], kind="allowed", expect=[header, payload.hex()]))
            if pi == 0 or tier == "thorough":
                for kind, m in mutate(tok, rng, tier):
                    out.append(dict(base, token=m.hex(), kind=kind))
                # splice with a second valid token of the same algorithm and key
                tok2 = jws.serialize_compact({"alg": alg, "n": 2}, b"other payload", authlib_key(alg, 1, "key", True))
                a, b = tok.split(b"."), tok2.split(b".")
                for i, sp in enumerate(([a[0], b[1], b[2]], [b[0], a[1], a[2]], [a[0], a[1], b[2]], [a[0], b[1], a[2]])):
                    out.append(dict(base, token=b".".join(sp).hex(), kind=f"splice:{i}"))
                # alg confusion inside the header, signature kept
                for other in ("none", "HS256", "RS256", "ES256", "nope", 5, None):
                    h2 = dict(header, alg=other)
                    if other is None:
                        h2.pop("alg")
                    hseg = R.b64u(json.dumps(h2, separators=(",", ":")).encode())
                    out.append(dict(base, token=(hseg + b"." + a[1] + b"." + a[2]).hex(), kind="alg-swap"))
                    if other == "none":
                        out.append(dict(base, token=(hseg + b"." + a[1] + b".").hex(), kind="alg-none-unsigned"))
        # JSON forms
        if alg != "none":
            k_ = authlib_key(alg, 1, "key", True)
            flat = jws.serialize_json({"protected": {"alg": alg}, "header": {"kid": "k1"}}, b"json payload!", k_)     # 13 octets: the last payload character has spare bits
            out.append({"op": "json", "alg": alg, "kn": 1, "form": "key", "allowed": None, "obj": flat, "kind": "own-flat", "expect": "accept"})
            out.append({"op": "json", "alg": alg, "kn": 2, "form": "key", "allowed": None, "obj": flat, "kind": "flat-other-key"})
            for name in ("protected", "signature", "payload"):
                v = flat[name]
                c = "A" if v[2] != "A" else "B"
                out.append({"op": "json", "alg": alg, "kn": 1, "form": "key", "allowed": None, "obj": dict(flat, **{name: v[:2] + c + v[3:]}), "kind": f"flat-flip:{name}"})
                d = dict(flat); d.pop(name)
                out.append({"op": "json", "alg": alg, "kn": 1, "form": "key", "allowed": None, "obj": d, "kind": f"flat-missing:{name}"})
                for mk, mv in text_mutations(v, rng):
                    out.append({"op": "json", "alg": alg, "kn": 1, "form": "key", "allowed": None, "obj": dict(flat, **{name: mv}), "kind": f"flat-{mk}:{name}"})
            for n in (1, 2, 3):
                gen = jws.serialize_json([{"protected": {"alg": alg, "i": i}} for i in range(n)], b"general payload.", k_)
                out.append({"op": "json", "alg": alg, "kn": 1, "form": "key", "allowed": None, "obj": gen, "kind": f"own-general:{n}", "expect": "accept"})
                for i in range(n):
                    sigs = [dict(e) for e in gen["signatures"]]
                    v = sigs[i]["signature"]
                    sigs[i]["signature"] = v[:3] + ("A" if v[3] != "A" else "B") + v[4:]
                    out.append({"op": "json", "alg": alg, "kn": 1, "form": "key", "allowed": None, "obj": dict(gen, signatures=sigs), "kind": f"general-bad-entry:{i}/{n}"})
                    sigs2 = [dict(e) for j, e in enumerate(gen["signatures"]) if j != i]
                    out.append({"op": "json", "alg": alg, "kn": 1, "form": "key", "allowed": None, "obj": dict(gen, signatures=sigs2), "kind": f"general-drop-entry:{n}"})
                out.append({"op": "json", "alg": alg, "kn": 1, "form": "key", "allowed": None, "obj": dict(gen, signatures=[]), "kind": "general-no-signatures"})
                if n == 2:
                    for mk, mv in text_mutations(gen["payload"], rng):
                        out.append({"op": "json", "alg": alg, "kn": 1, "form": "key", "allowed": None, "obj": dict(gen, payload=mv), "kind": f"general-{mk}:payload"})
                    for name in ("protected", "signature"):
                        for mk, mv in text_mutations(gen["signatures"][1][name], rng)[-8:]:
                            sigs = [dict(e) for e in gen["signatures"]]; sigs[1][name] = mv
                            out.append({"op": "json", "alg": alg, "kn": 1, "form": "key", "allowed": None, "obj": dict(gen, signatures=sigs), "kind": f"general-{mk}:{name}"})
    return out


def the_key(c):
    return authlib_key(c["alg"], c["kn"], c["form"], False)


def canon_err(e):
    if isinstance(e, JoseError):
        return {"error": type(e).error}
    return {"raised": type(e).__name__}


def impl(c):
    if c["op"] == "hmac":
        import hmac, hashlib
        return {"mac": hmac.new(bytes.fromhex(c["k"]), bytes.fromhex(c["m"]), getattr(hashlib, f"sha{c['bits']}")).hexdigest()}
    if c["op"] == "json_headers":
        J = JsonWebSignature()
        prot, unprot = {"alg": c["alg"], "typ": "JWT"}, {"kid": "k1", "x-note": "unprotected"}
        hdr = {"protected": dict(prot), "header": dict(unprot)}
        key, pub = authlib_key(c["alg"], 1, "key", True), authlib_key(c["alg"], 1, "key", False)
        o = J.serialize_json(hdr if c["ser"] == "flat" else [hdr], b"payload", key)
        ent = o if c["ser"] == "flat" else o["signatures"][0]
        signed = json.loads(lenient(ent["protected"].encode()))
        r = J.deserialize_json(o, pub)
        h = r["header"] if c["ser"] == "flat" else r["header"][0]
        return {"signed_protected": signed, "wire_unprotected": ent.get("header"), "reported_protected": dict(h.protected), "reported_unprotected": dict(h.header),
                "want": [prot, unprot], "ref_ok": bool(R.verify(c["alg"], raw_key(c["alg"]), ent["protected"].encode() + b"." + o["payload"].encode(), lenient(ent["signature"].encode())))}
    if c["op"] == "large":
        J = JsonWebSignature()
        payload = (b"0123456789abcdef" * (c["size"] // 16 + 1))[:c["size"]]
        priv, pub = authlib_key(c["alg"], 1, "key", True), authlib_key(c["alg"], 1, "key", False)
        try:
            if c["ser"] == "compact":
                got = J.deserialize_compact(J.serialize_compact({"alg": c["alg"]}, payload, priv), pub)["payload"]
            else:
                hdr = {"protected": {"alg": c["alg"]}}
                got = J.deserialize_json(J.serialize_json(hdr if c["ser"] == "flat" else [hdr], payload, priv), pub)["payload"]
            return {"same": got == payload}
        except Exception as e:
            return {"same": False, "error": type(e).__name__ + ": " + str(e)[:60]}
    if c["op"] == "jwt_claims_back":
        jw = JsonWebToken(["HS256"])
        k = OctKey.import_key(HS_SECRET)
        try:
            got = jw.decode(jw.encode({"alg": "HS256"}, c["claims"], k), k)
            return {"same": dict(got) == c["claims"] and json.loads(json.dumps(dict(got))) == c["claims"], "got": json.loads(json.dumps(dict(got)))}
        except Exception as e:
            return {"same": False, "error": type(e).__name__ + ": " + str(e)[:60]}
    if c["op"] == "kidless":
        jw = JsonWebToken([c["alg"]])
        alg = c["alg"]
        def kk(private):
            if alg.startswith("HS"):
                return OctKey.import_key(HS_SECRET)
            kx = R.keys()[R.key_for_alg(alg, 1)]
            return JsonWebKey.import_key(R.pem_private(kx) if private else R.pem_public(kx))
        sk = kk(True)
        signer = sk if c["sform"] == "key" else dict(sk.as_dict(is_private=True)) if c["sform"] == "jwk" else (HS_SECRET if alg.startswith("HS") else R.pem_private(R.keys()[R.key_for_alg(alg, 1)]))
        if isinstance(signer, dict):
            signer.pop("kid", None)
        res = {}
        try:
            t = jw.encode({"alg": alg}, {"sub": "s"}, signer)
            res["header_kid"] = json.loads(lenient(t.split(b".")[0])).get("kid")
            vk = kk(False)
            jwk_nokid = {k_: v_ for k_, v_ in vk.as_dict(is_private=alg.startswith("HS")).items() if k_ != "kid"}
            verifier = {"jwks-dict": {"keys": [jwk_nokid]}, "keyset": KeySet([kk(False)]), "key": kk(False), "jwk": jwk_nokid}[c["vform"]]
            res["accepted"] = dict(jw.decode(t, verifier)) == {"sub": "s"}
        except Exception as e:
            res["accepted"] = False; res["error"] = type(e).__name__ + ": " + str(e)[:60]
        return res
    if c["op"] == "default_jwt":
        from authlib.jose import jwt as default_jwt
        alg, res = c["alg"], {}
        priv, pub = authlib_key(alg, 1, "key", True), authlib_key(alg, 1, "key", False)
        claims = {"sub": "s", "n": 1}
        try:
            t = default_jwt.encode({"alg": alg}, claims, priv)
            res["own"] = dict(default_jwt.decode(t, pub)) == claims
            si, sg = t.rsplit(b".", 1)
            res["ref_accepts"] = bool(R.verify(alg, raw_key(alg), si, lenient(sg)))
        except Exception as e:
            res["own"] = type(e).__name__
        try:
            rt = R.ref_serialize_compact({"alg": alg}, json.dumps(claims).encode(), raw_key(alg))
            res["interop_in"] = dict(default_jwt.decode(rt, pub)) == claims
        except Exception as e:
            res["interop_in"] = type(e).__name__
        try:
            default_jwt.decode(rt, authlib_key(alg, 2, "key", False)); res["other_key"] = "accepted"
        except Exception:
            res["other_key"] = "refused"
        return res
    if c["op"] == "json_mixed":
        J = JsonWebSignature(algorithms=[c["alg"]])
        key, pub = authlib_key(c["alg"], 1, "key", True), authlib_key(c["alg"], 1, "key", False)
        o = JsonWebSignature().serialize_json([{"protected": {"alg": c["alg"]}}], b"payload", key)
        bad = {"protected": R.b64u(json.dumps({"alg": c["bad_alg"]}).encode()).decode(), "signature": R.b64u(b"junk-signature").decode()}
        sigs = [o["signatures"][0], bad] if c["order"] == "good-first" else [bad, o["signatures"][0]]
        try:
            J.deserialize_json({"payload": o["payload"], "signatures": sigs}, pub)
            return {"accepted": True}
        except Exception as e:
            return {"accepted": False, "error": type(e).__name__}
    if c["op"] == "resolver":
        from props import c02
        return c02.impl_extra(dict(c, op="callable"))
    if c["op"] == "keyset_rotation":
        jw = JsonWebToken(R.ALL_ALGS)
        def kobj(n, private, kid):
            if c["alg"].startswith("HS"):
                return OctKey.import_key(HS_SECRET if n == 1 else HS_SECRET2, {"kid": kid})
            kk = R.keys()[R.key_for_alg(c["alg"], n)]
            return JsonWebKey.import_key(R.pem_private(kk) if private else R.pem_public(kk), {"kid": kid})
        t1 = jw.encode({"alg": c["alg"], "kid": "kA"}, {"sub": "one"}, kobj(1, True, "kA"))
        kid2 = "kA" if c["how"] == "replace-same-kid" else "kB"
        t2 = jw.encode({"alg": c["alg"], "kid": kid2}, {"sub": "two"}, kobj(2, True, kid2))
        ks = KeySet([kobj(1, False, "kA")])
        def dec(t):
            try:
                return dict(jw.decode(t, ks)).get("sub")
            except Exception as e:
                return "refused"
        res = {"before": [dec(t1), dec(t2)]}
        if c["how"] == "replace-same-kid":
            ks.keys[0] = kobj(2, False, "kA")
        elif c["how"] == "remove":
            ks.keys.clear(); ks.keys.append(kobj(2, False, "kB"))
        else:
            ks.keys.append(kobj(2, False, "kB"))
        res["after"] = [dec(t1), dec(t2)]
        return res
    if c["op"] == "eddsa_curve":
        k = R.keys()["ed25519-1" if c["crv"] == "Ed25519" else "ed448-1"]
        other = R.keys()["ed25519-2" if c["crv"] == "Ed25519" else "ed25519-1"]
        priv, pub = JsonWebKey.import_key(R.pem_private(k)), JsonWebKey.import_key(R.pem_public(k))
        J = JsonWebSignature()
        res = {}
        try:
            if c["ser"] == "compact":
                t = J.serialize_compact({"alg": "EdDSA"}, b"payload", priv)
                res["own"] = J.deserialize_compact(t, pub)["payload"] == b"payload"
                si, sg = t.rsplit(b".", 1)
                res["ref_accepts"] = bool(R.verify("EdDSA", k, si, lenient(sg)))
                rt = R.ref_serialize_compact({"alg": "EdDSA"}, b"payload", k)
                res["interop_in"] = J.deserialize_compact(rt, pub)["payload"] == b"payload"
                try:
                    J.deserialize_compact(t, JsonWebKey.import_key(R.pem_public(other))); res["other_key"] = "accepted"
                except Exception as e:
                    res["other_key"] = "refused"
                try:
                    J.deserialize_compact(si + b"." + R.b64u(bytes([lenient(sg)[0] ^ 1]) + lenient(sg)[1:]), pub); res["flipped"] = "accepted"
                except Exception:
                    res["flipped"] = "refused"
            elif c["ser"] == "jwt":
                jw = JsonWebToken(["EdDSA"])
                t = jw.encode({"alg": "EdDSA"}, {"sub": "s"}, priv)
                res["own"] = dict(jw.decode(t, pub)) == {"sub": "s"}
            else:
                hdr = {"protected": {"alg": "EdDSA"}}
                o = J.serialize_json(hdr if c["ser"] == "flat" else [hdr, hdr], b"payload", priv)
                res["own"] = J.deserialize_json(o, pub)["payload"] == b"payload"
        except Exception as e:
            res["raised"] = type(e).__name__ + ": " + str(e)[:80]
        return res
    if c["op"] == "jwt_reuse":
        jwt = JsonWebToken(R.ALL_ALGS)
        def kobj(n, private):
            if c["alg"].startswith("HS"):
                k = OctKey.import_key(HS_SECRET if n == 1 else HS_SECRET2, {"kid": f"kid-{n}"})
            else:
                kk = R.keys()[R.key_for_alg(c["alg"], n)]
                k = JsonWebKey.import_key(R.pem_private(kk) if private else R.pem_public(kk), {"kid": f"kid-{n}"})
            return k
        header = {"alg": c["alg"]}
        res = []
        ks = KeySet([kobj(1, False), kobj(2, False)])
        for i, n in enumerate(c["order"]):
            k = kobj(n, True)
            claims = {"sub": f"s{i}"}
            try:
                tok = jwt.encode(header, claims, k.as_dict(is_private=True) if c["kform"] == "jwk" else k)
            except Exception as e:
                res.append({"sign": canon_err(e)}); continue
            try:
                got = jwt.decode(tok, ks)
                res.append({"ok": dict(got) == claims, "kid": got.header.get("kid"), "want_kid": f"kid-{n}"})
            except Exception as e:
                res.append(canon_err(e))
        return {"reuse": res}
    if c["op"] == "hskey":
        j = JsonWebSignature()
        k1, k2 = bytes.fromhex(c["k1"]), bytes.fromhex(c["k2"])
        def form(k, f):
            if f == "str":
                return k.decode()
            if f == "bytes":
                return k
            if f == "jwk":
                return {"kty": "oct", "k": R.b64u(k).decode()}
            return OctKey.import_key(k)
        try:
            tok = j.serialize_compact({"alg": c["alg"]}, b"payload", form(k1, c.get("f1")))
        except Exception as e:
            return {"sign_error": type(e).__name__}
        si, sseg = tok.rsplit(b".", 1)
        res = {"ref_verifies_k1": bool(R.verify(c["alg"], k1, si, lenient(sseg))), "ref_verifies_k2": bool(R.verify(c["alg"], k2, si, lenient(sseg)))}
        try:
            j.deserialize_compact(tok, form(k2, c.get("f2"))); res["verifies_k2"] = True
        except Exception as e:
            res["verifies_k2"] = False
        return res
    jws = JsonWebSignature(algorithms=c["allowed"])
    key = the_key(c)
    try:
        if c["op"] == "compact" and c["form"] == "keyset":
            tok = bytes.fromhex(c["token"])
            claims = JsonWebToken(c["allowed"] or R.ALL_ALGS).decode(tok, key)
            hseg, pseg = tok.split(b".")[:2]
            same = dict(claims) == json.loads(lenient(pseg))
            return {"ok": {"header": lenient(hseg).hex(), "payload": lenient(pseg).hex() if same else "claims-differ"},
                    "_hdr": claims.header, "_hdr_all": dict(claims.header)}
        if c["op"] == "compact":
            tok = bytes.fromhex(c["token"])
            rv = jws.deserialize_compact(tok, key)
            hseg = tok.rsplit(b".", 1)[0].split(b".", 1)[0]
            return {"ok": {"header": (lenient(hseg) or b"").hex(), "payload": rv.payload.hex()},
                    "_hdr": rv.header.protected, "_hdr_all": dict(rv.header)}
        rv = jws.deserialize_json(c["obj"], key)
        obj = c["obj"]
        ents = obj["signatures"] if "signatures" in obj else [obj]
        return {"ok": {"headers": [(lenient(e["protected"].encode()) or b"").hex() for e in ents], "payload": rv.payload.hex()}}
    except Exception as e:
        return canon_err(e)


def header_table(segs):
    t = {}
    for seg in segs:
        d = lenient(seg)
        if d is None:
            continue
        try:
            h = json.loads(d.decode("utf-8"))
        except ValueError:
            t[d.hex()] = None; continue
        t[d.hex()] = {"alg": h.get("alg")} if isinstance(h, dict) else None
    return t


def verify_entries(c, pairs):
    """answers of the primitive for (signing input, signature segment) pairs — computed with `cryptography` directly"""
    out = []
    kd = key_desc(c["alg"], c["kn"])
    if "oct" in kd:
        return out
    key = R.keys()[kd["name"]]
    for hseg, msg, sseg in pairs:
        hd, sd = lenient(hseg), lenient(sseg)
        if hd is None or sd is None:
            continue
        try:
            alg = json.loads(hd.decode()).get("alg")
        except Exception:
            continue
        if not isinstance(alg, str):
            continue
        out.append({"key": kd["id"], "msg": msg.hex(), "sig": sd.hex(), "ok": R.verify(alg, key, msg, sd)})
    return out


def model_line(c):
    if c["op"] in ("large", "jwt_claims_back", "kidless", "default_jwt", "hskey", "jwt_reuse", "eddsa_curve", "keyset_rotation", "resolver", "json_headers", "json_mixed"):
        return None
    if c["op"] == "hmac":
        return {"op": "hmac", "bits": c["bits"], "k": c["k"], "m": c["m"], "key": {"oct": ""}, "headers": {}}
    kd = key_desc(c["alg"], c["kn"])
    kj = {"oct": kd["oct"]} if "oct" in kd else {k: v for k, v in kd.items() if k != "name"}
    if c["op"] == "compact":
        tok = bytes.fromhex(c["token"])
        if tok.count(b".") < 2:
            return {"op": "compact", "token": c["token"], "key": kj, "allowed": c["allowed"], "headers": {}, "verify": []}
        si, sseg = tok.rsplit(b".", 1)
        hseg = si.split(b".", 1)[0]
        return {"op": "compact", "token": c["token"], "key": kj, "allowed": c["allowed"], "headers": header_table([hseg]),
                "verify": verify_entries(c, [(hseg, si, sseg)])}
    obj = c["obj"]
    pay = obj.get("payload")
    ents = obj["signatures"] if "signatures" in obj else [obj]
    def hx(v):
        return v.encode().hex() if isinstance(v, str) else None
    line = {"op": "json", "key": kj, "allowed": c["allowed"], "payload": hx(pay),
            "headers": header_table([e["protected"].encode() for e in ents if isinstance(e.get("protected"), str)]),
            "verify": verify_entries(c, [(e["protected"].encode(), e["protected"].encode() + b"." + (pay or "").encode(), e["signature"].encode())
                                         for e in ents if isinstance(e.get("protected"), str) and isinstance(e.get("signature"), str)])}
    if "signatures" in obj:
        line["signatures"] = [{"protected": hx(e.get("protected")), "signature": hx(e.get("signature"))} for e in ents]
    else:
        line["protected"], line["signature"] = hx(obj.get("protected")), hx(obj.get("signature"))
    return line


def project(c, out):
    if "raised" in out:
        # prepare_key failures are ValueErrors in the library; the model reports them as key_error
        # (a header alg of another family than the configured key surfaces as ValueError / KeyError / TypeError from prepare_key; C20 owns that)
        return {"error": "key_error"} if out["raised"] in ("ValueError", "KeyError", "TypeError") else out
    return {k: v for k, v in out.items() if not k.startswith("_")}


def ref_key(c):
    kd = key_desc(c["alg"], c["kn"])
    return bytes.fromhex(kd["oct"]) if "oct" in kd else R.keys()[kd["name"]]


def oracle(c, out):
    v = []
    if c["op"] == "hmac":
        return v
    if c["op"] == "json_headers":
        prot, unprot = out["want"]
        if out["signed_protected"] != prot or out["wire_unprotected"] != unprot:
            v.append((f"{c['ser']} JSON JWS: the protected segment holds {out['signed_protected']} and the unprotected header {out['wire_unprotected']}, asked for {prot} / {unprot}",
                      {"alg": c["alg"], "op": "json_headers", "kind": "wrong-content"}))
        elif out["reported_protected"] != prot or out["reported_unprotected"] != unprot:
            v.append((f"{c['ser']} JSON JWS: verification reports protected {out['reported_protected']} / unprotected {out['reported_unprotected']}, signed were {prot} / {unprot}",
                      {"alg": c["alg"], "op": "json_headers", "kind": "wrong-content"}))
        if not out["ref_ok"]:
            v.append((f"{c['ser']} JSON JWS is not accepted by the independent verifier", {"alg": c["alg"], "op": "json_headers", "kind": "own-token-refused"}))
        return v
    if c["op"] == "large":
        if not out["same"]:
            v.append((f"{c['alg']} {c['ser']} JWS over a {c['size']}-octet payload produced by the library is not returned as signed under the matching key: {out.get('error', 'payload differs')}",
                      {"alg": c["alg"], "op": "large", "kind": "own-token-refused"}))
        return v
    if c["op"] == "jwt_claims_back":
        if not out["same"]:
            v.append((f"JWT with claims {c['claims']} decodes to {out.get('got', out.get('error'))}: not exactly the payload that was signed", {"alg": "HS256", "op": "jwt_claims_back", "kind": "roundtrip"}))
        return v
    if c["op"] == "kidless":
        if not out.get("accepted"):
            v.append((f"{c['alg']}: JWT signed with a kid-less key (given as {c['sform']}; header kid {out.get('header_kid')!r}) is not accepted under the matching kid-less key given as {c['vform']}: {out.get('error')}",
                      {"alg": c["alg"], "op": "kidless", "kind": "own-token-refused"}))
        return v
    if c["op"] == "default_jwt":
        want = {"own": True, "ref_accepts": True, "interop_in": True, "other_key": "refused"}
        for k_ in want:
            if out.get(k_, want[k_] if k_ == "ref_accepts" else None) != want[k_]:
                v.append((f"default authlib.jose.jwt instance, {c['alg']}: {k_} = {out.get(k_)!r}, expected {want[k_]!r}",
                          {"alg": c["alg"], "op": "default_jwt", "kind": "accepted-unverified" if k_ == "other_key" else "own-token-refused"}))
                break
        return v
    if c["op"] == "json_mixed":
        if out["accepted"]:
            v.append((f"general JSON JWS accepted although one of its signatures (alg {c['bad_alg']!r}, {c['order']}) cannot verify", {"alg": c["alg"], "op": "json_mixed", "kind": "accepted-unverified"}))
        return v
    if c["op"] == "resolver":
        want = c["returns"] == "right" and c["signed_by"] == "right"
        if out["accepted"] and not want:
            v.append((f"{c['api']}: {c['alg']} token signed by the {c['signed_by']} key{' (carrying its own jwk header)' if c['jwk_header'] else ''} returned as verified although "
                      f"the key resolver gave { {'none': 'no key', 'wrong': 'another key', 'right': 'the right key'}[c['returns']] }", {"alg": c["alg"], "op": "resolver", "kind": "accepted-unverified"}))
        if not out["accepted"] and want:
            v.append((f"{c['api']}: {c['alg']} token signed by the key the resolver returns was refused ({out.get('error')})", {"alg": c["alg"], "op": "resolver", "kind": "own-token-refused"}))
        return v
    if c["op"] == "keyset_rotation":
        want_after = {"replace-same-kid": ["refused", "two"], "remove": ["refused", "two"], "append-new": ["one", "two"]}[c["how"]]
        if out["before"] != ["one", "refused"] or out["after"] != want_after:
            v.append((f"{c['alg']}: a KeySet changed in place ({c['how']}) verified {out['before']} before and {out['after']} after the change, expected ['one', 'refused'] and {want_after}",
                      {"alg": c["alg"], "op": "keyset_rotation", "kind": "accepted-unverified" if out["after"][0] != want_after[0] else "own-token-refused"}))
        return v
    if c["op"] == "eddsa_curve":
        want = {"own": True, "ref_accepts": True, "interop_in": True, "other_key": "refused", "flipped": "refused"}
        for k_, val in out.items():
            if k_ == "raised" or want.get(k_) != val:
                v.append((f"EdDSA over {c['crv']} ({c['ser']}): {k_} = {val!r}" + ("" if k_ == "raised" else f", expected {want.get(k_)!r}"),
                          {"alg": "EdDSA", "op": "eddsa_curve", "kind": "own-token-refused" if k_ in ("own", "interop_in", "raised") else "accepted-unverified"}))
                break
        return v
    if c["op"] == "jwt_reuse":
        for i, r in enumerate(out["reuse"]):
            if r.get("ok") is not True or r.get("kid") != r.get("want_kid"):
                v.append((f"{c['alg']}: JWT #{i + 1} of a history of encode() calls sharing one header dict (keys {c['order']}, given as {c['kform']}) "
                          f"is not accepted under the key set of the signers' public keys / does not name its signing key: {r}",
                          {"alg": c["alg"], "op": "jwt_reuse", "kind": "own-token-refused"}))
                break
        return v
    if c["op"] == "hskey":
        sg = {"alg": c["alg"], "op": "hskey", "kind": "hmac-key-not-used-as-given"}
        if "sign_error" in out:
            return v           # the library refuses the key (e.g. it looks like an asymmetric key): nothing is signed
        if not out["ref_verifies_k1"]:
            v.append((f"token signed with the {len(c['k1']) // 2}-octet HMAC key {c['k1'][:16]}… does not verify under that key with the independent verifier", sg))
        if out["verifies_k2"] != out["ref_verifies_k2"]:      # (HMAC itself zero-pads short keys: K and K‖00 are the same key to every implementation)
            v.append((f"token signed with key {bytes.fromhex(c['k1'])!r} (given as {c.get('f1', 'OctKey')}) {'verifies' if out['verifies_k2'] else 'does not verify'} "
                      f"under key {bytes.fromhex(c['k2'])!r} (given as {c.get('f2', 'OctKey')})", sg))
        return v
    sig = {"alg": c["alg"], "op": c["op"], "mutation": c["kind"].split(":")[0]}
    key = ref_key(c)
    if "ok" in out:
        if c["op"] == "compact":
            tok = bytes.fromhex(c["token"])
            si, sseg = tok.rsplit(b".", 1)
            hseg, pseg = si.split(b".", 1)
            hd, pd, sd = lenient(hseg), lenient(pseg), lenient(sseg)
            try:
                header = json.loads(hd.decode())
            except Exception:
                header = None
            alg = header.get("alg") if isinstance(header, dict) else None
            if not (isinstance(alg, str) and R.verify(alg, key, si, sd)):
                v.append(("token returned as verified although the independent RFC 7515/7518 verifier rejects it", dict(sig, kind="accepted-unverified")))
            if out["ok"]["payload"] != (pd or b"").hex() or out.get("_hdr") != header:
                v.append(("returned header/payload are not the decodings of the received segments", dict(sig, kind="wrong-content")))
            if c["allowed"] is not None and alg not in c["allowed"]:
                v.append(("algorithm outside the allow-list accepted", dict(sig, kind="allow-list")))
        else:
            obj = c["obj"]
            ents = obj["signatures"] if "signatures" in obj else [obj]
            if not ents:
                v.append(("general JSON JWS without any signature returned as verified", dict(sig, kind="accepted-unverified")))
            for e in ents:
                hd, sd = lenient(e["protected"].encode()), lenient(e["signature"].encode())
                try:
                    alg = json.loads(hd.decode()).get("alg")
                except Exception:
                    alg = None
                if not (isinstance(alg, str) and R.verify(alg, key, e["protected"].encode() + b"." + obj["payload"].encode(), sd)):
                    v.append(("JSON JWS accepted although one signature does not verify under the independent verifier", dict(sig, kind="accepted-unverified")))
    if c.get("expect") and c["alg"] != "none":
        if "ok" not in out:
            v.append((f"valid {c['kind']} token refused: {project(c, out)}", dict(sig, kind="valid-refused")))
        elif c["op"] == "compact" and (out["_hdr"] != c["expect"][0] or out["ok"]["payload"] != c["expect"][1]):
            v.append(("round trip does not yield exactly the header and payload that were signed", dict(sig, kind="roundtrip")))
    if c["kind"] == "own" and c["form"] == "key" and c["alg"] != "none":
        got = R.ref_verify_compact_strict(bytes.fromhex(c["token"]), key)
        if got is None or [got[0], got[1].hex()] != c["expect"]:
            v.append(("token produced by the library is rejected by the independent strict RFC 7515 verifier", dict(sig, kind="interop-out")))
    if c["alg"] == "none" and "ok" in out:
        v.append(("alg none accepted", dict(sig, kind="none-accepted")))
    return v


def classify(c, out):
    if c["op"] == "eddsa_curve":
        return f"eddsa_curve/{c['crv']}/{c['ser']}"
    if c["op"] == "keyset_rotation":
        return f"keyset_rotation/{c['how']}"
    if c["op"] == "resolver":
        return "resolver/" + ("accepted" if out.get("accepted") else "refused")
    if c["op"] in ("large", "jwt_claims_back"):
        return c["op"]
    if c["op"] == "kidless":
        return f"kidless/{c['sform']}/{c['vform']}"
    if c["op"] == "default_jwt":
        return "default_jwt/" + c["alg"][:2]
    if c["op"] in ("json_headers", "json_mixed"):
        return c["op"] + "/" + c.get("ser", c.get("order", ""))
    if c["op"] == "jwt_reuse":
        return f"jwt_reuse/{c['kform']}/{len(c['order'])}"
    if c["op"] == "hskey":
        return f"hskey/{c.get('f1', 'key')}-{c.get('f2', 'key')}/" + ("refused" if "sign_error" in out else ("same" if c["k1"] == c["k2"] else "different"))
    return f"{c['op']}/{c['kind'].split(':')[0]}/" + ("ok" if "ok" in out else out.get("error", out.get("raised", "?")))


def nontrivial(c, out):
    if c["op"] == "eddsa_curve":
        return [c["crv"], c["ser"]]
    if c["op"] == "keyset_rotation":
        return [c["alg"], c["how"]]
    if c["op"] == "resolver":
        return [c[k] for k in ("alg", "returns", "signed_by", "jwk_header", "api")]
    if c["op"] in ("large", "jwt_claims_back"):
        return [c["op"], c["alg"], c.get("ser"), str(c.get("claims"))]
    if c["op"] == "kidless":
        return [c["alg"], c["sform"], c["vform"]]
    if c["op"] == "default_jwt":
        return [c["alg"]]
    if c["op"] in ("json_headers", "json_mixed"):
        return [c.get(k) for k in ("op", "alg", "ser", "bad_alg", "order")]
    if c["op"] == "jwt_reuse":
        return [c["alg"], c["kform"], c["order"]]
    if c["op"] == "hskey":
        return [c["alg"], c["k1"], c["k2"], c.get("f1"), c.get("f2")]
    if c["op"] == "hmac":
        return None
    return [c.get("token") or json.dumps(c["obj"], sort_keys=True), c["kn"], c["form"], c["allowed"]]


def search(breaks, rng, known, match_known):
    for c in cases(rng, "thorough"):
        o = impl(c)
        for what, sig in oracle(c, o):
            if match_known(known, sig) is None:
                return {"what": what, "sig": sig, "case": c, "impl": project(c, o)}
    return None
